"""C02 (low confidence): in the 'limit not reachable' fallback the reported fm is the
placeholder 0 instead of the density of the least dense enclosed cell.

The grid [1.5,3.5]x[5,8] holds only part of the probability, alpha = 0.01.
HighestDensityContour warns (correct) and encloses ALL grid cells, but reports
fm = 0.0 although the least dense enclosed cell has a strictly positive
cell-averaged density.  Exit 0 iff fm equals the density of the least dense
enclosed cell (and the RuntimeWarning is still raised).
"""
import sys
import warnings
import numpy as np
from virocon import (HighestDensityContour, DependenceFunction, LogNormalDistribution,
                     WeibullDistribution, GlobalHierarchicalModel)


def _power3(x, a=0.1000, b=1.489, c=0.1901):
    return a + b * x**c


def _exp3(x, a=0.0400, b=0.1748, c=-0.2243):
    return a + b * np.exp(c * x)


model = GlobalHierarchicalModel([
    {"distribution": WeibullDistribution(alpha=2.776, beta=1.471, gamma=0.8888)},
    {"distribution": LogNormalDistribution(), "conditional_on": 0,
     "parameters": {"mu": DependenceFunction(_power3), "sigma": DependenceFunction(_exp3)}},
])
alpha = 0.01
limits = [(1.5, 3.5), (5, 8)]   # grid around the mode: every cell is clearly dense
deltas = [0.1, 0.1]

with warnings.catch_warnings(record=True) as rec:
    warnings.simplefilter("always")
    contour = HighestDensityContour(model, alpha, limits, deltas)
warned = any(issubclass(w.category, RuntimeWarning) for w in rec)

coords = contour.cell_center_coordinates
f = contour.cell_averaged_joint_pdf(coords)          # cell-averaged density per cell
total = float((f * deltas[0] * deltas[1]).sum())
print("probability captured by the grid:", total, " 1-alpha:", 1 - alpha)
print("RuntimeWarning raised:", warned)

# Enclosed region in the fallback = whole grid: the returned boundary is the grid border.
c = np.asarray(contour.coordinates)
on_border = (np.isclose(c[:, 0], coords[0][0]) | np.isclose(c[:, 0], coords[0][-1])
             | np.isclose(c[:, 1], coords[1][0]) | np.isclose(c[:, 1], coords[1][-1]))
print("contour lies on the grid border (all cells enclosed):", bool(on_border.all()))

least_dense_enclosed = float(f.min())
print("reported fm:", contour.fm, " density of least dense enclosed cell:", least_dense_enclosed)

ok = warned and np.isclose(contour.fm, least_dense_enclosed, rtol=1e-9, atol=0.0)
if not ok:
    print("VIOLATION: fm is not the density of the least dense enclosed cell")
    sys.exit(1)
print("ok")
