"""C04 defect 1: OrContour crashes with IndexError when every searched point is
dropped by the 1.1*max range filter (variables on different scales, e.g. Hs [m]
vs. steepness [-]); no 'could not achieve the required precision' warning is emitted.

Run: cd /tmp/w4_C04 && PYTHONPATH=/tmp/w4_C04 /venv/bin/python -W ignore _audit/defect_1.py
"""
import warnings
import numpy as np
from virocon import (
    OrContour,
    GlobalHierarchicalModel,
    WeibullDistribution,
    ExponentiatedWeibullDistribution,
)

# x: significant wave height [m], y: wave steepness [-]; realistic magnitudes.
model = GlobalHierarchicalModel(
    [
        {"distribution": ExponentiatedWeibullDistribution(alpha=0.207, beta=0.684, delta=7.79)},
        {"distribution": WeibullDistribution(alpha=0.035, beta=3.0, gamma=0)},
    ]
)
sample = model.draw_sample(10000, random_state=2)
alpha = 0.01
allowed_error = 0.01

with warnings.catch_warnings(record=True) as w:
    warnings.simplefilter("always")
    # Raises IndexError ("list index out of range") on the unmodified library.
    try:
        contour = OrContour(model, alpha, sample=sample, allowed_error=allowed_error)
    except ValueError as e:
        # an explicit, documented rejection ("no contour point within range") would be fine
        print("ok (explicit ValueError: %s)" % e)
        raise SystemExit(0)
precision_warned = any("required precision" in str(x.message) for x in w)

# If we get here the library returned a contour: check what C04 promises.
x, y = sample.T
co = np.array([[float(np.asarray(v).ravel()[0]) for v in row] for row in contour.coordinates])
assert co.shape[1] == 2 and len(co) >= 1
assert any((p == 0).all() for p in co), "contour must be closed through the origin"
thetas = np.arange(10, 80, 3)
for p in co:
    if p[0] > 0 and p[1] > 0:  # a searched point
        th = np.rad2deg(np.arctan2(p[1], p[0]))
        assert np.min(np.abs(thetas - th)) < 1e-7, ("not on a requested ray", p)
        assert p[0] < 1.1 * x.max() and p[1] < 1.1 * y.max(), ("out of range kept", p)
        if not precision_warned:
            pe = np.mean((x > p[0]) | (y > p[1]))
            assert abs(pe - alpha) <= allowed_error * alpha * (1 + 1e-9), (p, pe)
print("ok")
