"""C04 defect 4: OrContour's range filter uses the Python builtin max() on the sample
columns. With a single NaN observation the outcome depends on the ROW ORDER of the
sample: NaN in row 0 -> max(x) is nan -> every searched point fails `c < nan`, all
points are dropped and the constructor dies with IndexError; the same observations with
the NaN in any other row give a normal contour (NaN never 'exceeds', so the empirical
OR-exceedance fractions are identical for both orderings).

Run: cd /tmp/w4_C04 && PYTHONPATH=/tmp/w4_C04 /venv/bin/python -W ignore _audit/defect_4.py
"""
import warnings
import numpy as np
from virocon import OrContour, GlobalHierarchicalModel, WeibullDistribution

model = GlobalHierarchicalModel(
    [
        {"distribution": WeibullDistribution(alpha=2.776, beta=1.471, gamma=0.8888)},
        {"distribution": WeibullDistribution(alpha=7.0, beta=3.0, gamma=2.0)},
    ]
)
sample = model.draw_sample(10000, random_state=1)
sample[5, 0] = np.nan
alpha, allowed_error = 0.05, 0.01


def contour_of(s):
    with warnings.catch_warnings(record=True) as w:
        warnings.simplefilter("always")
        c = OrContour(model, alpha, sample=s, allowed_error=allowed_error)
    assert not any("required precision" in str(m.message) for m in w)
    return np.array([[float(np.asarray(v).ravel()[0]) for v in row] for row in c.coordinates])


def outcome(s):
    try:
        return contour_of(s)
    except ValueError as e:  # an explicit rejection of non-finite samples would be fine
        return "ValueError"


a = outcome(sample)  # NaN in row 5: works today
# same observations, NaN row moved to the front
perm = np.r_[5, 0:5, 6 : len(sample)]
b = outcome(sample[perm])  # IndexError on the unmodified library
if isinstance(a, str) or isinstance(b, str):
    assert isinstance(a, str) and isinstance(b, str), "row order changes accept/reject"
else:
    np.testing.assert_allclose(a, b)
print("ok")
