"""C04 defect 2: AndContour / OrContour crash with UnboundLocalError for
allowed_error >= 1 (the search loop body never runs because current_pe starts at 0
and |0 - alpha| / alpha == 1 is not > allowed_error).

Run: cd /tmp/w4_C04 && PYTHONPATH=/tmp/w4_C04 /venv/bin/python -W ignore _audit/defect_2.py
"""
import warnings
import numpy as np
from virocon import (
    AndContour,
    OrContour,
    GlobalHierarchicalModel,
    WeibullDistribution,
)

model = GlobalHierarchicalModel(
    [
        {"distribution": WeibullDistribution(alpha=2.776, beta=1.471, gamma=0.8888)},
        {"distribution": WeibullDistribution(alpha=7.0, beta=3.0, gamma=2.0)},
    ]
)
sample = model.draw_sample(10000, random_state=1)
x, y = sample.T
alpha = 0.05
allowed_error = 1.0  # also 2, 10, ...

for cls, op in ((AndContour, np.logical_and), (OrContour, np.logical_or)):
    with warnings.catch_warnings(record=True) as w:
        warnings.simplefilter("always")
        # UnboundLocalError: cannot access local variable 'current_vector' ...
        contour = cls(model, alpha, sample=sample, allowed_error=allowed_error)
    warned = any("required precision" in str(m.message) for m in w)
    co = np.array([[float(np.asarray(v).ravel()[0]) for v in row] for row in contour.coordinates])
    n_closure = 1 if cls is AndContour else 3
    pts = co[:-n_closure]
    assert len(pts) > 0
    for p in pts:
        pe = np.mean(op(x > p[0], y > p[1]))
        assert warned or abs(pe - alpha) <= allowed_error * alpha * (1 + 1e-9), (cls.__name__, p, pe)
    assert (co[-1] == 0).all() if cls is AndContour else (co[-2] == 0).all()
print("ok")
