"""C04 defect 3: AndContour with an empty (0, 2) sample silently returns 'searched'
points (at 0.2 * max_distance on each ray) without the 'could not achieve the required
precision' warning although the empirical exceedance is undefined (0/0 = nan): the loop
condition `abs(nan - alpha) / alpha > allowed_error` is False. (OrContour with the same
input dies with "ValueError: max() iterable argument is empty".)

Run: cd /tmp/w4_C04 && PYTHONPATH=/tmp/w4_C04 /venv/bin/python -W ignore _audit/defect_3.py
"""
import warnings
import numpy as np
from virocon import AndContour, GlobalHierarchicalModel, WeibullDistribution

model = GlobalHierarchicalModel(
    [
        {"distribution": WeibullDistribution(alpha=2.776, beta=1.471, gamma=0.8888)},
        {"distribution": WeibullDistribution(alpha=7.0, beta=3.0, gamma=2.0)},
    ]
)
sample = np.empty((0, 2))
alpha, allowed_error = 0.05, 0.01
with warnings.catch_warnings(record=True) as w:
    warnings.simplefilter("always")
    try:
        contour = AndContour(model, alpha, sample=sample, allowed_error=allowed_error)
    except ValueError:
        print("ok (rejected empty sample)")
        raise SystemExit(0)
warned = any("required precision" in str(m.message) for m in w)
x, y = sample.T
for p in contour.coordinates[:-1]:
    with np.errstate(all="ignore"):
        pe = np.logical_and(x > p[0], y > p[1]).sum() / x.size
    # nan is not within allowed_error * alpha of alpha
    assert warned or abs(pe - alpha) <= allowed_error * alpha, (p, pe, "no precision warning")
print("ok")
