import numpy as np, scipy.stats as sts, sys
sys.path.insert(0, '_audit')
from ref import *
rng = np.random.default_rng(3)
n = 1000
x = sts.weibull_min.rvs(1.5, scale=2, size=n, random_state=rng)
wi = rng.integers(1, 10, n)
for c in (1, 10**6, 10**12, 10**15, 10**16, 10**17, 10**18):
    for fd in (1.0, None):
        w = wi * c
        d = EW(f_delta=fd); d.fit(x, method='wlsq', weights=w)
        d2 = EW(f_delta=fd); d2.fit(x, method='wlsq', weights=w.astype(float))
        print(c, fd, w.dtype, d.alpha, d.beta, d.delta, '| float:', d2.alpha, d2.beta, d2.delta)
# float16 / float32
wa = rng.uniform(0.1, 5, n)
for dt in (np.float16, np.float32):
    for c in (1, 100):
        w = (wa*c).astype(dt)
        d = EW(f_delta=1.0); d.fit(x, method='wlsq', weights=w)
        d2 = EW(f_delta=1.0); d2.fit(x, method='wlsq', weights=w.astype(float))
        print(dt.__name__, c, d.alpha, d.beta, '| float:', d2.alpha, d2.beta)
