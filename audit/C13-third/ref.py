import numpy as np
from virocon import ExponentiatedWeibullDistribution as EW
LD = np.longdouble

def pstar(p, delta):
    """log10(-ln(1 - p**(1/delta))) evaluated stably (log1mexp) in long double."""
    t = np.log(np.asarray(p, dtype=LD)) / LD(delta)          # ln(p**(1/delta)) < 0
    l1me = np.where(t > -np.log(LD(2)), np.log(-np.expm1(t)), np.log1p(-np.exp(t)))
    return np.log10(-l1me)

def ref_ab(x, w, delta, dtype=LD):
    """x sorted (with zeros), w aligned; centred weighted regression."""
    x = np.asarray(x, dtype=dtype); w = np.asarray(w, dtype=dtype)
    n = len(x); p = (np.arange(1, n+1, dtype=dtype) - 0.5) / n
    m = x != 0
    x, p, w = x[m], p[m], w[m]
    w = w / w.sum()
    xs = np.log10(x); ps = pstar(p, delta).astype(dtype)
    pb = (w*ps).sum(); xb = (w*xs).sum()
    b = (w*(ps-pb)*(xs-xb)).sum() / (w*(ps-pb)**2).sum()
    a = xb - b*pb
    return float(10**a), float(1/b)

def xerr(x, w, delta):
    x = np.asarray(x, float); n = len(x); p = (np.arange(1, n+1) - 0.5)/n
    return EW._wlsq_error(delta, x, p, np.asarray(w, float))
