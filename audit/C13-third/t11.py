import numpy as np, scipy.stats as sts, sys
sys.path.insert(0, '_audit')
from ref import *
def S(x, w, delta, alpha, beta):
    x = np.asarray(x, LD); w=np.asarray(w, LD); w = w/w.sum(); n=len(x); p=(np.arange(1,n+1,dtype=LD)-.5)/n
    r = np.log10(x) - np.log10(LD(alpha)) - pstar(p, delta)/LD(beta)
    return float((w*r*r).sum())
for b, n, ws, k in ((0.2,5000,'cubic',3),(0.3,5000,'cubic',3),(0.5,5000,'cubic',3),(0.1,1000,'quadratic',2),(0.2,1000,'cubic',3), (1.0, 5000, 'cubic', 3)):
  for seed in range(6):
    x = sts.pareto.rvs(b, size=n, random_state=seed); xs=np.sort(x)
    d = EW(f_delta=1.0); d.fit(x, method='wlsq', weights=ws)
    w = xs**k
    a,be = ref_ab(xs, w, 1.0); a2,be2 = ref_ab(xs, w, 1.0, dtype=float)
    print(b,n,ws,seed, f'lib {d.alpha:.6g} {d.beta:.8g} | ld {a:.6g} {be:.8g} | cd {a2:.6g} {be2:.8g} | ra={abs(d.alpha/a-1):.1e} rb={abs(d.beta/be-1):.1e} cd-ra={abs(a2/a-1):.1e} | S lib={S(xs,w,1.0,d.alpha,d.beta):.6g} ref={S(xs,w,1.0,a,be):.6g} wmax={w[-1]/w.sum():.17g}')
