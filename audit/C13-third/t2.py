import numpy as np, scipy.stats as sts, sys, pandas as pd
sys.path.insert(0, '_audit')
from ref import *
rng = np.random.default_rng(1)
def run(x, warg, wsorted, fd, tag):
    d = EW(f_delta=fd)
    try:
        d.fit(x, method='wlsq', weights=warg)
    except Exception as e:
        print(tag, 'EXC', type(e).__name__, e); return None
    a, b = ref_ab(np.sort(np.asarray(x, float)), wsorted, d.delta)
    print(tag, f'fd={fd} delta={d.delta:.6g} alpha={d.alpha:.10g} ref={a:.10g} beta={d.beta:.10g} ref={b:.10g} ra={abs(d.alpha/a-1):.2e} rb={abs(d.beta/b-1):.2e}')
    return d
n=1000
x = sts.weibull_min.rvs(1.5, scale=2, size=n, random_state=rng)
xs = np.sort(x)
print('--- narrow data')
for loc, sc in ((1e4,1),(1e6,1),(1e8,1),(1e9,1e-3), (100, 0.01)):
    y = loc + sc*sts.norm.rvs(size=n, random_state=rng)
    run(y, None, np.ones(n), 1.0, f'narrow {loc} {sc}')
    run(y, 'cubic', np.sort(y)**3, 1.0, f'narrow cubic {loc} {sc}')
print('--- concentrated weights')
for k in (5, 10, 20, 40, 80):
    w = x**k
    run(x, w, xs**k, 1.0, f'x**{k}')
    run(x, w, xs**k, None, f'x**{k}')
for eps in (1e-6, 1e-10, 1e-13, 1e-15):
    w = np.full(n, eps); w[np.argmax(x)] = 1.0
    run(x, w, w[np.lexsort((w,x))], 1.0, f'onebig {eps}')
print('--- exp weights')
w = np.exp(5*x); run(x, w, np.exp(5*xs), 1.0, 'exp5x')
w = np.exp(20*x); run(x, w, np.exp(20*xs), 1.0, 'exp20x')
print('--- scaling')
wa = rng.uniform(0.1,5,n); wso = wa[np.lexsort((wa,x))]
for c in (1e-300, 1e-200, 1e-100, 1e-10, 1, 1e10, 1e100, 1e200, 1e300, 1e304, 1e306):
    run(x, wa*c, wso, 1.0, f'scale {c}')
    run(x, wa*c, wso, None, f'scale {c}')
