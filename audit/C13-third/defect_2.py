"""C13 defect 2: the closed-form weighted regression uses the one-pass formulas
   var = sum(w p*^2) - (sum w p*)^2   and   cov = sum(w p* x*) - p*bar x*bar.
When the weights are concentrated on one observation (keyword weights of a very
heavy-tailed sample, or an array with a wide dynamic range) these differences
cancel catastrophically: alpha and beta are NOT the minimisers of the weighted
squared error of the linearised relation (off by percent ... orders of magnitude,
nan, or beta = -inf), although the problem is perfectly solvable in double
precision (the centred two-pass formulas agree with long double to ~1e-11)."""
import sys
import warnings
import numpy as np
import scipy.stats as sts
from virocon import ExponentiatedWeibullDistribution as EW

warnings.simplefilter("ignore")
LD = np.longdouble


def pstar(p, delta, dtype):
    p = np.asarray(p, dtype=dtype)
    return np.log10(-np.log1p(-(p ** (dtype(1) / dtype(delta)))))


def centred(xs, w, delta, dtype):
    """weighted LS of log10 x on p* with centred (two-pass) sums."""
    xs = np.asarray(xs, dtype=dtype)
    w = np.asarray(w, dtype=dtype)
    n = len(xs)
    p = (np.arange(1, n + 1, dtype=dtype) - dtype(0.5)) / n
    w = w / w.sum()
    X, P = np.log10(xs), pstar(p, delta, dtype)
    pb, xb = (w * P).sum(), (w * X).sum()
    b = (w * (P - pb) * (X - xb)).sum() / (w * (P - pb) ** 2).sum()
    return float(10 ** (xb - b * pb)), float(1 / b)


def objective(xs, w, delta, alpha, beta):
    """weighted squared error of the linearised relation, in long double."""
    xs = np.asarray(xs, dtype=LD)
    w = np.asarray(w, dtype=LD)
    w = w / w.sum()
    n = len(xs)
    p = (np.arange(1, n + 1, dtype=LD) - LD(0.5)) / n
    r = np.log10(xs) - np.log10(LD(alpha)) - pstar(p, delta, LD) / LD(beta)
    return float((w * r * r).sum())


cases = []
# keyword weights, heavy-tailed positive samples (Pareto, shape 0.2 / 0.1)
for b, n, kw, k, seed in ((0.2, 5000, "cubic", 3, 1), (0.2, 5000, "cubic", 3, 5),
                          (0.3, 5000, "cubic", 3, 1), (0.1, 1000, "quadratic", 2, 0)):
    x = sts.pareto.rvs(b, size=n, random_state=seed)
    cases.append((f"pareto({b}) n={n} seed={seed} weights='{kw}'", x, kw, np.sort(x) ** k))
# array weights with a wide dynamic range on an ordinary Weibull sample
x = sts.weibull_min.rvs(1.5, scale=2, size=1000, random_state=0)
w = np.full(1000, 1e-17)
w[np.argmax(x)] = 1.0
cases.append(("weibull n=1000, array weights 1e-17 except 1.0 for the largest x", x, w, w[np.lexsort((w, x))]))

fail = False
for tag, x, warg, wsorted in cases:
    d = EW(f_delta=1.0)
    d.fit(x, method="wlsq", weights=warg)
    xs = np.sort(x)
    a_ld, b_ld = centred(xs, wsorted, 1.0, LD)
    a_d, b_d = centred(xs, wsorted, 1.0, np.float64)
    # the problem is well posed in double precision:
    assert abs(a_d / a_ld - 1) < 1e-8 and abs(b_d / b_ld - 1) < 1e-8
    s_ref = objective(xs, wsorted, 1.0, a_ld, b_ld)
    s_lib = objective(xs, wsorted, 1.0, d.alpha, d.beta) if np.isfinite(d.alpha) and np.isfinite(d.beta) else np.nan
    ok = (np.isfinite(d.alpha) and np.isfinite(d.beta)
          and abs(d.alpha / a_ld - 1) < 1e-6 and abs(d.beta / b_ld - 1) < 1e-6)
    print(f"{tag}:\n   library alpha={d.alpha:.8g} beta={d.beta:.8g}   minimiser alpha={a_ld:.8g} beta={b_ld:.8g}"
          f"   weighted sq. error library={s_lib:.4g} minimiser={s_ref:.4g}   {'ok' if ok else 'WRONG'}")
    fail |= not ok
sys.exit(1 if fail else 0)
