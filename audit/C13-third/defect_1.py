"""C13 defect 1: an integer (int64) weight array is summed in int64 when the
weights are normalised; the sum wraps around silently and alpha/beta are wrong
(beta even negative).  The same positive weights as floats, or divided by the
constant, give the correct answer -> the result depends on how the weights are
scaled / typed, contradicting "any positive array, irrespective of how the
weights are normalised"."""
import sys
import warnings
import numpy as np
import scipy.stats as sts
from virocon import ExponentiatedWeibullDistribution as EW

warnings.simplefilter("ignore")
n = 1000
x = sts.weibull_min.rvs(1.5, scale=2, size=n, random_state=3)
base = np.random.default_rng(3).integers(1, 10, n)  # positive integer weights 1..9


def fit(w, f_delta):
    d = EW(f_delta=f_delta)
    d.fit(x, method="wlsq", weights=w)
    return np.array([d.alpha, d.beta, d.delta], dtype=float)


fail = False
for f_delta in (1.0, None):
    ref = fit(base, f_delta)  # small integers: fine
    for c in (10**15, 10**16, 10**18):
        w_int = base * c  # still exactly representable positive int64 values
        assert w_int.dtype == np.int64 and (w_int > 0).all()
        got = fit(w_int, f_delta)
        got_float = fit(w_int.astype(float), f_delta)
        dev = np.max(np.abs(got / ref - 1))
        dev_f = np.max(np.abs(got_float / ref - 1))
        ok = np.all(np.isfinite(got)) and dev < 1e-3  # 1e-3: generous (fmin xtol for a free delta)
        print(f"f_delta={f_delta} c=1e{len(str(c)) - 1}: int64 weights -> alpha,beta,delta={got}  "
              f"(float weights -> {got_float}, unscaled -> {ref})  {'ok' if ok else 'WRONG'}")
        assert dev_f < 1e-3  # the float version of the very same weights is fine
        fail |= not ok

# half-precision weights: the float16 sum overflows (> 65504) -> nan
w16 = (np.random.default_rng(4).uniform(10, 500, n)).astype(np.float16)
got = fit(w16, 1.0)
ref = fit(w16.astype(float), 1.0)
ok = np.all(np.isfinite(got)) and np.max(np.abs(got / ref - 1)) < 1e-6
print(f"float16 weights -> {got}, same values as float64 -> {ref}  {'ok' if ok else 'WRONG'}")
fail |= not ok

sys.exit(1 if fail else 0)
