import numpy as np, scipy.stats as sts, sys
sys.path.insert(0, '_audit')
from ref import *
rng = np.random.default_rng(11)
for fam, x in (('weib', sts.weibull_min.rvs(1.5, scale=2, size=5000, random_state=rng)), ('invgamma3', sts.invgamma.rvs(3, size=5000, random_state=rng)), ('logn', sts.lognorm.rvs(0.5, size=1000, random_state=rng))):
  xs = np.sort(x); n=len(x)
  for fd in (1, 100, 1e4, 1e5, 1e6, 1e7, 1e8, 1e9, 1e10):
    for ws,k in ((None,0),('quadratic',2)):
        d = EW(f_delta=fd); d.fit(x, method='lsq', weights=ws)
        a,b = ref_ab(xs, xs**k, fd)
        print(fam, fd, ws, f'alpha={d.alpha:.8g} ref={a:.8g} beta={d.beta:.8g} ref={b:.8g} ra={abs(d.alpha/a-1):.1e} rb={abs(d.beta/b-1):.1e}')
  for ws,k in ((None,0),('linear',1),('quadratic',2),('cubic',3)):
    d = EW(); d.fit(x, method='lsq', weights=ws)
    a,b = ref_ab(xs, xs**k, d.delta)
    print(fam, 'free', ws, f'delta={d.delta:.6g} alpha={d.alpha:.8g} ref={a:.8g} beta={d.beta:.8g} ref={b:.8g} ra={abs(d.alpha/a-1):.1e} rb={abs(d.beta/b-1):.1e}')
