"""C13 defect 4: for a large delta (fixed, or reached by a free fit) the term
1 - p**(1/delta) is formed by subtraction (log1p(-(p**(1/delta)))): p**(1/delta)
is 1 - O(|ln p|/delta), so the difference keeps only ~16 - log10(delta/|ln p|)
digits.  alpha and beta then deviate from the weighted-least-squares minimiser
by 1e-4 ... 1e-3 (relative), far beyond round-off; with -expm1(log(p)/delta)
the same double arithmetic is accurate to ~1e-11."""
import sys
import warnings
import numpy as np
import scipy.stats as sts
from virocon import ExponentiatedWeibullDistribution as EW

warnings.simplefilter("ignore")
LD = np.longdouble


def minimiser(xs, w, delta, dtype):
    xs = np.asarray(xs, dtype=dtype)
    w = np.asarray(w, dtype=dtype)
    n = len(xs)
    p = (np.arange(1, n + 1, dtype=dtype) - dtype(0.5)) / n
    P = np.log10(-np.log(-np.expm1(np.log(p) / dtype(delta))))  # stable 1 - p**(1/delta)
    X = np.log10(xs)
    w = w / w.sum()
    pb, xb = (w * P).sum(), (w * X).sum()
    b = (w * (P - pb) * (X - xb)).sum() / (w * (P - pb) ** 2).sum()
    return float(10 ** (xb - b * pb)), float(1 / b)


x = sts.invgamma.rvs(3, size=5000, random_state=11)
xs = np.sort(x)
fail = False
for f_delta in (1e2, 1e9, 1e10):
    for kw, k in ((None, 0), ("quadratic", 2)):
        d = EW(f_delta=f_delta)
        d.fit(x, method="lsq", weights=kw)
        a, b = minimiser(xs, xs**k, f_delta, LD)
        a64, b64 = minimiser(xs, xs**k, f_delta, np.float64)
        assert abs(a64 / a - 1) < 1e-8 and abs(b64 / b - 1) < 1e-8  # solvable in double
        ra, rb = abs(d.alpha / a - 1), abs(d.beta / b - 1)
        ok = ra < 1e-6 and rb < 1e-6
        print(f"f_delta={f_delta:g} weights={kw}: alpha={d.alpha:.8g} (minimiser {a:.8g}, rel.dev {ra:.1e}) "
              f"beta={d.beta:.8g} (minimiser {b:.8g}, rel.dev {rb:.1e})  {'ok' if ok else 'WRONG'}")
        fail |= not ok
sys.exit(1 if fail else 0)
