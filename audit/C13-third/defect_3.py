"""C13 defect 3: the result is not independent of the scale of a float weight
array.  (a) np.sum(w) overflows for weights of the order 1e305 -> w/inf = 0 ->
alpha = beta = nan (fixed and free delta).  (b) The x-space criterion for a free
delta uses the raw weights: with weights ~1e300 and data ~1e6 it is inf
everywhere, fmin cannot move and the start value delta=1 is returned as
'fitted', although alpha/beta/delta for the same weights scaled by 1e-300 are
different."""
import sys
import warnings
import numpy as np
import scipy.stats as sts
from virocon import ExponentiatedWeibullDistribution as EW

warnings.simplefilter("ignore")
n = 1000
x = sts.weibull_min.rvs(1.5, scale=2, size=n, random_state=3)
w = np.random.default_rng(3).uniform(0.1, 5, n)


def fit(x, w, f_delta):
    d = EW(f_delta=f_delta)
    d.fit(x, method="wlsq", weights=w)
    return np.array([d.alpha, d.beta, d.delta], dtype=float)


fail = False
for xscale, c, f_delta in ((1.0, 1e305, 1.0), (1.0, 1e305, None), (1e6, 1e300, None)):
    ref = fit(x * xscale, w, f_delta)
    got = fit(x * xscale, w * c, f_delta)
    assert np.all(np.isfinite(w * c)) and np.all(w * c > 0)
    ok = np.all(np.isfinite(got)) and np.max(np.abs(got / ref - 1)) < 1e-3
    print(f"x*{xscale:g}, weights*{c:g}, f_delta={f_delta}: {got}   (weights unscaled: {ref})  {'ok' if ok else 'WRONG'}")
    fail |= not ok
sys.exit(1 if fail else 0)
