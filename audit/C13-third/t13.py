import numpy as np, scipy.stats as sts, sys
from virocon import ExponentiatedWeibullDistribution as EW
rng = np.random.default_rng(3)
for name, x in (('unif', sts.uniform.rvs(1,2,size=1000, random_state=rng)), ('beta25', sts.beta.rvs(2,5,size=1000, random_state=rng)), ('norm', sts.norm.rvs(10,1,size=1000, random_state=rng)), ('weib5', sts.weibull_min.rvs(5,size=300, random_state=rng))):
    n=len(x); wa = rng.uniform(0.1,5,n)
    for c in (1e-6, 1, 1e6, 1e12):
        d = EW(); d.fit(x, method='wlsq', weights=wa*c)
        print(name, c, repr(d.delta), d.alpha, d.beta)
