import numpy as np, scipy.stats as sts, sys
sys.path.insert(0, '_audit')
from ref import *
for n in (30, 200, 1000, 5000):
    p = (np.arange(1,n+1)-.5)/n
    x = 8*(-np.log1p(-p))**(1/2)
    for c in (0.5, 1, 1.5, 2, 3, 5):
        w = np.exp(c*x)
        d = EW(f_delta=1); d.fit(x, method='wlsq', weights=w)
        a,b = ref_ab(x, w, 1.0); a2,b2 = ref_ab(x,w,1.0,dtype=float)
        print(n, c, f'max={x[-1]:.1f} wratio={w[-1]/w[-2]:.3g} alpha={d.alpha:.12g} beta={d.beta:.12g} | ld {a:.12g} {b:.12g} | centred double {a2:.12g} {b2:.12g}')
    for k in (10, 20, 40, 80):
        w = x**k
        d = EW(f_delta=1); d.fit(x, method='wlsq', weights=w)
        a2,b2 = ref_ab(x,w,1.0,dtype=float)
        print(n, f'x**{k}', f'alpha={d.alpha:.12g} beta={d.beta:.12g} | centred double {a2:.12g} {b2:.12g}')
