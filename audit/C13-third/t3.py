import numpy as np, scipy.stats as sts, sys, pandas as pd
sys.path.insert(0, '_audit')
from ref import *
rng = np.random.default_rng(2)
n=400
x = np.round(sts.weibull_min.rvs(1.5, scale=2, size=n, random_state=rng),1)  # ties and zeros
print('zeros', (x==0).sum(), 'unique', len(np.unique(x)))
wa = rng.uniform(0.1,5,n)
def fit(x, w, fd, **kw):
    d = EW(f_delta=fd, **kw); d.fit(x, method='lsq', weights=w); return np.array([d.alpha,d.beta,d.delta])
for fd in (0.7, None):
    base = fit(x, wa, fd)
    for t in range(5):
        perm = rng.permutation(n)
        r = fit(x[perm], wa[perm], fd)
        print('perm', fd, np.max(np.abs(r/base-1)))
    for ws in (None,'linear','quadratic','cubic'):
        b0 = fit(x, ws, fd); perm = rng.permutation(n)
        print('perm', ws, fd, np.max(np.abs(fit(x[perm], ws, fd)/b0-1)))
    # types
    print('list', np.max(np.abs(fit(list(x), list(wa), fd)/base-1)))
    print('series', np.max(np.abs(fit(pd.Series(x, index=np.arange(n)[::-1]), pd.Series(wa, index=np.arange(n)[::-1]), fd)/base-1)))
    print('tuple', np.max(np.abs(fit(tuple(x), tuple(wa), fd)/base-1)))
    print('f32', np.max(np.abs(fit(x, wa.astype(np.float32), fd)/fit(x, wa.astype(np.float32).astype(float), fd)-1)))
    wi = rng.integers(1, 10, n)
    print('intw', np.max(np.abs(fit(x, wi, fd)/fit(x, wi.astype(float), fd)-1)))
    print('intw u8', np.max(np.abs(fit(x, wi.astype(np.uint8), fd)/fit(x, wi.astype(float), fd)-1)))
    print('intw*1000 i64', np.max(np.abs(fit(x, wi*1000, fd)/fit(x, wi.astype(float), fd)-1)))
    # keywords equal arrays
    xs = x
    for k, ws in ((1,'linear'),(2,'quadratic'),(3,'cubic')):
        print(ws, 'vs array', np.max(np.abs(fit(x, ws, fd)/fit(x, x**k*123.0, fd)-1)))
    print('None vs ones', np.max(np.abs(fit(x, None, fd)/fit(x, np.full(n, 0.37), fd)-1)))
    print('LINEAR', fit(x,'LINEAR',fd)-fit(x,'linear',fd))
    # zeros ignored: compare with ref
    xs = np.sort(x)
    a,b = ref_ab(xs, wa[np.lexsort((wa,x))], base[2]); print('ref', abs(base[0]/a-1), abs(base[1]/b-1))
    # int data
    xi = np.round(x*10).astype(int)
    print('int data', fit(xi, 'cubic', fd), fit(xi.astype(float), 'cubic', fd))
    # refit
    d = EW(f_delta=fd); d.fit(x, method='lsq', weights=wa); r1=(d.alpha,d.beta,d.delta); d.fit(x, method='lsq', weights=wa); print('refit', r1, (d.alpha,d.beta,d.delta))
