import numpy as np, scipy.stats as sts, sys
sys.path.insert(0, '_audit')
from ref import *
rng = np.random.default_rng(7)
def run(x, warg, wsorted, fd, tag):
    d = EW(f_delta=fd)
    d.fit(x, method='wlsq', weights=warg)
    a, b = ref_ab(np.sort(np.asarray(x, float)), wsorted, d.delta)
    print(tag, f'fd={fd} delta={d.delta:.6g} alpha={d.alpha:.10g} ref={a:.10g} beta={d.beta:.10g} ref={b:.10g} ra={abs(d.alpha/a-1):.2e} rb={abs(d.beta/b-1):.2e}')
for n in (100, 1000, 5000):
  for b in (0.5, 0.2, 0.1, 0.05):
    x = sts.pareto.rvs(b, size=n, random_state=rng); xs=np.sort(x)
    for k,ws in ((1,'linear'),(2,'quadratic'),(3,'cubic')):
        run(x, ws, xs**k, 1.0, f'pareto{b} n={n} {ws}')
  for s in (3, 5, 10):
    x = sts.lognorm.rvs(s, size=n, random_state=rng); xs=np.sort(x)
    for k,ws in ((1,'linear'),(2,'quadratic'),(3,'cubic')):
        run(x, ws, xs**k, 1.0, f'logn{s} n={n} {ws}')
  x = sts.gamma.rvs(2, scale=5, size=n, random_state=rng); xs=np.sort(x)
  for c in (0.5, 1, 2, 5):
    run(x, np.exp(c*x), np.exp(c*xs), 1.0, f'gamma exp({c}x) n={n} max={xs[-1]:.1f} 2nd={xs[-2]:.1f}')
