import numpy as np, scipy.stats as sts, sys
sys.path.insert(0, '_audit')
from ref import *
from scipy.optimize import fmin
rng = np.random.default_rng(2)
n=400
x = np.round(sts.weibull_min.rvs(1.5, scale=2, size=n, random_state=rng),1)
for scale in (1, 10, 100):
  for ws,k in ((None,0),('linear',1),('quadratic',2),('cubic',3)):
    y = x*scale
    d = EW(); d.fit(y, method='lsq', weights=ws)
    ys = np.sort(y); w = ys**k; w = w/w.sum() if k else np.ones(n)
    p = (np.arange(1,n+1)-.5)/n
    res = fmin(EW._wlsq_error, 1, args=(ys,p,w), disp=False, full_output=True)
    print(scale, ws, 'delta', d.delta, 'alpha', d.alpha, 'beta', d.beta, 'fmin warnflag', res[4], 'iters', res[2], res[3])
    grid = [0.3,0.5,0.8,1,1.2,1.5,2,3,5,10,100,1e3,1e4, 6e4, 1e5,1e6]
    print('   ', [f'{g:g}:{EW._wlsq_error(g, ys,p,w):.5g}' for g in grid])
