import numpy as np, scipy.stats as sts, sys
sys.path.insert(0, '_audit')
from ref import *
from scipy.optimize import fmin
rng = np.random.default_rng(5)
fams = {
 'expon': lambda n: sts.expon.rvs(size=n, random_state=rng),
 'halfnorm': lambda n: sts.halfnorm.rvs(size=n, random_state=rng),
 'beta': lambda n: sts.beta.rvs(2,5,size=n, random_state=rng),
 'beta.5': lambda n: sts.beta.rvs(.5,.5,size=n, random_state=rng),
 'chi2': lambda n: sts.chi2.rvs(3,size=n, random_state=rng),
 'rayl': lambda n: sts.rayleigh.rvs(size=n, random_state=rng),
 'invgamma': lambda n: sts.invgamma.rvs(3,size=n, random_state=rng),
 'poisson': lambda n: sts.poisson.rvs(3,size=n, random_state=rng).astype(float),
 'mix': lambda n: np.where(rng.random(n)<.5, sts.norm.rvs(2,.2,size=n, random_state=rng), sts.norm.rvs(10,1,size=n, random_state=rng)),
 'weibR': lambda n: np.round(sts.weibull_min.rvs(0.8, scale=1, size=n, random_state=rng),1),
 'gumbel': lambda n: np.abs(sts.gumbel_r.rvs(5,1,size=n, random_state=rng)),
 'small': lambda n: 1e-6*sts.weibull_min.rvs(2, size=n, random_state=rng),
 'big': lambda n: 1e6*sts.weibull_min.rvs(2, size=n, random_state=rng),
 'ew': lambda n: sts.exponweib.rvs(5, 0.7, scale=.5, size=n, random_state=rng),
}
bad=0
for name, f in fams.items():
    for n in (30, 100, 1000, 5000):
      for rep in range(2):
        x = f(n)
        for ws in (None, 'linear', 'quadratic', 'cubic', 'arr'):
            if ws == 'arr':
                wa = rng.uniform(0.1, 5, n); wsorted = wa[np.lexsort((wa, x))]; warg = wa
            else:
                xs = np.sort(x)
                wsorted = {None: np.ones(n), 'linear': xs, 'quadratic': xs**2, 'cubic': xs**3}[ws]; warg = ws
            d = EW()
            d.fit(x, method='wlsq', weights=warg)
            a, b = ref_ab(np.sort(x), wsorted, d.delta)
            ra, rb = abs(d.alpha/a-1), abs(d.beta/b-1)
            xs = np.sort(x); p=(np.arange(1,n+1)-.5)/n
            res = fmin(EW._wlsq_error, 1, args=(xs,p,wsorted), disp=False, full_output=True)
            e0 = xerr(xs, wsorted, d.delta)
            msg=''
            for h in (1e-3*d.delta, 1e-2*d.delta, 0.1*d.delta):
                em = xerr(xs, wsorted, d.delta-h); ep = xerr(xs, wsorted, d.delta+h)
                if not (e0 <= em*(1+1e-7) and e0 <= ep*(1+1e-7)):
                    msg += f' NOTMIN h={h:.3g} e0={e0:.8g} em={em:.8g} ep={ep:.8g}'
            if ra > 1e-8 or rb > 1e-8 or msg or not np.isfinite(d.alpha) or res[4]:
                bad+=1
                print(name, n, ws, f'delta={d.delta:.6g} alpha={d.alpha:.6g} beta={d.beta:.6g} ra={ra:.1e} rb={rb:.1e} warn={res[4]}', msg)
print('done', bad)
