import numpy as np, scipy.stats as sts, sys
from virocon import ExponentiatedWeibullDistribution as EW
rng = np.random.default_rng(3)
n=1000
x = sts.weibull_min.rvs(1.5, scale=2, size=n, random_state=rng)
wa = rng.uniform(0.1,5,n)
for xs in (1, 1e6):
  for c in (1, 1e-300, 1e-305,1e-310, 1e-318, 1e-322, 1e290, 1e300, 1e305, 1e306):
    for fd in (1.0, None):
        d = EW(f_delta=fd); d.fit(x*xs, method='wlsq', weights=wa*c)
        print(xs, c, fd, d.alpha, d.beta, d.delta)
