import numpy as np, scipy.stats as sts, sys
sys.path.insert(0, '_audit')
from ref import *
rng = np.random.default_rng(0)
fams = {
 'weib': lambda n: sts.weibull_min.rvs(1.5, scale=2, size=n, random_state=rng),
 'logn': lambda n: sts.lognorm.rvs(0.8, size=n, random_state=rng),
 'logn2': lambda n: sts.lognorm.rvs(2.5, size=n, random_state=rng),
 'gamma': lambda n: sts.gamma.rvs(2, size=n, random_state=rng),
 'pareto': lambda n: sts.pareto.rvs(1.0, size=n, random_state=rng),
 'unif': lambda n: sts.uniform.rvs(1, 2, size=n, random_state=rng),
 'norm1e4': lambda n: 1e4 + sts.norm.rvs(size=n, random_state=rng),
 'rounded': lambda n: np.round(sts.weibull_min.rvs(1.5, scale=2, size=n, random_state=rng), 1),
 'expw': lambda n: sts.exponweib.rvs(0.3, 2.0, scale=3, size=n, random_state=rng),
}
for name, f in fams.items():
    for n in (30, 500, 5000):
        x = f(n)
        for ws in (None, 'linear', 'quadratic', 'cubic', 'arr'):
            if ws == 'arr':
                wa = rng.uniform(0.1, 5, n); wsorted = wa[np.lexsort((wa, x))]; warg = wa*37.5
            else:
                xs = np.sort(x)
                wsorted = {None: np.ones(n), 'linear': xs, 'quadratic': xs**2, 'cubic': xs**3}[ws]; warg = ws
            for fd in (0.5, 2.0, None):
                d = EW(f_delta=fd)
                d.fit(x, method='wlsq', weights=warg)
                a, b = ref_ab(np.sort(x), wsorted, d.delta)
                ra, rb = abs(d.alpha/a-1), abs(d.beta/b-1)
                msg = ''
                if fd is None:
                    e0 = xerr(np.sort(x), wsorted, d.delta)
                    h = 1e-3*max(d.delta, 1e-2)
                    em = xerr(np.sort(x), wsorted, d.delta-h); ep = xerr(np.sort(x), wsorted, d.delta+h)
                    if not (e0 <= em*(1+1e-9) and e0 <= ep*(1+1e-9)):
                        msg = f' NOT LOCAL MIN delta={d.delta:.5g} e0={e0:.6g} em={em:.6g} ep={ep:.6g}'
                if ra > 1e-8 or rb > 1e-8 or msg or not np.isfinite(d.alpha):
                    print(name, n, ws, fd, f'alpha={d.alpha:.6g} ref={a:.6g} beta={d.beta:.6g} ref={b:.6g} ra={ra:.2e} rb={rb:.2e}', msg)
print('done')
