import numpy as np, scipy.stats as sts, sys
sys.path.insert(0, '_audit')
from ref import *
rng = np.random.default_rng(7)
for n in (100,):
  for b in (0.5, 0.2, 0.1, 0.05):
    x = sts.pareto.rvs(b, size=n, random_state=rng); xs=np.sort(x)
    print(b, xs[-3:], np.sum(xs**2), np.sum(xs**3))
