"""C11: a proper subset of fixed parameters makes ScipyDistribution.fit crash.

ScipyDistribution subclass for scipy's ``loguniform`` (same for ``reciprocal``)
with the three parameters a, b, loc declared fixed and ``scale`` left free: this
is a proper subset of the four parameters, 'mle' is the supported method, yet
fit() raises ValueError("All parameters fixed. There is nothing to optimize.").
Exit status 0 iff fitting succeeds and the fixed values are kept.
"""
import sys
import warnings

import numpy as np
import scipy.stats as sts

warnings.filterwarnings("ignore")
from virocon.distributions import ScipyDistribution

status = 0
for name in ("loguniform", "reciprocal"):
    cls = type(name.capitalize(), (ScipyDistribution,), {"scipy_dist_name": name})
    data = getattr(sts, name).rvs(1.0, 10.0, loc=0.0, scale=1.5, size=300, random_state=5)

    fixed = {"a": 1.0, "b": 10.0, "loc": 0.0}
    dist = cls(**{f"f_{k}": v for k, v in fixed.items()})
    assert len(fixed) < len(dist.parameters)  # proper subset: scale is free
    for k, v in fixed.items():
        assert getattr(dist, k) == v

    try:
        dist.fit(data)  # method defaults to 'mle'
    except Exception as e:
        print(f"{name}: fit with f_a, f_b, f_loc fixed (scale free) raised "
              f"{type(e).__name__}: {e}")
        status = 1
        continue
    for k, v in fixed.items():
        if getattr(dist, k) != v:
            print(f"{name}: fixed {k} changed to {getattr(dist, k)}")
            status = 1
    if not np.isfinite(dist.scale):
        print(f"{name}: scale is not finite")
        status = 1

# every smaller subset works today, so the combination is what breaks
cls = type("LU", (ScipyDistribution,), {"scipy_dist_name": "loguniform"})
d = cls(f_a=1.0, f_b=10.0)
d.fit(sts.loguniform.rvs(1.0, 10.0, size=100, random_state=1))
assert (d.a, d.b) == (1.0, 10.0)

sys.exit(status)
