"""C07 / conditional_sample: n = 0 crashes with ValueError instead of giving an
empty sample (draw_sample(0) of the same model returns shape (0, n_dim))."""
import sys
import warnings

import numpy as np

from virocon import GlobalHierarchicalModel, WeibullDistribution

warnings.simplefilter("ignore")
model = GlobalHierarchicalModel(
    [
        {"distribution": WeibullDistribution(alpha=2.0, beta=1.5)},
        {"distribution": WeibullDistribution(alpha=2.0, beta=1.5)},
    ]
)
print("draw_sample(0).shape =", model.draw_sample(0, random_state=1).shape)
try:
    sample = model.conditional_sample(0, 0, [1.0], random_state=1)
except Exception as e:  # noqa
    print(f"FAIL: conditional_sample(0, ...) raised {type(e).__name__}: {e}")
    sys.exit(1)
if np.shape(sample) != (0,):
    print("FAIL: shape", np.shape(sample))
    sys.exit(1)
print("OK")
