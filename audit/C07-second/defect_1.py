"""C07 / conditional_sample: the rejection envelope f_max is read off a 1000-point grid.

A unimodal conditional density whose peak is narrower than the grid step
(x_max / 1000) gets an envelope below its true maximum, so the peak is clipped
and the sample does not follow the conditional distribution - although the
sampling window [1e-16, x_max] holds all but 1e-6 of the probability mass
(so this is not the known tail truncation).
"""
import sys
import warnings

import numpy as np
import scipy.stats as sts

from virocon import GlobalHierarchicalModel, LogNormalDistribution, WeibullDistribution

warnings.simplefilter("ignore")

# two independent variables: X0 | X1 = y is simply X0 ~ LogNormal(mu=-4, sigma=1.5)
x0 = LogNormalDistribution(mu=-4.0, sigma=1.5)
model = GlobalHierarchicalModel(
    [{"distribution": x0}, {"distribution": WeibullDistribution(alpha=2.0, beta=1.5)}]
)

n = 5000
sample = model.conditional_sample(n, 0, [1.0], random_state=1)

# the window used by conditional_sample ends at 100 * 0.7**k >= 16; nothing is lost there
print("model mass below 1e-16:", x0.cdf(1e-16), " above 16:", 1 - x0.cdf(16.0))

res = sts.kstest(sample, x0.cdf)
frac_sample = np.mean(sample < 0.024)
frac_model = x0.cdf(0.024)
print(f"sample size {len(sample)}, KS statistic {res.statistic:.4f}, p-value {res.pvalue:.3g}")
print(f"P(X0 < 0.024 | X1 = 1): sample {frac_sample:.4f}, model {frac_model:.4f}")

if res.pvalue < 1e-4:
    print("FAIL: conditional sample does not follow the conditional distribution")
    sys.exit(1)
print("OK")
