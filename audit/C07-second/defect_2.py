"""C07 / conditional_sample: more than the requested n values are returned (with a
false 'Max iterations was reached, sample size is only ...' warning) when the sample
is completed in one of the last two permitted iterations, e.g. max_iter=1 or 2."""
import sys
import warnings

from virocon import GlobalHierarchicalModel, WeibullDistribution

model = GlobalHierarchicalModel(
    [
        {"distribution": WeibullDistribution(alpha=2.0, beta=1.5)},
        {"distribution": WeibullDistribution(alpha=2.0, beta=1.5)},
    ]
)

n = 1000
bad = False
for max_iter in (1, 2, 3):
    with warnings.catch_warnings(record=True) as caught:
        warnings.simplefilter("always")
        sample = model.conditional_sample(n, 0, [1.0], random_state=1, max_iter=max_iter)
    msgs = [str(w.message)[:70] for w in caught]
    print(f"max_iter={max_iter}: requested {n}, got {len(sample)}; warnings: {msgs}")
    if len(sample) != n:
        bad = True

if bad:
    print("FAIL: requested sample size not honoured")
    sys.exit(1)
print("OK")
