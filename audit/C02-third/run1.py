import sys; sys.path.insert(0, "/tmp/w8_C02/_audit")
from harness import check
import models as M
import numpy as np
cases = []
for alpha in [1e-6, 1e-3, 0.05, 0.3]:
    cases += [
     ("seastate", M.seastate(), alpha, [(0,25),(0,25)], 0.25),
     ("seastate-aniso", M.seastate(), alpha, [(0,25),(0,30)], [0.5,0.1]),
     ("seastate-int", M.seastate(), alpha, [(0,25),(0,25)], 1),
     ("seastate-defd", M.seastate(), alpha, [(0,25),(0,25)], None),
     ("seastate-small", M.seastate(), alpha, [(0,6),(0,8)], [0.1,0.1]),
     ("indep2", M.indep2(), alpha, [(0,15),(0,15)], [0.1,0.2]),
     ("normal2", M.normal2(), alpha, [(-2,12),(-3,12)], [0.1,0.07]),
     ("normal2-rev", M.normal2(), alpha, [(12,-2),(12,-3)], [0.1,0.07]),
     ("expweib2", M.expweib2(), alpha, [(0,15),(0,30)], [0.1,0.1]),
     ("gengamma2", M.gengamma2(), alpha, [(0,40),(0,80)], [0.2,0.4]),
     ("vonmises2", M.vonmises2(), alpha, [(0,15),(-2,4)], [0.1,0.05]),
     ("three_chain", M.three_chain(), alpha, [(0,25),(0,25),(-5,20)], [0.5,0.5,0.5]),
     ("three_fan", M.three_fan(), alpha, [(0,25),(0,25),(0,50)], [0.5,0.5,1]),
     ("three_mixed", M.three_mixed(), alpha, [(0,15),(0,10),(-5,12)], [0.3,0.2,0.4]),
    ]
for name, m, a, l, d in cases:
    pr = check(m, a, l, d)
    print(name, a, "OK" if not pr else pr, flush=True)
