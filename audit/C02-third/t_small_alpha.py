import sys, time; sys.path.insert(0, "/tmp/w8_C02/_audit")
import models as M
from harness import check
t=time.time()
print(check(M.seastate(), 1e-6, None, None), time.time()-t)
