import sys; sys.path.insert(0, "/tmp/w8_C02/_audit")
from harness import check
import numpy as np, warnings
from virocon import (GlobalHierarchicalModel, get_DNVGL_Hs_Tz, get_DNVGL_Hs_U, get_OMAE2020_Hs_Tz, get_OMAE2020_V_Hs, read_ec_benchmark_dataset)
dA = read_ec_benchmark_dataset("datasets/ec-benchmark_dataset_A_1year.txt")
dD = read_ec_benchmark_dataset("datasets/ec-benchmark_dataset_D_1year.txt")
print(dA.columns.tolist(), dD.columns.tolist())
for getter, data in [(get_DNVGL_Hs_Tz, dA), (get_OMAE2020_Hs_Tz, dA), (get_OMAE2020_V_Hs, dD), (get_DNVGL_Hs_U, dD[dD.columns[::-1]])]:
    dd, fd, sem = getter()
    m = GlobalHierarchicalModel(dd)
    m.fit(data, fd)
    for alpha in [1e-3, 0.1]:
        for lim, de in [(None, None), (None, 0.2), ([(0, 40), (0, 40)], 1), ([(0,40),(0,40)], [0.25, 0.5])]:
            pr = check(m, alpha, lim, de)
            print(getter.__name__, alpha, lim, de, "OK" if not pr else pr, flush=True)
