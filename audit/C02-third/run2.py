import sys; sys.path.insert(0, "/tmp/w8_C02/_audit")
from harness import check
import models as M
import numpy as np, time
for alpha in [1e-4, 0.05, 0.3]:
    for name in ["seastate","indep2","normal2","expweib2","gengamma2","vonmises2"]:
        m = getattr(M, name)()
        t=time.time()
        pr = check(m, alpha, None, None)
        print(name, alpha, "OK" if not pr else pr, round(time.time()-t,1), flush=True)
        pr = check(m, alpha, None, [0.3, 0.2])
        print(name, alpha, "d given", "OK" if not pr else pr, flush=True)
for name in ["three_chain","three_fan","three_mixed"]:
    m = getattr(M, name)()
    pr = check(m, 0.01, None, [0.4,0.5,0.6])
    print(name, "OK" if not pr else pr, flush=True)
