import numpy as np
from virocon.distributions import LogNormalNormFitDistribution
from virocon import (GlobalHierarchicalModel, WeibullDistribution, LogNormalDistribution,
    NormalDistribution, ExponentiatedWeibullDistribution, GeneralizedGammaDistribution,
    VonMisesDistribution, DependenceFunction)

def _power3(x, a=0.1000, b=1.489, c=0.1901):
    return a + b * x**c
def _exp3(x, a=0.0400, b=0.1748, c=-0.2243):
    return a + b * np.exp(c * x)
def _lin(x, a=1.0, b=0.5):
    return a + b * x

def seastate():
    return GlobalHierarchicalModel([
        {"distribution": WeibullDistribution(alpha=2.776, beta=1.471, gamma=0.8888)},
        {"distribution": LogNormalDistribution(), "conditional_on": 0,
         "parameters": {"mu": DependenceFunction(_power3), "sigma": DependenceFunction(_exp3)}}])

def indep2():
    return GlobalHierarchicalModel([
        {"distribution": WeibullDistribution(alpha=2.0, beta=1.5, gamma=0.0)},
        {"distribution": LogNormalDistribution(mu=1.0, sigma=0.3)}])

def normal2():
    return GlobalHierarchicalModel([
        {"distribution": NormalDistribution(mu=5.0, sigma=1.0)},
        {"distribution": NormalDistribution(), "conditional_on": 0,
         "parameters": {"mu": DependenceFunction(_lin), "sigma": DependenceFunction(lambda x, a=0.5, b=0.05: a + b*np.abs(x))}}])

def expweib2():
    return GlobalHierarchicalModel([
        {"distribution": ExponentiatedWeibullDistribution(alpha=0.8, beta=1.2, delta=3.0)},
        {"distribution": WeibullDistribution(f_gamma=0.0), "conditional_on": 0,
         "parameters": {"alpha": DependenceFunction(lambda x, a=2.0, b=1.0: a + b*x), "beta": DependenceFunction(lambda x, a=2.0, b=0.1: a + b*x)}}])

def gengamma2():
    return GlobalHierarchicalModel([
        {"distribution": GeneralizedGammaDistribution(m=2.0, c=1.5, lambda_=0.5)},
        {"distribution": LogNormalNormFitDistribution(), "conditional_on": 0,
         "parameters": {"mu_norm": DependenceFunction(lambda x, a=5.0, b=0.8: a + b*x), "sigma_norm": DependenceFunction(lambda x, a=1.0, b=0.1: a + b*x)}}])

def vonmises2():
    return GlobalHierarchicalModel([
        {"distribution": WeibullDistribution(alpha=2.0, beta=1.5, gamma=0.0)},
        {"distribution": VonMisesDistribution(f_kappa=2.0), "conditional_on": 0,
         "parameters": {"mu": DependenceFunction(lambda x, a=1.0, b=0.1: a + b*x)}}])

def three_chain():
    return GlobalHierarchicalModel([
        {"distribution": WeibullDistribution(alpha=2.776, beta=1.471, gamma=0.8888)},
        {"distribution": LogNormalDistribution(), "conditional_on": 0,
         "parameters": {"mu": DependenceFunction(_power3), "sigma": DependenceFunction(_exp3)}},
        {"distribution": NormalDistribution(), "conditional_on": 1,
         "parameters": {"mu": DependenceFunction(_lin), "sigma": DependenceFunction(lambda x, a=0.8, b=0.02: a + b*x)}}])

def three_fan():
    return GlobalHierarchicalModel([
        {"distribution": WeibullDistribution(alpha=2.776, beta=1.471, gamma=0.8888)},
        {"distribution": LogNormalDistribution(), "conditional_on": 0,
         "parameters": {"mu": DependenceFunction(_power3), "sigma": DependenceFunction(_exp3)}},
        {"distribution": WeibullDistribution(f_gamma=0.0), "conditional_on": 0,
         "parameters": {"alpha": DependenceFunction(lambda x, a=2.0, b=1.0: a + b*x), "beta": DependenceFunction(lambda x, a=2.0, b=0.1: a + b*x)}}])

def three_mixed():
    return GlobalHierarchicalModel([
        {"distribution": WeibullDistribution(alpha=2.0, beta=1.5, gamma=0.0)},
        {"distribution": LogNormalDistribution(mu=1.0, sigma=0.3)},
        {"distribution": NormalDistribution(), "conditional_on": 1,
         "parameters": {"mu": DependenceFunction(_lin), "sigma": DependenceFunction(lambda x, a=0.8, b=0.02: a + b*x)}}])
