import numpy as np, runpy, sys
import virocon.contours as C
orig = C.HighestDensityContour.cell_averaged_pdf
def patched(self, dist_idx, coords):
    out = orig(self, dist_idx, coords)
    return np.nan_to_num(out, nan=0.0)
C.HighestDensityContour.cell_averaged_pdf = patched
runpy.run_path(sys.argv[1], run_name="__main__")
