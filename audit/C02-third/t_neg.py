import sys; sys.path.insert(0, "/tmp/w8_C02/_audit")
import numpy as np, warnings, models as M
from harness import check
from virocon import HighestDensityContour
for lim in [[(0, 20), (0, 20)], [(-0.5, 20), (0, 20)], [(-0.05, 20), (0,20)]]:
    print(lim, check(M.seastate(), 0.01, lim, 0.1))
