"""C02 defect 2: an integer-valued grid (limits and deltas given as Python ints) crashes.

np.arange(min_, max_ + delta, delta) keeps the integer dtype, so the conditioning value
handed to the conditional distribution is a 0-d numpy integer.  ConditionalDistribution.
_get_param_values converts 'given' to float only if np.ndim(given) > 0 (the recent fix
"integer conditioning values are converted to float" missed the scalar case, which is the one
HighestDensityContour uses).  A dependence function with a negative integer power
(sigma = a + b * x ** -1) then raises "Integers to negative integer powers are not allowed".
The very same grid given as floats works.

Exit status 0 only if the int grid gives the same contour as the float grid.
"""
import sys

import numpy as np

from virocon import (
    DependenceFunction,
    GlobalHierarchicalModel,
    HighestDensityContour,
    LogNormalDistribution,
    WeibullDistribution,
)


def _mu(x, a=1.0, b=0.2):
    return a + b * x


def _sigma(x, a=0.1, b=0.5):
    return a + b * x**-1


def get_model():
    return GlobalHierarchicalModel(
        [
            {"distribution": WeibullDistribution(alpha=2.776, beta=1.471, gamma=0.8888)},
            {
                "distribution": LogNormalDistribution(),
                "conditional_on": 0,
                "parameters": {
                    "mu": DependenceFunction(_mu),
                    "sigma": DependenceFunction(_sigma),
                },
            },
        ]
    )


alpha = 0.05
ref = HighestDensityContour(
    get_model(), alpha, limits=[(1.0, 31.0), (1.0, 41.0)], deltas=[1.0, 1.0]
)
print("float grid: fm =", ref.fm, "cells per axis", [len(c) for c in ref.cell_center_coordinates])

ok = True
for limits, deltas in [([(1, 31), (1, 41)], 1), ([(1, 31), (1, 41)], [1, 1])]:
    try:
        c = HighestDensityContour(get_model(), alpha, limits=limits, deltas=deltas)
    except Exception as e:  # noqa
        print(f"int grid limits={limits} deltas={deltas}: {type(e).__name__}: {e}")
        ok = False
        continue
    same = np.isclose(c.fm, ref.fm, rtol=1e-9) and all(
        np.array_equal(a, b)
        for a, b in zip(c.cell_center_coordinates, ref.cell_center_coordinates)
    )
    print(f"int grid limits={limits} deltas={deltas}: fm = {c.fm}, same as float grid: {same}")
    ok = ok and same

if not ok:
    print("DEFECT: integer grid does not give the highest-density contour of the same float grid")
    sys.exit(1)
print("ok")
