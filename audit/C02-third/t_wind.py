import numpy as np, warnings
from virocon import (GlobalHierarchicalModel, HighestDensityContour, get_Windmeier_EW_Hs_S, get_Nonzero_EW_Hs_S, read_ec_benchmark_dataset, variable_transform)
data = read_ec_benchmark_dataset("datasets/ec-benchmark_dataset_A_1year.txt")
hs = data.iloc[:,0].values; tz = data.iloc[:,1].values
for getter in [get_Windmeier_EW_Hs_S, get_Nonzero_EW_Hs_S]:
    dd, fd, sem, tr = getter()
    m = GlobalHierarchicalModel(dd)
    hs_s = tr["transform"](np.c_[hs, tz])
    m.fit(hs_s, fd)
    print(m)
    for lim in [None, [(0, 15), (0, 0.12)]]:
        try:
            with warnings.catch_warnings(record=True) as w:
                warnings.simplefilter("always")
                c = HighestDensityContour(m, 0.01, lim, None if lim is None else [0.1, 0.0005])
            print(getter.__name__, lim, "fm", c.fm, [str(x.message)[:40] for x in w if x.category is RuntimeWarning][:3])
        except Exception as e:
            print(getter.__name__, lim, "EXC", type(e).__name__, e)
