import numpy as np, runpy, sys
import virocon.distributions as D
orig = D.ConditionalDistribution._get_param_values
def patched(self, given):
    return orig(self, np.asarray(given, dtype=float) if np.ndim(given) > 0 else float(given))
D.ConditionalDistribution._get_param_values = patched
runpy.run_path(sys.argv[1], run_name="__main__")
