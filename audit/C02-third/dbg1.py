import sys; sys.path.insert(0, "/tmp/w8_C02/_audit")
from harness import ref_cell_prob
import models as M, numpy as np, warnings
from virocon import HighestDensityContour
m = M.three_chain(); alpha=0.05
c = HighestDensityContour(m, alpha, [(0,25),(0,25),(-5,20)], [0.5,0.5,0.5])
cc = c.cell_center_coordinates
lib = c.cell_averaged_joint_pdf(cc) * 0.125
ref = ref_cell_prob(m, cc, [0.5]*3)
print(lib.shape, ref.shape, np.abs(lib-ref).max(), lib.sum(), ref.sum())
for i in range(3):
    print(i, c.cell_averaged_pdf(i, cc).shape)
inside = ref/0.125 >= c.fm*(1-1e-9)
print(ref[inside].sum(), c.fm)
inside = lib/0.125 >= c.fm*(1-1e-9)
print(lib[inside].sum(), c.fm)
