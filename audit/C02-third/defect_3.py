"""C02 defect 3: grid rows that carry exactly zero probability abort the whole contour.

Sea state model of Vanem & Bitner-Gregersen (Hs ~ Weibull with location 0.8888,
Tz|Hs ~ lognormal with mu = a + b * hs ** c).  With a grid whose Hs axis starts slightly
below 0 (limits (-0.5, 20)) the rows hs < 0 have cell probability exactly 0 (F_Hs = 0 there),
but the conditional cdf is evaluated for them anyway, mu = a + b * (-0.5) ** 0.19 = nan, and
0 * nan = nan makes _compute raise ValueError("Encountered nan ...").  The grid captures
more than 1 - alpha, so the property promises the highest-density region (the same one as
for limits (0, 20)).

Exit status 0 only if a contour with the same threshold as for the (0, 20) grid is returned.
"""
import sys

import numpy as np

from virocon import (
    DependenceFunction,
    GlobalHierarchicalModel,
    HighestDensityContour,
    LogNormalDistribution,
    WeibullDistribution,
)


def _power3(x, a=0.1000, b=1.489, c=0.1901):
    return a + b * x**c


def _exp3(x, a=0.0400, b=0.1748, c=-0.2243):
    return a + b * np.exp(c * x)


def get_model():
    return GlobalHierarchicalModel(
        [
            {"distribution": WeibullDistribution(alpha=2.776, beta=1.471, gamma=0.8888)},
            {
                "distribution": LogNormalDistribution(),
                "conditional_on": 0,
                "parameters": {
                    "mu": DependenceFunction(_power3),
                    "sigma": DependenceFunction(_exp3),
                },
            },
        ]
    )


alpha = 0.01
ref = HighestDensityContour(get_model(), alpha, limits=[(0, 20), (0, 20)], deltas=0.5)
print("limits (0, 20):    fm =", ref.fm)

model = get_model()
hs = np.arange(-0.5, 20.5, 0.5)
p_hs = model.distributions[0].cdf(hs + 0.25) - model.distributions[0].cdf(hs - 0.25)
print("probability of the Hs cells centred at -0.5, 0, 0.5:", p_hs[:3])

try:
    c = HighestDensityContour(model, alpha, limits=[(-0.5, 20), (0, 20)], deltas=0.5)
except Exception as e:  # noqa
    print(f"limits (-0.5, 20): {type(e).__name__}: {e}")
    print("DEFECT: zero-probability rows abort the contour")
    sys.exit(1)

print("limits (-0.5, 20): fm =", c.fm)
if not np.isclose(c.fm, ref.fm, rtol=1e-9):
    print("DEFECT: threshold differs from the one of the (0, 20) grid")
    sys.exit(1)
print("ok")
