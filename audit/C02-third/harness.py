import warnings, itertools, sys
import numpy as np
from virocon.distributions import LogNormalNormFitDistribution
from virocon import (GlobalHierarchicalModel, WeibullDistribution, LogNormalDistribution,
    NormalDistribution, ExponentiatedWeibullDistribution, GeneralizedGammaDistribution,
    VonMisesDistribution, DependenceFunction, HighestDensityContour)

def ref_cell_prob(model, centers, deltas):
    n = len(centers)
    P = np.ones((1,)*n)
    for i in range(n):
        d = model.distributions[i]
        c = model.conditional_on[i]
        x = np.asarray(centers[i], dtype=float)
        dx = deltas[i]
        shape = [1]*n
        if c is None:
            p = d.cdf(x + dx/2) - d.cdf(x - dx/2)
            shape[i] = len(x)
        else:
            g = np.asarray(centers[c], dtype=float)
            p = np.empty((len(g), len(x)))
            for k, gv in enumerate(g):
                p[k] = d.cdf(x + dx/2, given=float(gv)) - d.cdf(x - dx/2, given=float(gv))
            shape[i] = len(x); shape[c] = len(g)
        P = P * p.reshape(shape)
    return P

def check(model, alpha, limits=None, deltas=None, label=""):
    with warnings.catch_warnings(record=True) as w:
        warnings.simplefilter("always")
        try:
            c = HighestDensityContour(model, alpha, limits, deltas)
        except Exception as e:
            return [f"EXC {type(e).__name__}: {e}"]
    rw = [x for x in w if issubclass(x.category, RuntimeWarning) and "1-alpha" in str(x.message)]
    centers = c.cell_center_coordinates
    dl = [float(ce[1]-ce[0]) for ce in centers]
    P = ref_cell_prob(model, centers, dl)
    vol = np.prod(dl)
    dens = P / vol
    fm = c.fm
    problems = []
    total = P.sum()
    if total < 1 - alpha:
        if not rw:
            problems.append(f"grid captures {total} < 1-alpha but no RuntimeWarning")
        return problems
    if rw:
        problems.append(f"warning although grid captures {total}")
        return problems
    tol = 1e-9
    strict = dens > fm * (1 + tol)
    tied = (~strict) & (dens >= fm * (1 - tol))
    T = int(tied.sum())
    if T == 0:
        problems.append(f"no cell has density fm={fm}")
        return problems
    pt = P[tied].mean()
    S = P[strict].sum()
    lower = P[(~strict) & (~tied)]
    nxt = lower.max() if lower.size else 0.0
    ok = False
    for k in range(1, T + 1):
        s_ = S + k * pt
        if s_ > 1 - alpha + 1e-12:
            break
        rem = 1 - alpha - s_
        dens_excl = pt if k < T else nxt
        if rem < dens_excl * (1 + 1e-9) + 1e-15:
            ok = True
            break
    if not ok:
        problems.append(f"no consistent prefix: S={S} T={T} pt={pt} nxt={nxt} 1-alpha={1-alpha}")
    # coordinates inside region & on boundary
    co = c.coordinates
    return problems

if __name__ == "__main__":
    pass
