"""C02 defect 1: HighestDensityContour on its own default grid (limits=None, lower limit 0)
crashes for the shipped Windmeier EW sea state model (Hs ~ exponentiated Weibull,
S|Hs ~ exponentiated Weibull with scale a*(1-exp(-b*hs))).

The default grid puts the first cell CENTRE of every variable at 0.  The conditional
distribution is evaluated at the cell centre of the conditioning variable, hs = 0,
where the shipped dependence function gives scale 0 -> the cdf is nan for that single row
-> _compute raises ValueError, although that row holds a probability of ~1e-5 << alpha and a
perfectly valid highest-density region of content 1 - alpha exists on this grid.

Exit status 0 only if a contour is returned that fulfils the property.
"""
import sys
import warnings

import numpy as np

from virocon import (
    GlobalHierarchicalModel,
    HighestDensityContour,
    get_Windmeier_EW_Hs_S,
)

# The shipped model structure; the coefficients are those obtained by fitting it to the
# shipped ec-benchmark dataset A (1 year), rounded.  They are set by hand to keep this
# program standalone and deterministic.
dist_descriptions, fit_descriptions, semantics, transformations = get_Windmeier_EW_Hs_S()
model = GlobalHierarchicalModel(dist_descriptions)
hs_dist = model.distributions[0]
hs_dist.alpha, hs_dist.beta, hs_dist.delta = 0.2475, 0.6851, 6.3543
s_dist = model.distributions[1]
s_dist.conditional_parameters["alpha"].parameters.update(a=0.05083, b=0.42177)
s_dist.conditional_parameters["beta"].parameters.update(a=0.95997, b=0.57502)

alpha = 0.01
failures = []
for limits, deltas in [(None, None), ([(0, 15), (0, 0.12)], [0.1, 0.0005])]:
    try:
        with warnings.catch_warnings(record=True) as caught:
            warnings.simplefilter("always")
            contour = HighestDensityContour(model, alpha, limits=limits, deltas=deltas)
    except Exception as e:  # noqa
        print(f"limits={limits}, deltas={deltas}: {type(e).__name__}: {e}")
        failures.append((limits, deltas))
        continue

    # The property on the returned contour.
    centers = contour.cell_center_coordinates
    dx = [c[1] - c[0] for c in centers]
    p0 = hs_dist.cdf(centers[0] + dx[0] / 2) - hs_dist.cdf(centers[0] - dx[0] / 2)
    p1 = np.array(
        [
            s_dist.cdf(centers[1] + dx[1] / 2, given=g)
            - s_dist.cdf(centers[1] - dx[1] / 2, given=g)
            for g in centers[0]
        ]
    )
    # a row whose conditional distribution is degenerate (nan) has an undefined split of
    # its (tiny) mass p0[row]; it is left out and its mass is granted as slack
    bad = np.isnan(p1).any(axis=1)
    slack = p0[bad].sum()
    prob = p0[:, None] * np.where(bad[:, None], 0.0, p1)
    dens = prob / np.prod(dx)
    inside = dens >= contour.fm * (1 - 1e-12)
    content = prob[inside].sum()
    print(f"limits={limits}: fm={contour.fm}, content={content}, slack={slack:.3g}")
    if not np.isfinite(contour.fm) or contour.fm <= 0 or content > 1 - alpha + 1e-12:
        failures.append((limits, deltas))
    elif 1 - alpha - content >= prob[~inside].max() * (1 + 1e-9) + slack:
        failures.append((limits, deltas))

# For reference: the same grid shifted by a hair works and shows how little mass the row has.
p_row = hs_dist.cdf(15 * 0.0025 / 2)
print(f"probability of the Hs cell centred at 0 (default-size cell of a 15 m range): {p_row:.3g}")

if failures:
    print("DEFECT: no highest-density contour for", failures)
    sys.exit(1)
print("ok")
