import sys; sys.path.insert(0, "/tmp/w8_C02/_audit")
from harness import check
import models as M
import numpy as np
rng = np.random.default_rng(int(sys.argv[1]) if len(sys.argv)>1 else 0)
spans = {"seastate": [(0,25),(0,25)], "indep2": [(0,15),(0,12)], "normal2": [(-2,12),(-4,14)], "expweib2": [(0,15),(0,30)],
  "gengamma2": [(0,40),(0,90)], "vonmises2": [(0,15),(-2.1,4.1)], "three_chain": [(0,25),(0,25),(-5,22)], "three_fan": [(0,25),(0,25),(0,60)], "three_mixed": [(0,15),(0,10),(-5,12)]}
names = list(spans)
for it in range(int(sys.argv[2]) if len(sys.argv)>2 else 60):
    name = names[rng.integers(len(names))]
    m = getattr(M, name)()
    nd = m.n_dim
    alpha = 10**rng.uniform(-6, np.log10(0.3))
    lim = []; d = []
    for k in range(nd):
        lo, hi = spans[name][k]
        w = hi - lo
        a = lo + w*rng.uniform(-0.0, 0.15) if rng.random()<0.5 else lo
        b = hi - w*rng.uniform(0, 0.5) if rng.random()<0.5 else hi
        ncell = int(rng.integers(10, 400 if nd==2 else 60))
        lim.append((a,b)); d.append((b-a)/ncell)
    mode = rng.integers(4)
    if mode == 0: dd = d
    elif mode == 1: dd = float(np.mean(d))
    elif mode == 2: dd = None if nd==2 else d
    else: dd = np.array(d)
    pr = check(m, alpha, lim, dd)
    if pr and not (pr[0].startswith("EXC IndexError")):
        print(name, alpha, lim, dd, pr, flush=True)
print("done")
