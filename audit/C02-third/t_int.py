import numpy as np, warnings
from virocon import GlobalHierarchicalModel, WeibullDistribution, LogNormalDistribution, DependenceFunction, HighestDensityContour
def _mu(x, a=1.0, b=0.2): return a + b * x
def _sig(x, a=0.1, b=0.5): return a + b * x ** -1
def model():
    return GlobalHierarchicalModel([
        {"distribution": WeibullDistribution(alpha=2.776, beta=1.471, gamma=0.8888)},
        {"distribution": LogNormalDistribution(), "conditional_on": 0,
         "parameters": {"mu": DependenceFunction(_mu), "sigma": DependenceFunction(_sig)}}])
for lim, d in [([(1.0, 31.0), (1.0, 41.0)], 1.0), ([(1, 31), (1, 41)], 1), ([(1, 31), (1, 41)], [1, 1])]:
    try:
        c = HighestDensityContour(model(), 0.05, lim, d)
        print(lim, d, "fm", c.fm, c.cell_center_coordinates[0].dtype)
    except Exception as e:
        print(lim, d, "EXC", type(e).__name__, e)
m = model()
print(m.distributions[1].cdf(np.array([3.0]), given=np.array([3])))
