import sys; sys.path.insert(0, "/tmp/w8_C02/_audit")
from harness import ref_cell_prob
import models as M, numpy as np, warnings
import scipy.ndimage as ndi
from virocon import HighestDensityContour
for name, lim, d in [("three_chain", [(0,25),(0,25),(-5,20)], [0.5,0.5,0.5]), ("three_fan",[(0,25),(0,25),(0,50)], [0.5,0.25,1]), ("three_mixed",[(0,15),(0,10),(-5,12)], [0.3,0.2,0.4])]:
  for alpha in [1e-5, 0.01, 0.2]:
    m = getattr(M, name)()
    c = HighestDensityContour(m, alpha, lim, d)
    cc = c.cell_center_coordinates
    dl = [x[1]-x[0] for x in cc]
    P = ref_cell_prob(m, cc, dl); dens = P/np.prod(dl)
    inside = dens >= c.fm*(1-1e-12)
    bnd = inside & ~ndi.binary_erosion(inside, structure=np.ones((3,3,3),bool))
    co = c.coordinates
    if isinstance(co, list):
        print(name, alpha, "multi part", len(co)); 
        pts = np.concatenate([np.array(p).T for p in co])
    else:
        pts = co
    idx = [np.rint((pts[:,k]-cc[k][0])/dl[k]).astype(int) for k in range(3)]
    got = np.zeros_like(inside); got[tuple(idx)] = True
    print(name, alpha, "boundary cells", bnd.sum(), "reported", got.sum(), "missing", (bnd&~got).sum(), "extra", (got&~bnd).sum(), "inside cells", inside.sum())
