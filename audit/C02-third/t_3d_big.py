import sys, time; sys.path.insert(0, "/tmp/w8_C02/_audit")
import models as M
from harness import check
for name, alpha in [("three_fan", 1e-6), ("three_chain", 1e-4)]:
    t=time.time()
    print(name, alpha, check(getattr(M, name)(), alpha, [(0,25),(0,25),(0,60)] if name=="three_fan" else [(0,25),(0,25),(-5,22)], None), time.time()-t, flush=True)
