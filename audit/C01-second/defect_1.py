"""C01: alpha given as a numpy.float32 inside [1e-8, 0.5] -> beta is inf / wrong, contour non-finite.

IFORMContour/ISORMContour compute the radius as ppf(1 - alpha).  Under NumPy 2
promotion rules `1 - np.float32(a)` stays float32, so the complement is rounded
to float32 *before* the quantile is taken: for alpha < 6e-8 it is exactly 1.0
(beta = inf, coordinates inf/nan), for alpha = 1e-6 beta is off by 5e-4.
Exits 0 only if beta equals the reliability index of the given alpha and all
contour points map back onto the beta-sphere.
"""
import sys
import warnings
import numpy as np
import scipy.stats as sts
from virocon import (GlobalHierarchicalModel, WeibullDistribution, LogNormalDistribution,
                     DependenceFunction, IFORMContour, ISORMContour)

warnings.simplefilter("ignore")


def _mu(x, a=0.7, b=0.3, c=0.5):
    return a + b * x**c


model = GlobalHierarchicalModel([
    {"distribution": WeibullDistribution(alpha=2.0, beta=1.5, gamma=0.0)},
    {"distribution": LogNormalDistribution(f_sigma=0.3), "conditional_on": 0,
     "parameters": {"mu": DependenceFunction(_mu)}},
])

failures = []
for alpha in (np.float32(2e-8), np.float32(1e-6), np.float32(1e-4)):
    assert 1e-8 <= float(alpha) <= 0.5
    for cls in (IFORMContour, ISORMContour):
        contour = cls(model, alpha, n_points=8)
        if cls is IFORMContour:
            beta = sts.norm.isf(float(alpha))
        else:
            beta = np.sqrt(sts.chi2.isf(float(alpha), 2))
        tag = f"{cls.__name__}(alpha=np.float32({float(alpha):.3g}))"
        if not np.isclose(contour.beta, beta, rtol=1e-7):
            failures.append(f"{tag}: beta={contour.beta!r}, expected {beta!r}")
        xy = contour.coordinates
        if not np.all(np.isfinite(xy)):
            failures.append(f"{tag}: non-finite coordinates, first point {xy[0]}")
            continue
        u0 = sts.norm.ppf(model.distributions[0].cdf(xy[:, 0]))
        u1 = sts.norm.ppf(model.distributions[1].cdf(xy[:, 1], given=xy[:, 0]))
        radius = np.hypot(u0, u1)
        if not np.allclose(radius, beta, rtol=1e-5):
            failures.append(f"{tag}: U-space radius {radius.min():.6f}..{radius.max():.6f}, expected {beta:.6f}")
        if cls is IFORMContour:
            q = model.distributions[0].icdf(1 - float(alpha))
            if not np.isclose(xy[:, 0].max(), q, rtol=1e-6):
                failures.append(f"{tag}: max x0 {xy[:, 0].max()!r} != marginal quantile {q!r}")

for f in failures:
    print("VIOLATION:", f)
if failures:
    sys.exit(1)
print("ok")
