"""C12 defect 2: LogNormalNormFitDistribution.fit(method="mle") is not a maximum
likelihood fit.  It sets mu_norm / sigma_norm to the sample mean / sample std
(method of moments in the *mean/std* parametrisation), so the log-likelihood of
the fitted distribution is lower than the log-likelihood under the start
parameters and under the generating parameters.

Exits non-zero on the unmodified library.
"""
import warnings
import numpy as np

warnings.filterwarnings("ignore")
from virocon.distributions import LogNormalNormFitDistribution


def loglik(dist, x, **p):
    return float(np.sum(np.log(dist.pdf(x, **p))))


gen = dict(mu_norm=2.0, sigma_norm=3.0)  # an ordinary lognormal: mu=0.104, sigma=1.086
problems = []
for seed in range(5):
    x = LogNormalNormFitDistribution(**gen).draw_sample(1000, random_state=seed)
    dist = LogNormalNormFitDistribution(**gen)  # start values == generating values
    ll_start = loglik(dist, x)
    dist.fit(x, method="mle")
    ll_fit = loglik(dist, x)
    # the true MLE of a lognormal, expressed in this parametrisation
    m, s = np.mean(np.log(x)), np.std(np.log(x))
    mle = dict(mu_norm=np.exp(m + s**2 / 2), sigma_norm=np.sqrt((np.exp(s**2) - 1) * np.exp(2 * m + s**2)))
    ll_mle = loglik(dist, x, **mle)
    print(
        f"seed {seed}: fitted {dist.parameters}  loglik start/generating={ll_start:.2f} "
        f"fitted={ll_fit:.2f}  true MLE={ll_mle:.2f}"
    )
    if not ll_fit >= ll_start - 1e-6 * abs(ll_start):
        problems.append(f"seed {seed}: loglik(fitted)={ll_fit:.2f} < loglik(start=generating)={ll_start:.2f}")

assert not problems, "\n".join(problems)
