"""C12 defect 3: GeneralizedGammaDistribution ML fit (default start m=c=lambda_=1)
on data whose magnitude is ~100 instead of ~1:
 (a) returns an inadmissible shape c < 0 (the documented density
     lambda^(cm) c x^(cm-1) exp(-(lambda x)^c) / Gamma(m) is negative for c < 0)
     with a log-likelihood far below that of the generating parameters;
 (b) is not scale-equivariant: fit(100*y) has different shapes than fit(y).

Exits non-zero on the unmodified library.
"""
import warnings
import numpy as np

warnings.filterwarnings("ignore")
from virocon.distributions import GeneralizedGammaDistribution as GG


def loglik(dist, x, **p):
    with np.errstate(all="ignore"):
        return float(np.sum(np.log(dist.pdf(x, **p))))


problems = []

# (a)
gen = dict(m=10.0, c=4.0, lambda_=0.01)
x = GG().draw_sample(1000, random_state=0, **gen)
fit = GG()
fit.fit(x)
ll_gen, ll_fit = loglik(fit, x, **gen), loglik(fit, x)
print("data mean", x.mean(), "fitted", fit.parameters)
print(f"loglik generating={ll_gen:.2f} fitted={ll_fit:.2f}")
if not all(np.isfinite(v) and v > 0 for v in fit.parameters.values()):
    problems.append(f"(a) inadmissible fitted parameters {fit.parameters}")
if not ll_fit >= ll_gen - 1e-6 * abs(ll_gen):
    problems.append(f"(a) loglik(fitted)={ll_fit:.2f} < loglik(generating)={ll_gen:.2f}")

# (b)
y = GG().draw_sample(1000, m=3.0, c=2.0, lambda_=1.0, random_state=0)
base = GG()
base.fit(y)
print("base fit", base.parameters)
for c in (0.01, 10.0, 100.0, 1000.0):
    f = GG()
    f.fit(c * y)
    got = np.array([f.m, f.c, f.lambda_ * c])
    exp = np.array([base.m, base.c, base.lambda_])
    rel = np.max(np.abs(got - exp) / np.abs(exp))
    gen_c = dict(m=3.0, c=2.0, lambda_=1.0 / c)
    print(f"c={c:g}: m={got[0]:.5g} c={got[1]:.5g} lambda_*c={got[2]:.5g} max rel dev={rel:.2e}  "
          f"loglik fitted={loglik(f, c*y):.2f} generating={loglik(f, c*y, **gen_c):.2f}")
    if not rel < 1e-2:
        problems.append(f"(b) c={c:g}: (m, c, lambda_*c)={got}, fit(y) gave {exp}")

assert not problems, "\n".join(problems)
