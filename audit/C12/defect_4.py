"""C12 defect 4: ScipyDistribution._fit_mle always passes its constructor
defaults (every shape = 1, loc = 0, scale = 1) to scipy as start values, which
replaces scipy's data-driven start (`_fitstart`).  For a generalized extreme
value distribution (scipy `genextreme`) the default start puts all data outside
the support (x < loc + scale/c = 1); the optimiser exhausts its budget on the
penalty plateau and the 'fit' silently returns scale ~ 4e-30 with
log-likelihood -inf, although scipy's own fit on the same data is fine.

Exits non-zero on the unmodified library.
"""
import warnings
import numpy as np
import scipy.stats as sts

warnings.filterwarnings("ignore")
from virocon.distributions import ScipyDistribution


class GEV(ScipyDistribution):
    scipy_dist_name = "genextreme"


def loglik(dist, x, *p):
    with np.errstate(all="ignore"):
        return float(np.sum(np.log(dist.pdf(x, *p))))


gen = (-0.2, 5.0, 1.0)  # c, loc, scale : a regular member (|c| < 0.5)
problems = []
for seed in (0, 1):
    x = GEV().draw_sample(1000, *gen, random_state=seed)
    fit = GEV()
    fit.fit(x)
    ll_gen, ll_fit = loglik(fit, x, *gen), loglik(fit, x)
    ref = sts.genextreme.fit(x)
    print(f"seed {seed}: fitted {fit.parameters}")
    print(f"   loglik generating={ll_gen:.2f} fitted={ll_fit}  (scipy.stats.genextreme.fit(x) -> {ref}, loglik {loglik(fit, x, *ref):.2f})")
    if not ll_fit >= ll_gen - 1e-6 * abs(ll_gen):
        problems.append(f"seed {seed}: loglik(fitted)={ll_fit} < loglik(generating)={ll_gen:.2f}; fitted={fit.parameters}")
    f10 = GEV()
    f10.fit(10 * x)
    got = np.array([f10.c, f10.loc / 10, f10.scale / 10])
    exp = np.array([fit.c, fit.loc, fit.scale])
    if not np.allclose(got, exp, rtol=1e-2):
        problems.append(f"seed {seed}: fit(10x) -> (c, loc/10, scale/10)={got} vs fit(x) -> {exp}")

assert not problems, "\n".join(problems)
