"""C12 defect 1: WeibullDistribution (3-parameter) ML fit from the default start
values ends in a spurious local optimum: the fitted log-likelihood is far below
the log-likelihood of the generating parameters, and the estimates are not
scale-equivariant (c = 5, 10, 0.01 give completely different shapes).

Exits non-zero on the unmodified library.
"""
import warnings
import numpy as np

warnings.filterwarnings("ignore")
from virocon.distributions import WeibullDistribution


def loglik(dist, x, **p):
    with np.errstate(all="ignore"):
        return float(np.sum(np.log(dist.pdf(x, **p))))


problems = []

# --- (a) likelihood is lost w.r.t. the generating (regular, beta > 2) member --
gen = dict(alpha=10.0, beta=3.0, gamma=20.0)
x = WeibullDistribution().draw_sample(1000, random_state=0, **gen)
fit = WeibullDistribution()  # default start alpha=1, beta=1, gamma=0
fit.fit(x)
ll_gen = loglik(fit, x, **gen)
ll_fit = loglik(fit, x)
print("fitted:", fit.parameters)
print(f"loglik generating = {ll_gen:.2f}   loglik fitted = {ll_fit:.2f}")
if not ll_fit >= ll_gen - 1e-6 * abs(ll_gen):
    problems.append(
        f"(a) loglik(fitted)={ll_fit:.2f} < loglik(generating)={ll_gen:.2f}"
    )

# --- (b) scale equivariance ---------------------------------------------------
y = WeibullDistribution().draw_sample(1000, alpha=1.0, beta=3.0, gamma=2.0, random_state=0)
base = WeibullDistribution()
base.fit(y)
print("base fit:", base.parameters)
for c in (0.01, 0.1, 2.0, 5.0, 10.0, 100.0):
    f = WeibullDistribution()
    f.fit(c * y)
    got = np.array([f.alpha / c, f.beta, f.gamma / c])
    exp = np.array([base.alpha, base.beta, base.gamma])
    rel = np.max(np.abs(got - exp) / np.abs(exp))
    print(f"c={c:g}: alpha/c={got[0]:.5g} beta={got[1]:.5g} gamma/c={got[2]:.5g}  max rel dev={rel:.2e}")
    if not rel < 1e-2:
        problems.append(f"(b) c={c:g}: (alpha/c, beta, gamma/c)={got} but fit(y) gave {exp}")

assert not problems, "\n".join(problems)
