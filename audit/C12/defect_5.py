"""C12 defect 5: ExponentiatedWeibullDistribution ML fit (default start
alpha=beta=delta=1).  scipy's Nelder-Mead runs out of its 200*n function
evaluation budget when the data magnitude is far from the start scale 1; scipy's
fit() discards the optimiser's warning flag and virocon does not check it, so a
non-converged point is returned silently:
 - estimates are not scale-equivariant (c = 1e4 changes beta/delta by 20-100 %),
 - the fitted log-likelihood is below that of the generating parameters.

Exits non-zero on the unmodified library.
"""
import warnings
import numpy as np

warnings.filterwarnings("ignore")
from virocon.distributions import ExponentiatedWeibullDistribution as EW


def loglik(dist, x, **p):
    with np.errstate(all="ignore"):
        return float(np.sum(np.log(dist.pdf(x, **p))))


problems = []
gen = dict(alpha=10.0, beta=2.42, delta=0.761)  # wind-speed like
for seed in (0, 1):
    x = EW().draw_sample(2000, random_state=seed, **gen)
    base = EW()
    base.fit(x)
    print(f"seed {seed}: base fit {base.parameters}")
    for c in (1e-3, 1e3, 1e4, 1e5):
        f = EW()
        f.fit(c * x)
        gen_c = dict(gen, alpha=gen["alpha"] * c)
        ll_gen, ll_fit = loglik(f, c * x, **gen_c), loglik(f, c * x)
        got = np.array([f.alpha / c, f.beta, f.delta])
        exp = np.array([base.alpha, base.beta, base.delta])
        rel = np.max(np.abs(got - exp) / np.abs(exp))
        print(f"   c={c:g}: alpha/c={got[0]:.5g} beta={got[1]:.5g} delta={got[2]:.5g} max rel dev={rel:.1e}; "
              f"loglik generating={ll_gen:.2f} fitted={ll_fit:.2f}")
        if not rel < 1e-2:
            problems.append(f"seed {seed} c={c:g}: not equivariant (alpha/c, beta, delta)={got} vs {exp}")
        if not ll_fit >= ll_gen - 1e-6 * abs(ll_gen):
            problems.append(f"seed {seed} c={c:g}: loglik(fitted)={ll_fit:.2f} < loglik(generating)={ll_gen:.2f}")

assert not problems, "\n".join(problems)
