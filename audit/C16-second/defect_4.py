"""C16 defect 4: variable_transform.s_d_to_hs_tz is not the inverse of hs_tz_to_s_d to
working precision on the positive quadrant.

hs = (sqrt(16 d^2 s^2 + factor^2) - factor) / (4 s) subtracts two nearly equal numbers
whenever d*s << factor (0.64): calm, long-period sea states such as hs = 1 mm .. 1 cm with
tz = 10 .. 100 s, or s, d near the lower end of the scope.  The round trip loses up to
10 of the 16 significant digits (relative error 1e-7 .. 7e-6 instead of 1e-16); the other
two shipped pairs (hs_s, s_tz) round-trip to 3e-16.
"""
import sys
import numpy as np
from virocon import variable_transform as vt

rng = np.random.default_rng(1)
n = 200_000
a = 10 ** rng.uniform(-3, 2, size=n)
b = 10 ** rng.uniform(-3, 2, size=n)


def rel(x, y):
    return float(np.max(np.abs(x - y) / np.abs(y)))


worst = {}
# inverse(transform(hs, tz)) == (hs, tz)
for name, f, g in [
    ("s_d", vt.hs_tz_to_s_d, vt.s_d_to_hs_tz),
    ("hs_s", vt.hs_tz_to_hs_s, vt.hs_s_to_hs_tz),
    ("s_tz", vt.hs_tz_to_s_tz, vt.s_tz_to_hs_tz),
]:
    u, v = f(a, b)
    a2, b2 = g(u, v)
    worst[name + ": inverse(transform(hs,tz))"] = max(rel(a2, a), rel(b2, b))
    u, v = g(a, b)
    a2, b2 = f(u, v)
    worst[name + ": transform(inverse(u,v))"] = max(rel(a2, a), rel(b2, b))

for k, v in worst.items():
    print(f"{k:40s} max relative error {v:.2e}")

hs, tz = 1e-3, 1e2
s, d = vt.hs_tz_to_s_d(hs, tz)
print("example: (hs, tz) =", (hs, tz), "->", (s, d), "->", vt.s_d_to_hs_tz(s, d))

tol = 1e-12  # 4500 ulp: far more than ordinary round-off of these few operations
if max(worst.values()) > tol:
    print("DEFECT: s_d_to_hs_tz(hs_tz_to_s_d(x)) != x beyond round-off (catastrophic cancellation).")
    sys.exit(1)
print("ok")
