"""C16 defect 3: TransformedModel.empirical_cdf keeps using the cached 1e6 sample of the
OLD model after the base model has been re-fitted.

The earlier repair only clears the cache in TransformedModel.fit().  The documented way
of working (examples/hstz_contour_all_models.py, tests/test_predefined.py) is however to
fit the *base* GlobalHierarchicalModel in Hs-steepness space and to wrap it in a
TransformedModel.  Re-fitting that base model (model.fit(new_data)) changes
t_model.pdf / cdf / draw_sample immediately, but t_model.empirical_cdf still answers
from the sample drawn before the re-fit, so cdf and empirical cdf of the very same
object disagree far beyond Monte-Carlo error.
"""
import sys
import warnings
import numpy as np
from virocon import GlobalHierarchicalModel, TransformedModel, get_Nonzero_EW_Hs_S

warnings.simplefilter("ignore")


def set_params(model, hs_par, alpha_par, beta_par):
    d0, d1 = model.distributions
    d0.alpha, d0.beta, d0.delta = hs_par
    d1.conditional_parameters["alpha"].parameters = dict(zip("ab", alpha_par))
    d1.conditional_parameters["beta"].parameters = dict(zip("ab", beta_par))


dd, fit_descriptions, sem, tr = get_Nonzero_EW_Hs_S()
model = GlobalHierarchicalModel(dd)
# parameters of the fit to ec-benchmark dataset C
set_params(model, (0.3558266426790537, 0.7722215906528377, 5.372851562500009),
           (0.03969066798489745, 0.7002946894910628), (1.3850625877279985, 0.8558017190459911))
t_model = TransformedModel(model, tr["transform"], tr["inverse"], tr["jacobian"])

x = np.array([[2.0, 6.0]])  # hs = 2 m, tz = 6 s
e_before = t_model.empirical_cdf(x)[0]
c_before = t_model.cdf(x)[0]

# new data (in Hs-steepness space) from a rougher sea: a model of the same structure
dd2, _, _, _ = get_Nonzero_EW_Hs_S()
other = GlobalHierarchicalModel(dd2)
set_params(other, (0.8, 1.0, 3.0), (0.05, 0.5), (1.5, 0.6))
new_data = other.draw_sample(50_000, random_state=0)

model.fit(new_data, fit_descriptions)  # re-fit of the base model

e_after = t_model.empirical_cdf(x)[0]
c_after = t_model.cdf(x)[0]
fresh = t_model.draw_sample(1_000_000, random_state=1)
e_fresh = t_model.empirical_cdf(x, sample=fresh)[0]

print(f"before re-fit: cdf = {c_before:.5f}  empirical_cdf = {e_before:.5f}")
print(f"after  re-fit: cdf = {c_after:.5f}  empirical_cdf = {e_after:.5f}  "
      f"(empirical cdf of a fresh sample: {e_fresh:.5f})")

eps = np.sqrt(np.log(2 / 1e-12) / (2 * 1_000_000))  # DKW at error probability 1e-12
ok = abs(c_before - e_before) <= eps + 1e-4 and abs(c_after - e_after) <= eps + 1e-4
if not ok:
    print("DEFECT: empirical_cdf is computed from the sample of the model as it was "
          "before the base model was re-fitted.")
    sys.exit(1)
print("ok")
