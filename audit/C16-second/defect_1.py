"""C16 defect 1: MultivariateModel.conditional_cdf divides by the requested sample
size n=100000 instead of by the number of values conditional_sample actually returned.

When the rejection sampler runs out of iterations (MaxIterationWarning) it returns
fewer than n values; conditional_cdf then reports (sample <= x).sum() / 100000, so the
"cdf" never reaches 1: here it is 0.917 at tz = 100 s although every sampled value is
below 0.05 s (and every value of the true conditional is below 100 s as well).

Model: the predefined non-zero EW Hs-steepness model with the parameters obtained by
fitting it to datasets/ec-benchmark_dataset_B_1year.txt (hard coded so that the script
is standalone), transformed to Hs-Tz.  Conditioning value hs = 0.012 m.  Second case: a random model of the same structure,
conditioned on its median Hs.
"""
import sys
import warnings
import numpy as np
from virocon import GlobalHierarchicalModel, TransformedModel, get_Nonzero_EW_Hs_S

warnings.simplefilter("ignore")


def build(hs_par, alpha_par, beta_par):
    dd, fd, sem, tr = get_Nonzero_EW_Hs_S()
    model = GlobalHierarchicalModel(dd)
    d0, d1 = model.distributions
    d0.alpha, d0.beta, d0.delta = hs_par
    d1.conditional_parameters["alpha"].parameters = dict(zip("ab", alpha_par))
    d1.conditional_parameters["beta"].parameters = dict(zip("ab", beta_par))
    return model, TransformedModel(model, tr["transform"], tr["inverse"], tr["jacobian"])


cases = [
    # (description, Hs parameters, scale dependence (a, b), shape dependence (a, b), hs)
    ("non-zero EW model fitted to dataset B, hs = 0.012 m (very calm sea)",
     (0.22024952103147752, 0.687483178911925, 11.750683593750024),
     (0.05117215321434412, 0.2731323346505572),
     (0.8687812223103109, 0.7609580175459807),
     0.012),
    ("random model of the same structure with a narrow conditional, hs = its median",
     (2.498105064649664, 1.548079845064384, 2.0194530486830846),
     (0.04609685313350852, 1.9535351478666596),
     (2.7953552162170974, 12.899640111019913),
     None),
]

seed = 1
eps = np.sqrt(np.log(2 / 1e-12) / (2 * 100_000))  # DKW, error probability 1e-12
x = np.array([100.0])  # upper end of the scope for tz: all conditional mass lies below
bad = False
for descr, hs_par, alpha_par, beta_par, hs in cases:
    model, t_model = build(hs_par, alpha_par, beta_par)
    if hs is None:
        hs = float(model.distributions[0].icdf(0.5))
    p = t_model.conditional_cdf(x, 1, np.array([[hs]]), random_state=seed)[0]
    # what the same call sampled (same seed -> same sample)
    sample = t_model.conditional_sample(100_000, 1, np.array([hs]), random_state=seed)
    frac = (sample <= x[0]).mean()
    print(descr)
    print(f"  conditional_cdf(tz=100 | hs={hs:.4g}) = {p}")
    print(f"  size of the underlying sample = {len(sample)}, max = {sample.max():.4g}, "
          f"fraction of it <= 100: {frac}")
    if not (abs(p - 1.0) <= eps and abs(p - frac) <= 1e-12):
        bad = True

if bad:
    print("DEFECT: the conditional cdf at the upper end of the support is not 1 "
          "(count divided by n=100000 instead of by len(sample)).")
    sys.exit(1)
print("ok")
