"""C16 defect 2: conditional_icdf / conditional_cdf swallow CouldNotSampleError and
return a fabricated 0.

Model: Windmeier's EW Hs-steepness model with the parameters obtained by fitting it to
datasets/ec-benchmark_dataset_C_1year.txt (hard coded), transformed to Hs-Tz.
Conditioning value: hs = 11.53 m, the 50-year significant wave height of that model
(alpha = 1/(50*365.25*24)), i.e. exactly the conditioning value an IFORM contour for a
50-year return period needs.

The conditional distribution of Tz given this Hs is perfectly regular
(median 13.0 s, 1e-6 .. 1-1e-6 quantiles 11.7 s .. 17.1 s).  conditional_sample fails to
find it, raises CouldNotSampleError, and conditional_icdf turns that into the
"median" 0.0 s; conditional_cdf turns it into probability 0.0 even at tz = 100 s.
"""
import sys
import warnings
import numpy as np
from virocon import GlobalHierarchicalModel, TransformedModel, get_Windmeier_EW_Hs_S
from virocon import variable_transform as vt

warnings.simplefilter("ignore")

dd, fd, sem, tr = get_Windmeier_EW_Hs_S()
model = GlobalHierarchicalModel(dd)
d0, d1 = model.distributions
d0.alpha, d0.beta, d0.delta = 0.3558266426790537, 0.7722215906528377, 5.372851562500009
d1.conditional_parameters["alpha"].parameters = {"a": 0.0424514373112269, "b": 0.9882603667617216}
d1.conditional_parameters["beta"].parameters = {"a": 1.3850625877279985, "b": 0.8558017190459911}
t_model = TransformedModel(model, tr["transform"], tr["inverse"], tr["jacobian"], random_state=1)

alpha = 1 / (50 * 365.25 * 24)
hs = float(d0.icdf(1 - alpha))
given = np.array([[hs]])


def exact_cdf_tz(tz):
    # P(Tz <= tz | hs) = P(S >= factor*hs/tz**2 | hs)
    return 1 - d1.cdf(vt.factor * hs / tz**2, given=hs)


exact_median = np.sqrt(vt.factor * hs / d1.icdf(0.5, given=hs))

bad = False
try:
    q = t_model.conditional_icdf(np.array([0.5]), 1, given, random_state=1)[0]
    print(f"hs = {hs:.3f}: conditional_icdf(0.5) = {q}   (exact median {exact_median:.3f})")
    eps = np.sqrt(np.log(2 / 1e-12) / (2 * 100_000))
    if not (q > 0 and abs(exact_cdf_tz(q) - 0.5) <= eps):
        bad = True
except Exception as e:  # an exception would at least not be a silent wrong number
    print("conditional_icdf raised", type(e).__name__, e)

# (conditional_cdf(np.array([100.]), 1, given) returns 0.0 in the same way: its
# 'except CouldNotSampleError: p[i] = 0'; left out here only to keep the run time short.)

if bad:
    print("DEFECT: a failed Monte-Carlo sample is reported as quantile 0 / probability 0.")
    sys.exit(1)
print("ok")
