"""C05 defect 3: ExponentiatedWeibullDistribution.pdf crashes on list / tuple input while
cdf and icdf of the same object (and pdf of every other family) accept it.

Exits non-zero (TypeError) on the unmodified library.
"""
import numpy as np
from virocon.distributions import (
    ExponentiatedWeibullDistribution,
    WeibullDistribution,
    LogNormalDistribution,
    NormalDistribution,
    GeneralizedGammaDistribution,
    VonMisesDistribution,
)

x = [0.5, 1.0, 2.0]
# pdf of every other family takes an array_like
for d in [WeibullDistribution(2, 1.5, 0), LogNormalDistribution(0, 1), NormalDistribution(0, 1),
          GeneralizedGammaDistribution(2, 1.5, 1), VonMisesDistribution(1, 0)]:
    assert np.array_equal(d.pdf(x), d.pdf(np.array(x)))

dist = ExponentiatedWeibullDistribution(alpha=2, beta=1.5, delta=0.8)
assert np.array_equal(dist.cdf(x), dist.cdf(np.array(x)))  # fine
assert np.array_equal(dist.icdf([0.5, 0.9]), dist.icdf(np.array([0.5, 0.9])))  # fine

expected = dist.pdf(np.array(x))
got = dist.pdf(x)  # TypeError: '>' not supported between instances of 'list' and 'int'
assert np.array_equal(got, expected)
got = dist.pdf(tuple(x))
assert np.array_equal(got, expected)
print("ok")
