"""C05 defect 2: LogNormalNormFitDistribution refuses a single explicitly passed parameter.

"Passing parameter values explicitly to a call gives exactly the result of an instance
constructed with those values, for every parameter and every method."
Exits non-zero (RuntimeError) on the unmodified library.
"""
import numpy as np
from virocon.distributions import LogNormalNormFitDistribution

base = LogNormalNormFitDistribution(mu_norm=2, sigma_norm=1)
x = np.array([0.5, 1.0, 2.0, 4.0])
p = np.array([0.1, 0.5, 0.9])

failures = []
for par, val, ref in [
    ("mu_norm", 3, LogNormalNormFitDistribution(mu_norm=3, sigma_norm=1)),
    ("sigma_norm", 0.5, LogNormalNormFitDistribution(mu_norm=2, sigma_norm=0.5)),
]:
    for meth, arg in [("cdf", x), ("pdf", x), ("icdf", p)]:
        expected = getattr(ref, meth)(arg)
        try:
            got = getattr(base, meth)(arg, **{par: val})
        except Exception as e:  # noqa
            failures.append(f"{meth}(..., {par}={val}) raised {type(e).__name__}: {e}")
            continue
        if not np.array_equal(got, expected):
            failures.append(f"{meth}(..., {par}={val}) = {got} != {expected}")

# every other family accepts a single explicit parameter:
from virocon.distributions import LogNormalDistribution
assert np.array_equal(LogNormalDistribution(2, 1).cdf(x, mu=3), LogNormalDistribution(3, 1).cdf(x))

for f in failures:
    print(f)
assert not failures, f"{len(failures)} of 6 single-parameter calls failed"
print("ok")
