"""C05 defect 1: VonMisesDistribution.cdf is not a cdf (leaves [0, 1]) and icdf does not
invert it for angles outside the window [mu - pi, mu + pi] -- including the angles the
distribution's own draw_sample() returns.

Exits non-zero on the unmodified library.
"""
import numpy as np
from virocon.distributions import VonMisesDistribution

TWO_PI = 2 * np.pi
dist = VonMisesDistribution(kappa=2, mu=3)  # mean direction 3 rad (~172 deg)

# 1. A plain deterministic point: the direction -3 rad (= 3.283 rad), 0.283 rad from the mean.
x0 = -3.0
c0 = dist.cdf(x0)
print("cdf(-3.0) =", c0)

# 2. The points the distribution generates itself.
sample = dist.draw_sample(1000, random_state=0)
c = dist.cdf(sample)
frac_bad = np.mean((c < 0) | (c > 1))
print("sample range:", sample.min(), sample.max())
print("cdf(sample) range:", c.min(), c.max(), " fraction outside [0,1]:", frac_bad)
back = dist.icdf(c)
print("fraction of NaN in icdf(cdf(sample)):", np.mean(np.isnan(back)))

# 3. Directions in [0, 2 pi) (the usual convention for directional data)
x1 = 6.2
c1 = dist.cdf(x1)
print("cdf(6.2) =", c1)

assert 0 <= c0 <= 1, f"cdf(-3.0) = {c0} is not a probability"
assert 0 <= c1 <= 1, f"cdf(6.2) = {c1} is not a probability"
assert frac_bad == 0, f"{frac_bad:.1%} of the distribution's own sample has a cdf outside [0, 1]"
# icdf(cdf(x)) must give back the same direction (equal modulo 2 pi)
diff = np.mod(back - sample + np.pi, TWO_PI) - np.pi
assert np.all(np.isfinite(back)) and np.max(np.abs(diff)) < 1e-6, "icdf(cdf(x)) != x (mod 2 pi)"
print("ok")
