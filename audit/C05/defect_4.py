"""C05 defect 4: the formula documented for GeneralizedGammaDistribution is not the one
that is implemented (and is not a probability density at all).

The class docstring documents
    f(x) = lambda^(c m) c x^(c m - 1) exp[-(lambda x^c)] / Gamma(m)
the code (and the user guide, and Ochi 1992) use exp[-(lambda x)^c].

The script reads the formula out of the docstring, so it exits 0 as soon as documentation
and implementation agree. Exits non-zero on the unmodified library.
"""
import numpy as np
from scipy.special import gamma as Gamma
from scipy.integrate import quad
from virocon.distributions import GeneralizedGammaDistribution

doc = GeneralizedGammaDistribution.__doc__
m, c, lam = 1.6, 2.0, 1.37
x = np.array([0.3, 1.0, 2.5])

if "\\lambdax^{c}" in doc.replace(" ", ""):
    print("docstring documents exp[-(lambda * x^c)]")
    def documented(x):
        return lam ** (c * m) * c * x ** (c * m - 1) * np.exp(-(lam * x**c)) / Gamma(m)
else:
    print("docstring documents exp[-(lambda * x)^c]")
    def documented(x):
        return lam ** (c * m) * c * x ** (c * m - 1) * np.exp(-((lam * x) ** c)) / Gamma(m)

dist = GeneralizedGammaDistribution(m=m, c=c, lambda_=lam)
print("pdf        :", dist.pdf(x))
print("documented :", documented(x))
print("integral of the documented formula over (0, inf):", quad(documented, 0, np.inf)[0])
assert np.allclose(dist.pdf(x), documented(x), rtol=1e-9), "pdf differs from the documented formula"
print("ok")
