"""C05 defect 5: in a ScipyDistribution subclass a parameter passed as keyword None is
forwarded to scipy as None (TypeError), while the same None passed positionally - and a
keyword None in every other shipped family - means "use the stored value".

Exits non-zero (TypeError) on the unmodified library.
"""
import numpy as np
from virocon.distributions import ScipyDistribution, NormalDistribution, WeibullDistribution


class MyNormal(ScipyDistribution):
    scipy_dist_name = "norm"


x = np.array([-1.0, 0.0, 2.0])
ref = NormalDistribution(mu=1, sigma=2)
# keyword None = stored value in the hand-written families
assert np.array_equal(ref.cdf(x, mu=None, sigma=None), ref.cdf(x))
assert np.array_equal(WeibullDistribution(2, 1.5, 0).pdf(x, gamma=None), WeibullDistribution(2, 1.5, 0).pdf(x))

d = MyNormal(loc=1, scale=2)
assert np.array_equal(d.cdf(x), ref.cdf(x))
assert np.array_equal(d.cdf(x, None, None), ref.cdf(x))  # positional None = stored value
assert np.array_equal(d.cdf(x, None, scale=3), NormalDistribution(1, 3).cdf(x))

for meth, arg in [("cdf", x), ("pdf", x), ("icdf", np.array([0.1, 0.5]))]:
    got = getattr(d, meth)(arg, loc=None)  # TypeError: unsupported operand type(s) for -: 'float' and 'NoneType'
    assert np.array_equal(got, getattr(d, meth)(arg))
    got = getattr(d, meth)(arg, loc=None, scale=3)
    assert np.array_equal(got, getattr(MyNormal(1, 3), meth)(arg))
print("ok")
