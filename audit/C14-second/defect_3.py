"""C14 defect 3: a dependence function that is declared AFTER the dependence function it
uses as a parameter has been fitted is never fitted: fit() stores the data, returns
silently and leaves the start values."""
import sys
import numpy as np
from virocon import DependenceFunction


def f_cond(x, a, b):
    return a + b * x


def f_dep(x, a, b, c_of_x):
    return a + b * np.sqrt(x) + 0.1 * c_of_x(x)


rng = np.random.default_rng(1)
x = np.linspace(0.5, 10, 15)
y_cond = 1 + 0.5 * x + rng.normal(0, 0.05, x.size)
y_dep = 4 + 0.3 * np.sqrt(x) + 0.1 * (1 + 0.5 * x) + rng.normal(0, 0.05, x.size)
bounds = [(0, 10), (0, 1)]

# reference: both declared first, conditioner fitted, then the dependent
c0 = DependenceFunction(f_cond)
d0 = DependenceFunction(f_dep, bounds=bounds, c_of_x=c0)
c0.fit(x, y_cond)
d0.fit(x, y_dep)
ref = np.array(list(d0.parameters.values()), dtype=float)

# same fits, but the dependent is declared after its conditioner has been fitted
c1 = DependenceFunction(f_cond)
c1.fit(x, y_cond)
d1 = DependenceFunction(f_dep, bounds=bounds, c_of_x=c1)
d1.fit(x, y_dep)
got = np.array(list(d1.parameters.values()), dtype=float)

print("declared before the conditioner was fitted:", ref)
print("declared after the conditioner was fitted :", got)
ok = np.allclose(ref, got, rtol=1e-5)
print("OK" if ok else "DEFECT: the dependent was not fitted")
sys.exit(0 if ok else 1)
