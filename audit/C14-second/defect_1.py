"""C14 defect 1: a constrained (SLSQP) dependence-function fit stops far from the
least-squares optimum when the fitted values are small (typical for sigma / shape
parameters), because scipy's SLSQP default ftol=1e-6 is an ABSOLUTE tolerance on the
un-normalised sum of squares.  The returned parameters are not locally optimal: a
small admissible perturbation lowers the squared residual considerably, and the
unconstrained fit of the same function (admissible as well, the constraint being
inactive) has a 100 times smaller residual."""
import sys
import numpy as np
from virocon import DependenceFunction


def asymdecrease3(x, a, b, c):  # the sigma dependence of the OMAE2020 Hs-Tz model
    return a + b / (1 + c * x)


rng = np.random.default_rng(0)
x = np.linspace(0.5, 10, 12)
y = asymdecrease3(x, 0.05, 0.3, 0.4) + rng.normal(0, 0.003, x.size)

bounds = [(0, None), (0, None), (0, None)]
constraint = {"type": "ineq", "fun": lambda p: 10 - p[0]}  # a <= 10, inactive

dep = DependenceFunction(asymdecrease3, bounds=bounds, constraints=constraint)
dep.fit(x, y)
p = np.array(list(dep.parameters.values()), dtype=float)


def sse(q):
    return float(np.sum((asymdecrease3(x, *q) - y) ** 2))


def admissible(q):
    return bool(np.all(q >= 0) and constraint["fun"](q) >= 0)


s = sse(p)
print("constrained fit:", p, "sse =", s)

# reference: same function, same bounds, no constraint (curve_fit path)
ref = DependenceFunction(asymdecrease3, bounds=bounds)
ref.fit(x, y)
pr = np.array(list(ref.parameters.values()), dtype=float)
print("unconstrained fit:", pr, "sse =", sse(pr), "admissible:", admissible(pr))

# nearby admissible perturbations: 1 % of each coordinate, one at a time
best_gain = 0.0
for i in range(p.size):
    for h in (0.01, -0.01):
        q = p.copy()
        q[i] *= 1 + h
        if admissible(q):
            best_gain = max(best_gain, (s - sse(q)) / s)
# and a step of 2 % of the way towards the (admissible) unconstrained optimum
q = p + 0.02 * (pr - p)
if admissible(q):
    best_gain = max(best_gain, (s - sse(q)) / s)
print("largest relative decrease of the sse by a small admissible perturbation:", best_gain)

ok = admissible(p) and best_gain < 1e-3 and s <= 1.01 * sse(pr)
print("OK" if ok else "DEFECT: the constrained fit is not (locally) optimal")
sys.exit(0 if ok else 1)
