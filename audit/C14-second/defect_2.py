"""C14 defect 2: a dependence function whose declared bounds do not contain the start
value (1 for every parameter without a default) cannot be fitted on the curve_fit
path: scipy raises ValueError('`x0` is infeasible') instead of the fit returning
parameters inside the bounds.  (The SLSQP path, taken when constraints are declared,
copes with the very same bounds.)"""
import sys
import numpy as np
from virocon import DependenceFunction


def linear(x, a, b):
    return a + b * x


rng = np.random.default_rng(0)
x = np.linspace(0.5, 10, 12)
y = 5 - 0.3 * x + rng.normal(0, 0.05, x.size)
A = np.vstack([np.ones_like(x), x]).T
sol = np.linalg.lstsq(A, y, rcond=None)[0]  # a ~ 5.02, b ~ -0.30: inside the bounds below

failed = False
for bounds in ([(None, None), (None, 0)], [(2, None), (None, None)]):
    dep = DependenceFunction(linear, bounds=bounds)
    try:
        dep.fit(x, y)
    except Exception as e:  # noqa
        print(bounds, "->", type(e).__name__, e)
        failed = True
        continue
    p = np.array(list(dep.parameters.values()), dtype=float)
    print(bounds, "->", p)
    if not np.allclose(p, sol, rtol=1e-5, atol=1e-7):
        failed = True

print("DEFECT" if failed else "OK")
sys.exit(1 if failed else 0)
