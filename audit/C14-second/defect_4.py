"""C14 defect 4: DependenceFunction.fit documents x and y as array-like.  With plain
lists the unconstrained (curve_fit) path works, but as soon as constraints are declared
(SLSQP path) the same call crashes with TypeError, because fit_constrained_function hands
the list x unconverted to the user's function (numpy scalar * list is not defined)."""
import sys
import numpy as np
from virocon import DependenceFunction


def linear(x, a, b):
    return a + b * x


rng = np.random.default_rng(0)
x = np.linspace(0.5, 10, 12)
y = 1 + 5 * x + rng.normal(0, 0.1, x.size)
constraint = {"type": "ineq", "fun": lambda p: 3 - p[1]}  # b <= 3 (active)

ref = DependenceFunction(linear, bounds=[(0, None), (0, None)], constraints=constraint)
ref.fit(x, y)  # arrays: works
print("arrays, constrained :", ref.parameters)

plain = DependenceFunction(linear, bounds=[(0, None), (0, None)])
plain.fit(list(x), list(y))  # lists, no constraints: works
print("lists, unconstrained:", plain.parameters)

dep = DependenceFunction(linear, bounds=[(0, None), (0, None)], constraints=constraint)
try:
    dep.fit(list(x), list(y))  # lists, constraints
except Exception as e:  # noqa
    print("lists, constrained  :", type(e).__name__, e)
    print("DEFECT")
    sys.exit(1)
print("lists, constrained  :", dep.parameters)
ok = np.allclose(list(dep.parameters.values()), list(ref.parameters.values()), rtol=1e-5)
ok = ok and dep.parameters["b"] <= 3 + 1e-8
print("OK" if ok else "DEFECT")
sys.exit(0 if ok else 1)
