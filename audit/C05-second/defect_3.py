"""C05 defect 3: ExponentiatedWeibullDistribution.pdf(0) is 0 whatever the parameters.

x = 0 is the (included) lower boundary of the support.  The density that belongs to the
documented F(x) = [1 - exp(-(x/alpha)^beta)]^delta is, at x = 0,
    delta*beta/alpha   if beta*delta == 1   (e.g. the exponential distribution),
    +inf               if beta*delta <  1,
    0                  if beta*delta >  1.
WeibullDistribution (same law for delta = 1) and scipy.stats.exponweib return these values.
"""
import sys
import numpy as np
from virocon.distributions import ExponentiatedWeibullDistribution, WeibullDistribution

fails = []
for alpha, beta, delta, expected in [
    (2.0, 1.0, 1.0, 0.5),
    (1.0, 1.0, 1.0, 1.0),
    (3.0, 0.5, 2.0, 1.0 / 3.0),
    (1.0, 0.5, 1.0, np.inf),
    (2.0, 3.0, 1.0, 0.0),
]:
    d = ExponentiatedWeibullDistribution(alpha, beta, delta)
    for x in (0.0, 0, np.array([0.0, 1.0]), np.array([0, 1])):
        got = np.atleast_1d(d.pdf(x))[0]
        # right-hand derivative of the cdf at 0
        h = 1e-9 * alpha
        num = (d.cdf(h) - d.cdf(0.0)) / h
        if not (got == expected or np.isclose(got, expected, rtol=1e-9)):
            w = (
                f", WeibullDistribution.pdf(0)={WeibullDistribution(alpha, beta, 0).pdf(0.0)}"
                if delta == 1
                else ""
            )
            fails.append(
                f"EW(alpha={alpha}, beta={beta}, delta={delta}).pdf({x!r})[0] = {got}, formula: {expected}, "
                f"(cdf(h)-cdf(0))/h = {num:.6g}, pdf(1e-12) = {d.pdf(1e-12):.6g}{w}"
            )
for msg in fails:
    print("VIOLATION:", msg)
sys.exit(1 if fails else 0)
