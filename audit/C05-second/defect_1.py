"""C05 defect 1: VonMisesDistribution.cdf returns negative "probabilities" and values > 1.

cdf must be non-decreasing from 0 to 1; pdf must vanish outside the support, which
icdf (and draw_sample) put at [mu - pi, mu + pi].
"""
import sys
import numpy as np
from virocon.distributions import VonMisesDistribution, ScipyDistribution

fails = []
for kappa, mu in [(1.0, 0.0), (0.5, 1.0), (2.0, 3.0)]:
    d = VonMisesDistribution(kappa=kappa, mu=mu)
    x = np.linspace(mu - 10, mu + 10, 401)
    F = d.cdf(x)
    f = d.pdf(x)
    if F.min() < 0 or F.max() > 1:
        fails.append(
            f"kappa={kappa}, mu={mu}: cdf ranges over [{F.min():.4f}, {F.max():.4f}], "
            f"e.g. cdf(mu-4)={d.cdf(mu - 4):.5f}, cdf(mu+4)={d.cdf(mu + 4):.5f}"
        )
    if np.any(np.diff(F) < 0):
        fails.append(f"kappa={kappa}, mu={mu}: cdf decreasing")
    # the support according to the distribution's own quantile function
    lo, hi = d.icdf(1e-300), d.icdf(1 - 1e-16)
    outside = (x < mu - np.pi - 1e-9) | (x > mu + np.pi + 1e-9)
    if np.any(f[outside] != 0):
        fails.append(
            f"kappa={kappa}, mu={mu}: icdf covers [{lo:.4f}, {hi:.4f}] but pdf is "
            f"{f[outside].max():.4f} outside of it (pdf(mu+2*pi)={d.pdf(mu + 2 * np.pi):.4f})"
        )
    # icdf(cdf(x)) = x
    xq = mu + 4.0
    back = d.icdf(d.cdf(xq))
    if not np.isclose(back, xq) and not np.isclose(d.cdf(xq), 1.0):
        fails.append(f"kappa={kappa}, mu={mu}: icdf(cdf({xq})) = {back}, cdf = {d.cdf(xq):.5f}")

for msg in fails:
    print("VIOLATION:", msg)
sys.exit(1 if fails else 0)
