"""C05 defect 2: LogNormalNormFitDistribution loses sigma_norm (up to NaN everywhere)
when sigma_norm / mu_norm is small: calculate_sigma uses log(1 + r) instead of log1p(r).

The documented meaning of the parameters: mean = mu_norm, std = sigma_norm.
For sigma_norm << mu_norm the distribution is practically normal, hence
(icdf(Phi(1)) - icdf(Phi(-1))) / 2 = sigma_norm up to O(sigma_norm/mu_norm).
"""
import sys
import numpy as np
from scipy.special import ndtr
from virocon.distributions import LogNormalNormFitDistribution

fails = []
for mu_norm, sigma_norm in [(100.0, 1e-4), (1e4, 1e-2), (1e6, 0.5), (1e6, 1e-2), (1e4, 1e-4)]:
    d = LogNormalNormFitDistribution(mu_norm=mu_norm, sigma_norm=sigma_norm)
    q = d.icdf(np.array([ndtr(-1.0), 0.5, ndtr(1.0)]))
    half_width = (q[2] - q[0]) / 2
    s, loc, scale = d._get_scipy_parameters(None, None)
    mid = d.cdf(mu_norm)
    rel = half_width / sigma_norm - 1
    # density at the mean of a (practically) normal law: 1 / (sigma_norm * sqrt(2 pi))
    peak = d.pdf(mu_norm) * sigma_norm * np.sqrt(2 * np.pi) - 1
    ok = np.isfinite(q).all() and abs(rel) < 1e-6 and abs(peak) < 1e-6 and abs(mid - 0.5) < 1e-3
    if not ok:
        fails.append(
            f"mu_norm={mu_norm}, sigma_norm={sigma_norm}: log-sigma={float(s)!r} "
            f"(exact {sigma_norm / mu_norm:.6g}), quantile half width (= std) rel. error {rel:.3g}, "
            f"peak density rel. error {peak:.3g}, cdf(mu_norm)={float(mid)!r}"
        )
for msg in fails:
    print("VIOLATION:", msg)
sys.exit(1 if fails else 0)
