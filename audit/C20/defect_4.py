"""C20 defect 4: plot_2D_contour rejects array-like design conditions.

The docstring promises `design_conditions : array-like or boolean`; the sample
is passed through np.asarray but the design conditions are indexed with
design_conditions[:, 0] directly, so a list of [x, y] pairs (or a tuple, or a
pandas DataFrame) raises TypeError / KeyError instead of being scattered as supplied.
"""
import matplotlib

matplotlib.use("Agg")
import numpy as np
from virocon import (
    GlobalHierarchicalModel,
    WeibullDistribution,
    IFORMContour,
    plot_2D_contour,
)

model = GlobalHierarchicalModel(
    [
        {"distribution": WeibullDistribution(alpha=2.0, beta=1.5, gamma=0.0)},
        {"distribution": WeibullDistribution(alpha=6.0, beta=3.0, gamma=0.0)},
    ]
)
contour = IFORMContour(model, 0.01, n_points=30)
design_conditions = [[1.0, 9.0], [2.0, 10.5], [3.0, 11.0]]  # array-like, shape (3, 2)

ax, dc = plot_2D_contour(contour, design_conditions=design_conditions)  # <- TypeError today
offsets = np.asarray(ax.collections[0].get_offsets())
assert np.array_equal(offsets, np.asarray(design_conditions))
print("OK")
