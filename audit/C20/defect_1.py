"""C20 defect 1: plot_2D_contour cannot draw an OrContour.

OrContour.coordinates is an object-dtype array whose cells are a mix of
1-element ndarrays and Python ints.  plot_2D_contour hands coords[:, i].tolist()
to ax.plot, which raises ValueError (inhomogeneous shape) with numpy 2 / matplotlib 3.9
(the versions pinned in requirements.txt).
"""
import matplotlib

matplotlib.use("Agg")
import numpy as np
from virocon import (
    GlobalHierarchicalModel,
    WeibullDistribution,
    OrContour,
    plot_2D_contour,
)

model = GlobalHierarchicalModel(
    [
        {"distribution": WeibullDistribution(alpha=2.0, beta=1.5, gamma=0.0)},
        {"distribution": WeibullDistribution(alpha=6.0, beta=3.0, gamma=0.0)},
    ]
)
sample = model.draw_sample(20000, random_state=1)
contour = OrContour(model, 0.01, sample=sample, deg_step=15)

coords = contour.coordinates
print("coordinates dtype:", coords.dtype, "cell types:", {type(v).__name__ for v in coords.ravel()})
# the contour's points as plain floats
pts = np.array([[float(np.ravel(v)[0]) for v in row] for row in coords])

for swap in (False, True):
    ax = plot_2D_contour(contour, swap_axis=swap)  # <- ValueError today
    xs, ys = ax.get_lines()[0].get_data()
    closed = np.vstack([pts, pts[:1]])
    if swap:
        closed = closed[:, ::-1]
    assert np.array_equal(np.asarray(xs, dtype=float), closed[:, 0])
    assert np.array_equal(np.asarray(ys, dtype=float), closed[:, 1])
print("OK")
