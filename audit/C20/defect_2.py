"""C20 defect 2: plot_histograms_of_interval_distributions crashes for 16 intervals.

_get_n_axes() announces support for "up to 16 intervals" (n > 16 raises
NotImplementedError) but looks the layout up with table[n_intervals] in a
16-entry (0..15) table: n_intervals == 16 -> IndexError.  (The same off-by-one
gives every other n one layout too large, e.g. 1 interval -> 2 axes.)
"""
import matplotlib

matplotlib.use("Agg")
import numpy as np
from virocon import (
    GlobalHierarchicalModel,
    WeibullDistribution,
    NormalDistribution,
    DependenceFunction,
    NumberOfIntervalsSlicer,
    plot_histograms_of_interval_distributions,
)

rng = np.random.default_rng(1)
x0 = rng.uniform(0, 16, 20000)
x1 = rng.normal(2 + 0.5 * x0, 1.0)
data = np.c_[x0, x1]


def lin(x, a, b):
    return a + b * x


def const(x, a):
    return a + 0 * x


dist_descriptions = [
    {
        "distribution": WeibullDistribution(),
        "intervals": NumberOfIntervalsSlicer(16, value_range=(0, 16)),
    },
    {
        "distribution": NormalDistribution(),
        "conditional_on": 0,
        "parameters": {"mu": DependenceFunction(lin), "sigma": DependenceFunction(const)},
    },
]
model = GlobalHierarchicalModel(dist_descriptions)
model.fit(data)
cond = model.distributions[1]
assert len(cond.distributions_per_interval) == 16

figs, axes_list = plot_histograms_of_interval_distributions(model, data)  # <- IndexError today
axes = np.ravel(axes_list[1])
for i in range(16):
    xs, ys = axes[i].get_lines()[0].get_data()
    assert np.array_equal(ys, cond.distributions_per_interval[i].pdf(xs))
    assert xs[0] == cond.data_intervals[i].min() and xs[-1] == cond.data_intervals[i].max()
print("OK")
