"""C20 defect 3: plot_2D_isodensity (default levels) draws nothing / crashes
when the model's density is large (variables with a small numerical range).

levels=None: min_lvl is the decimal exponent of the median grid density q.
  0.95 <= q < 9.5  -> min_lvl = 0  -> n_levels = 0 -> levels = []  -> no isodensity line at all
  q >= 95          -> min_lvl >= 2 -> levels = logspace(-1, min_lvl, n)[::-1] is DEcreasing
                      -> matplotlib: ValueError("Contour levels must be increasing")
"""
import matplotlib

matplotlib.use("Agg")
import matplotlib.axes
import numpy as np
from virocon import GlobalHierarchicalModel, WeibullDistribution, plot_2D_isodensity

calls = []
_orig = matplotlib.axes.Axes.contour


def _spy(self, *args, **kwargs):
    calls.append((args, kwargs))
    return _orig(self, *args, **kwargs)


matplotlib.axes.Axes.contour = _spy

for scale in (0.1, 0.01):  # e.g. dimensionless steepness-like variables
    model = GlobalHierarchicalModel(
        [
            {"distribution": WeibullDistribution(alpha=scale, beta=2.0, gamma=0.0)},
            {"distribution": WeibullDistribution(alpha=scale, beta=2.0, gamma=0.0)},
        ]
    )
    sample = model.draw_sample(2000, random_state=0)
    calls.clear()
    ax = plot_2D_isodensity(model, sample, n_grid_steps=60)  # <- ValueError for scale=0.01
    (X, Y, Z), kwargs = calls[0]
    levels = np.asarray(kwargs["levels"], dtype=float)
    print("scale", scale, "levels", levels)
    # the drawn field is the model's own pdf ...
    assert np.array_equal(Z.ravel(), model.pdf(np.c_[X.ravel(), Y.ravel()]))
    # ... and at least one isodensity line inside the range of the pdf is drawn
    assert levels.size >= 1, "no isodensity level at all is drawn"
    assert np.any((levels > np.nanmin(Z)) & (levels < np.nanmax(Z)))
print("OK")
