"""C20 defect 5: a HighestDensityContour with more than one partial contour can
neither be saved nor plotted.

When the highest density region has several boundaries (here: a direction variable
with a von Mises distribution centred at pi on the grid [-pi, pi], so the region
touches both ends of the grid) HighestDensityContour stores `coordinates` as a
nested *list* (one [x-array, y-array] per partial contour) although the class
documents `coordinates : ndarray, shape (n_points, n_dim)`.
save_contour_coordinates (contour.coordinates.shape) -> AttributeError,
plot_2D_contour (coords[:, x_idx]) -> TypeError.
"""
import os
import tempfile

import matplotlib

matplotlib.use("Agg")
import numpy as np
from virocon import (
    GlobalHierarchicalModel,
    WeibullDistribution,
    VonMisesDistribution,
    HighestDensityContour,
    save_contour_coordinates,
    plot_2D_contour,
)

model = GlobalHierarchicalModel(
    [
        {"distribution": WeibullDistribution(alpha=2.0, beta=1.5, gamma=0.0)},
        {"distribution": VonMisesDistribution(kappa=2.0, mu=np.pi)},
    ]
)
contour = HighestDensityContour(
    model, 0.1, limits=[(0, 8), (-np.pi, np.pi)], deltas=[0.1, 0.1]
)
coords = contour.coordinates
print("type(coordinates):", type(coords).__name__)
if isinstance(coords, np.ndarray):
    pts = coords
else:  # list of partial contours, each a list of one array per dimension
    pts = np.vstack([np.array(part).T for part in coords])
assert pts.shape[1] == 2 and len(pts) > 10

path = os.path.join(tempfile.mkdtemp(), "hdc")
save_contour_coordinates(contour, path)  # <- AttributeError today
with open(path + ".txt") as fh:
    lines = fh.read().splitlines()
assert lines[0] == "Variable 1 (arb. unit);Variable 2 (arb. unit)"
rows = [
    [float(v) for v in line.split(";")]
    for line in lines[1:]
    if line.strip() and "nan" not in line
]
rows = np.array(rows)
assert rows.shape == pts.shape, (rows.shape, pts.shape)
assert np.all(np.abs(rows - pts) <= 0.5e-6 + 1e-12)

res = plot_2D_contour(contour)  # <- TypeError today
ax = res[0] if isinstance(res, tuple) else res
drawn = np.vstack([np.c_[line.get_xdata(), line.get_ydata()] for line in ax.get_lines()])
drawn = {tuple(np.round(p, 9)) for p in drawn.astype(float) if np.all(np.isfinite(p))}
assert all(tuple(np.round(p, 9)) in drawn for p in pts), "not every contour point is drawn"
print("OK")
