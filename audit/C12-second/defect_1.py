"""C12 defect 1: MLE fit of a distribution whose parameters are all fixed crashes
(and with a different exception type per family), while the sibling classes
ScipyDistribution and LogNormalNormFitDistribution treat it as a no-op.

The property promises: after MLE fitting of any family the log-likelihood is not
lower than under the starting parameters and the parameters are finite and
admissible.  With every parameter fixed the fit has nothing to estimate, the
parameters must simply stay what they are (LL(fitted) == LL(start)).
"""
import sys
import warnings

import numpy as np

warnings.filterwarnings("ignore")

from virocon import (
    WeibullDistribution,
    LogNormalDistribution,
    NormalDistribution,
    ExponentiatedWeibullDistribution,
    GeneralizedGammaDistribution,
    VonMisesDistribution,
    ScipyDistribution,
    GlobalHierarchicalModel,
)


class ScipyWeibull(ScipyDistribution):
    scipy_dist_name = "weibull_min"


x = WeibullDistribution(alpha=2, beta=1.5, gamma=0).draw_sample(500, random_state=1)

cases = [
    WeibullDistribution(f_alpha=2, f_beta=1.5, f_gamma=0),
    LogNormalDistribution(f_mu=0.5, f_sigma=0.5),
    NormalDistribution(f_mu=1.8, f_sigma=1.2),
    ExponentiatedWeibullDistribution(f_alpha=2, f_beta=1.5, f_delta=1),
    GeneralizedGammaDistribution(f_m=1, f_c=1.5, f_lambda_=0.5),
    VonMisesDistribution(f_kappa=1, f_mu=0),
    ScipyWeibull(f_c=1.5, f_loc=0, f_scale=2),  # sibling: handled as a no-op
]

failures = 0
for dist in cases:
    before = dict(dist.parameters)
    ll_start = np.sum(np.log(dist.pdf(x)))
    try:
        dist.fit(x)  # method="mle"
    except Exception as e:  # noqa
        print(f"FAIL {type(dist).__name__}: fit raised {type(e).__name__}: {e}")
        failures += 1
        continue
    ll_fit = np.sum(np.log(dist.pdf(x)))
    ok = dist.parameters == before and ll_fit >= ll_start
    print(f"{'ok  ' if ok else 'FAIL'} {type(dist).__name__}: {dist.parameters}")
    failures += not ok

# The same through the public joint model: a fully specified marginal.
data = np.column_stack([x, NormalDistribution(3, 1).draw_sample(500, random_state=2)])
ghm = GlobalHierarchicalModel(
    [
        {"distribution": WeibullDistribution(f_alpha=2, f_beta=1.5, f_gamma=0)},
        {"distribution": NormalDistribution()},
    ]
)
try:
    ghm.fit(data)
    print("ok   GlobalHierarchicalModel.fit with a fully fixed marginal")
except Exception as e:  # noqa
    print(f"FAIL GlobalHierarchicalModel.fit: {type(e).__name__}: {e}")
    failures += 1

sys.exit(1 if failures else 0)
