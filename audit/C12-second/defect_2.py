"""C12 defect 2: ConditionalDistribution.fit called with its documented default
method ("Defaults to the distributions default", i.e. maximum likelihood) crashes
with AttributeError, because it hands method=None to Distribution.fit, which
dispatches with method.lower().

Expected: each interval is fitted by maximum likelihood (the distribution's
default) and the per-interval fits satisfy the property (LL not lower than at
the start values, finite and admissible parameters).
"""
import sys
import warnings

import numpy as np

warnings.filterwarnings("ignore")

from virocon import NormalDistribution, WeibullDistribution, DependenceFunction
from virocon.distributions import ConditionalDistribution


def _lin(x, a=0.0, b=1.0):
    return a + b * x


rng = np.random.default_rng(0)
intervals = [rng.normal(m, s, 200) for m, s in [(1, 1.0), (2, 1.5), (3, 2.0)]]
cond_values = [1.0, 2.0, 3.0]
bounds = [(0.5, 1.5), (1.5, 2.5), (2.5, 3.5)]

failures = 0

cd = ConditionalDistribution(
    NormalDistribution(),
    {"mu": DependenceFunction(_lin), "sigma": DependenceFunction(_lin)},
)
try:
    cd.fit(intervals, cond_values, bounds)  # method left at its default
except Exception as e:  # noqa
    print(f"FAIL ConditionalDistribution.fit(default method): {type(e).__name__}: {e}")
    failures += 1
else:
    for d, xi in zip(cd.distributions_per_interval, intervals):
        ll_fit = np.sum(np.log(d.pdf(xi)))
        ll_start = np.sum(np.log(NormalDistribution().pdf(xi)))
        if not (ll_fit >= ll_start and np.all(np.isfinite(list(d.parameters.values())))):
            print("FAIL interval fit lost likelihood", d.parameters)
            failures += 1

# reference: the same call with the method spelled out works
cd2 = ConditionalDistribution(
    NormalDistribution(),
    {"mu": DependenceFunction(_lin), "sigma": DependenceFunction(_lin)},
)
cd2.fit(intervals, cond_values, bounds, method="mle")
print("explicit method='mle':", [d.parameters for d in cd2.distributions_per_interval][:1], "...")

# the callee itself: method=None gives an AttributeError, not a fit and not the
# ValueError it raises for other unknown methods
try:
    WeibullDistribution(f_gamma=0).fit(np.abs(intervals[0]) + 0.1, None)
    print("ok   Distribution.fit(data, None)")
except ValueError as e:
    print("ok   Distribution.fit(data, None) rejected with ValueError:", e)
except Exception as e:  # noqa  (informational only, not counted)
    print(f"note Distribution.fit(data, None): {type(e).__name__}: {e}")

sys.exit(1 if failures else 0)
