"""C13 defect 2: 'quadratic' / 'cubic' weights overflow for integer-typed data.

`x**2` / `x**3` are computed in the dtype of the data.  For int32 observations
(e.g. wave heights stored in mm or cm) x**3 wraps around for x > 1290 (x**2 for
x > 46340; int16: x**2 for x > 181), so some weights become negative/garbage and
the returned alpha, beta are not the minimiser of the cubic-weighted error.
"""
import warnings
import numpy as np
from virocon import ExponentiatedWeibullDistribution as EW

warnings.simplefilter("ignore")

# significant wave heights in millimetres, stored as int32
hs_m = EW(alpha=1.0, beta=1.5, delta=2.0).draw_sample(500, random_state=3)
hs_mm = np.round(hs_m * 1000).astype(np.int32) + 1
assert hs_mm.dtype == np.int32 and hs_mm.min() > 0


def reference(delta, data, k):
    """weighted LSQ of log10 x on log10(-ln(1-p^(1/delta))), weights x**k."""
    x = np.sort(np.asarray(data, dtype=float))
    n = len(x)
    p = (np.arange(1, n + 1) - 0.5) / n
    w = x**k
    ps = np.log10(-np.log1p(-p ** (1 / delta)))
    sw = np.sqrt(w / w.sum())
    A = np.vstack([np.ones_like(ps), ps]).T
    (a, b), *_ = np.linalg.lstsq(A * sw[:, None], np.log10(x) * sw, rcond=None)
    return 10**a, 1 / b


failures = []
for name, k in [("linear", 1), ("quadratic", 2), ("cubic", 3)]:
    d_int = EW(f_delta=2)
    d_int.fit(hs_mm, method="wlsq", weights=name)
    d_flt = EW(f_delta=2)
    d_flt.fit(hs_mm.astype(float), method="wlsq", weights=name)
    ref = reference(2, hs_mm, k)
    print(f"{name:9s} int32 data: alpha={d_int.alpha:.6f} beta={d_int.beta:.6f} | "
          f"same data as float: alpha={d_flt.alpha:.6f} beta={d_flt.beta:.6f} | "
          f"reference: alpha={ref[0]:.6f} beta={ref[1]:.6f}")
    if not (np.isclose(d_int.alpha, ref[0], rtol=1e-8) and np.isclose(d_int.beta, ref[1], rtol=1e-8)):
        failures.append(name)

# free delta as well
d_int = EW(); d_int.fit(hs_mm, method="wlsq", weights="cubic")
d_flt = EW(); d_flt.fit(hs_mm.astype(float), method="wlsq", weights="cubic")
print("free delta, cubic: int32 ->", d_int.parameters, "| float ->", d_flt.parameters)
if not np.isclose(d_int.delta, d_flt.delta, rtol=1e-3):
    failures.append("cubic/free-delta")

assert not failures, f"integer data give a different (wrong) fit for weights {failures}"
print("OK")
