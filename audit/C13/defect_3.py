"""C13 defect 3 (low confidence): the free-delta search silently returns a
non-converged iterate.

For heavy-tailed data (here: Pareto, tail index 3) the weighted x-space error
decreases monotonically in delta, fmin() exhausts its 200 function evaluations
(warnflag=1) while doubling delta, and `_fit_lsq` (disp=False, warnflag never
inspected) returns whatever iterate it had: delta ~ 1e11, alpha ~ 1e-10.  That
delta is not a local minimiser of the weighted quantile error, and the caller
gets neither an exception nor a warning.
"""
import warnings
import numpy as np
from virocon import ExponentiatedWeibullDistribution as EW


def reference_error(delta, x, p, w):
    # -ln(1 - p**(1/delta)) without cancellation (needed at very large delta)
    y = -np.log(-np.expm1(np.log(p) / delta))
    ps = np.log10(y)
    xs = np.log10(x)
    wn = w / w.sum()
    pb, xb = np.sum(wn * ps), np.sum(wn * xs)
    b = np.sum(wn * (ps - pb) * (xs - xb)) / np.sum(wn * (ps - pb) ** 2)
    a = xb - b * pb
    return np.sum(w * (x - 10**a * y**b) ** 2)


n = 1000
sample = np.random.default_rng(4).pareto(3, n) + 1
dist = EW()
signalled = False
with warnings.catch_warnings(record=True) as caught:
    warnings.simplefilter("always")
    try:
        dist.fit(sample, method="lsq")
    except Exception as e:  # an explicit failure would be acceptable
        print("fit raised", type(e).__name__, e)
        signalled = True
# numpy RuntimeWarnings about nan/inf arithmetic do not count as a convergence signal
conv_warnings = [w for w in caught if not issubclass(w.category, RuntimeWarning)]
if conv_warnings:
    print("fit warned:", [str(w.message) for w in conv_warnings])
    signalled = True

if not signalled:
    x = np.sort(sample)
    p = (np.arange(1, n + 1) - 0.5) / n
    w = np.ones(n)
    d = float(dist.delta)
    f0 = reference_error(d, x, p, w)
    fl = reference_error(d * 0.9, x, p, w)
    fr = reference_error(d * 1.1, x, p, w)
    print("returned", dist.parameters)
    print("weighted x-space error at 0.9*delta, delta, 1.1*delta:", fl, f0, fr)
    assert fl >= f0 and fr >= f0, (
        "free delta is not a local minimiser (fmin ran out of evaluations) "
        "and no warning/exception was raised"
    )

# (B) consequence for a sequence of calls: re-fitting the same object on benign
# data starts fmin at the diverged delta, where the library's objective is
# round-off noise, and never comes back.
benign = EW(alpha=2, beta=1.5, delta=1.2).draw_sample(1000, random_state=1)
fresh = EW()
fresh.fit(benign, method="lsq")
dist.fit(benign, method="lsq")
print("re-fit on benign data:", dist.parameters)
print("fresh object, same data:", fresh.parameters)
x = np.sort(benign)
p = (np.arange(1, 1001) - 0.5) / 1000
w = np.ones(1000)
d = float(dist.delta)
f0 = reference_error(d, x, p, w)
assert reference_error(d * 0.9, x, p, w) >= f0 and reference_error(d * 1.1, x, p, w) >= f0, (
    "re-fit after a diverged fit: delta is not a local minimiser"
)
print("OK")
