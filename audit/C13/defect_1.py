"""C13 defect 1: `1 - p**(1/delta)` is evaluated in plain floating point.

For small delta the smallest plotting positions give p**(1/delta) < 1.1e-16, so
`1 - p**(1/delta)` rounds to exactly 1, `-log(1)` = 0 and `log10(0)` = -inf.
 (A) with a fixed delta the closed-form regression returns alpha = beta = nan;
 (B) with a free delta the x-space error is nan below a numerical barrier, fmin
     stops on that barrier and the returned delta is NOT a local minimiser.
"""
import warnings
import numpy as np
from virocon import ExponentiatedWeibullDistribution as EW

warnings.simplefilter("ignore")


def transformed_p(p, delta):
    # -ln(1 - p**(1/delta)), evaluated without cancellation
    return -np.log1p(-np.exp(np.log(p) / delta))


def reference_alpha_beta(delta, x, p, w):
    """Weighted least squares of log10 x on log10(-ln(1-p^(1/delta)))."""
    ps = np.log10(transformed_p(p, delta))
    xs = np.log10(x)
    sw = np.sqrt(w / w.sum())
    A = np.vstack([np.ones_like(ps), ps]).T
    (a, b), *_ = np.linalg.lstsq(A * sw[:, None], xs * sw, rcond=None)
    return 10**a, 1 / b


def reference_error(delta, x, p, w):
    alpha, beta = reference_alpha_beta(delta, x, p, w)
    x_hat = alpha * transformed_p(p, delta) ** (1 / beta)
    return np.sum(w * (x - x_hat) ** 2)


# ---------------- (A) fixed delta ------------------------------------------
n = 1000
sample = EW(alpha=1, beta=5, delta=0.2).draw_sample(n, random_state=2)
dist = EW(f_delta=0.2)
dist.fit(sample, method="lsq")
x = np.sort(sample)
p = (np.arange(1, n + 1) - 0.5) / n
w = np.ones(n)
ref_alpha, ref_beta = reference_alpha_beta(0.2, x, p, w)
print("(A) f_delta=0.2, n=1000: library alpha, beta =", dist.alpha, dist.beta,
      "| weighted-regression minimiser =", ref_alpha, ref_beta)
ok_a = (
    np.isfinite(dist.alpha)
    and np.isfinite(dist.beta)
    and np.isclose(dist.alpha, ref_alpha, rtol=1e-6)
    and np.isclose(dist.beta, ref_beta, rtol=1e-6)
)

# ---------------- (B) free delta -------------------------------------------
n = 5000
sample = np.random.default_rng(3).uniform(0.1, 5, n)
dist = EW()
dist.fit(sample, method="lsq")
x = np.sort(sample)
p = (np.arange(1, n + 1) - 0.5) / n
w = np.ones(n)
d = float(dist.delta)
f0 = reference_error(d, x, p, w)
f_left = reference_error(d * 0.99, x, p, w)
f_right = reference_error(d * 1.01, x, p, w)
print("(B) uniform(0.1, 5) n=5000, free delta: library delta =", d,
      "alpha, beta =", dist.alpha, dist.beta)
print("    weighted x-space error at 0.99*delta, delta, 1.01*delta =",
      f_left, f0, f_right)
ok_b = np.isfinite(f0) and f_left >= f0 * (1 - 1e-6) and f_right >= f0 * (1 - 1e-6)

msg = []
if not ok_a:
    msg.append("(A) fixed small delta: alpha/beta are nan, not the weighted regression minimiser")
if not ok_b:
    msg.append("(B) free delta: returned delta is not a local minimiser of the weighted x-space error")
assert not msg, "; ".join(msg)
print("OK")
