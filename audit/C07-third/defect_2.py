"""C07 - an integer seed >= 2**32 is accepted by the joint model but crashes every
univariate distribution.

GlobalHierarchicalModel.draw_sample turns an int seed into a numpy Generator
(np.random.default_rng, any non-negative int).  The distributions hand the int
straight to scipy's rvs, which builds a legacy np.random.RandomState from it and
raises ValueError("Seed must be between 0 and 2**32 - 1").  So the same in-scope
`random_state` (an int) reproduces a joint sample but gives no sample at all for
dist.draw_sample / ConditionalDistribution.draw_sample.
"""
import sys

import numpy as np

from virocon import (
    GlobalHierarchicalModel,
    WeibullDistribution,
    LogNormalDistribution,
    NormalDistribution,
    ExponentiatedWeibullDistribution,
    GeneralizedGammaDistribution,
    VonMisesDistribution,
    DependenceFunction,
)
from virocon.distributions import ConditionalDistribution

seed = 2**32 + 5  # e.g. time.time_ns() or a hash are far larger still

model = GlobalHierarchicalModel(
    [{"distribution": WeibullDistribution(2, 1.5)}, {"distribution": NormalDistribution()}]
)
a = model.draw_sample(10, random_state=seed)
b = model.draw_sample(10, random_state=seed)
assert a.shape == (10, 2) and np.array_equal(a, b)
print("joint model: seed", seed, "accepted and reproducible")

failures = []
dists = [
    WeibullDistribution(2, 1.5),
    LogNormalDistribution(0.3, 0.4),
    NormalDistribution(1, 2),
    ExponentiatedWeibullDistribution(2, 1.5, 3),
    GeneralizedGammaDistribution(2, 1.5, 0.5),
    VonMisesDistribution(2, 1),
    ConditionalDistribution(
        NormalDistribution(f_sigma=1.0), {"mu": DependenceFunction(lambda x, a=1.0: a + x)}
    ),
]
for dist in dists:
    extra = (2.0,) if isinstance(dist, ConditionalDistribution) else ()
    try:
        s1 = dist.draw_sample(10, *extra, random_state=seed)
        s2 = dist.draw_sample(10, *extra, random_state=seed)
        s3 = dist.draw_sample(10, *extra, random_state=seed + 1)
        if np.shape(s1) != (10,) or not np.array_equal(s1, s2) or np.array_equal(s1, s3):
            failures.append((repr(dist), "not reproducible"))
    except Exception as e:  # noqa
        failures.append((repr(dist), f"{type(e).__name__}: {e}"))

for f in failures:
    print("DEFECT:", *f)
sys.exit(1 if failures else 0)
