"""C07 - conditional_sample never returns a value <= 0.

The rejection sampler behind MultivariateModel.conditional_sample proposes its
candidates on [1e-16, x_max] whatever the variable is.  For a variable whose
conditional distribution has mass on the negative axis (NormalDistribution,
VonMisesDistribution, WeibullDistribution with gamma < 0, any ScipyDistribution
with a negative loc) the returned sample is the conditional distribution
truncated to x > 0, not the conditional distribution.

The upper end of the window (known issue) plays no role here: for the model
below the sampler ends with x_max = 4.03, the mass above it is 7e-7.
"""
import sys
import warnings

import numpy as np
import scipy.stats as sts

from virocon import (
    GlobalHierarchicalModel,
    WeibullDistribution,
    NormalDistribution,
    DependenceFunction,
)

warnings.simplefilter("ignore")


def mu_of_x(x, a=-1.0, b=0.1):
    return a + b * x


model = GlobalHierarchicalModel(
    [
        {"distribution": WeibullDistribution(alpha=2, beta=1.5)},
        {
            "distribution": NormalDistribution(f_sigma=1.0),
            "conditional_on": 0,
            "parameters": {"mu": DependenceFunction(mu_of_x)},
        },
    ]
)

n = 20000
given = 2.0
sample = model.conditional_sample(n, 1, given, random_state=1)

# exact conditional distribution of variable 1 given variable 0 = 2.0: N(-0.8, 1)
exact = sts.norm(loc=mu_of_x(given), scale=1.0)
s = np.sort(sample)
F = exact.cdf(s)
k = len(s)
ks = max(np.max(np.arange(1, k + 1) / k - F), np.max(F - np.arange(k) / k))
eps = np.sqrt(np.log(2 / 1e-12) / (2 * k))  # DKW bound, error probability 1e-12

print(f"size {k}, min {s[0]:.3g}, mean {s.mean():.3f} (exact mean {exact.mean():.3f})")
print(f"share of values <= 0: {np.mean(s <= 0):.3f} (exact {exact.cdf(0):.3f})")
print(f"sup |F_n - F| = {ks:.4f}, DKW bound {eps:.4f}")

# the model's own draw_sample, restricted to rows near the conditioning value, agrees with N(-0.8, 1)
if ks > eps:
    print("DEFECT: the conditional sample does not follow the conditional distribution")
    sys.exit(1)
print("ok")
sys.exit(0)
