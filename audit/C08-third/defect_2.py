"""C08 defect 2: integer-valued conditioning values given as a vector reach the
dependence functions as an integer numpy array, so a dependence function with a
negative integer power (a + b * x**-2) raises in the vectorised call, while the
same (x, g) pairs evaluated one at a time - or the same values as floats - work."""
import sys
import numpy as np
from virocon import GlobalHierarchicalModel
from virocon.distributions import (
    ConditionalDistribution,
    LogNormalDistribution,
    WeibullDistribution,
)
from virocon.dependencies import DependenceFunction


def _mu(x, a=0.5, b=0.3):
    return a + b * np.sqrt(x)


def _sigma(x, a=0.1, b=0.4):
    return a + b * x**-2  # a + b / x^2


failures = []
cd = ConditionalDistribution(
    LogNormalDistribution(),
    {"mu": DependenceFunction(_mu), "sigma": DependenceFunction(_sigma)},
)
x = [1.5, 2.0, 3.0]
g_int = [1, 2, 4]
g_float = [1.0, 2.0, 4.0]
template = LogNormalDistribution()

for name in ("pdf", "cdf", "icdf"):
    arg = [0.2, 0.5, 0.9] if name == "icdf" else x
    expected = getattr(template, name)(
        arg, mu=_mu(np.array(g_float)), sigma=_sigma(np.array(g_float))
    )
    one_by_one = np.array([getattr(cd, name)(a, g) for a, g in zip(arg, g_int)])
    assert np.allclose(one_by_one, expected, rtol=1e-12)  # one at a time is right
    assert np.allclose(getattr(cd, name)(arg, g_float), expected, rtol=1e-12)
    try:
        vectorised = getattr(cd, name)(arg, g_int)
        ok = np.allclose(vectorised, one_by_one, rtol=1e-12)
        print(f"{name}: vectorised {vectorised} one at a time {one_by_one}")
    except Exception as e:  # noqa
        ok = False
        print(f"{name}(…, given={g_int}) raised {type(e).__name__}: {e}; one at a time: {one_by_one}")
    if not ok:
        failures.append(name)

try:
    s = cd.draw_sample(1, g_int, random_state=1)
    ref = cd.draw_sample(1, g_float, random_state=1)
    if not np.allclose(s, ref):
        failures.append("draw_sample")
except Exception as e:  # noqa
    print(f"draw_sample(1, given={g_int}) raised {type(e).__name__}: {e}")
    failures.append("draw_sample")

# the same through the joint model: integer-valued points
model = GlobalHierarchicalModel(
    [
        {"distribution": WeibullDistribution(alpha=2, beta=1.5, gamma=0)},
        {
            "distribution": LogNormalDistribution(),
            "conditional_on": 0,
            "parameters": {"mu": DependenceFunction(_mu), "sigma": DependenceFunction(_sigma)},
        },
    ]
)
f_float = model.pdf([[1.0, 2.0], [2.0, 3.0]])
try:
    f_int = model.pdf([[1, 2], [2, 3]])
    print("model.pdf int", f_int, "float", f_float)
    if not np.allclose(f_int, f_float, rtol=1e-12):
        failures.append("model.pdf")
except Exception as e:  # noqa
    print(f"model.pdf([[1, 2], [2, 3]]) raised {type(e).__name__}: {e}; with floats: {f_float}")
    failures.append("model.pdf")

if failures:
    print("DEFECT:", failures)
    sys.exit(1)
print("all fine")
