"""C08 defect 1: a chained dependence function whose dependent parameter is not
the LAST parameter of the callable cannot be evaluated (TypeError), so the
conditional distribution built on it has no pdf/cdf/icdf/sample at all."""
import sys
import numpy as np
from virocon.distributions import ConditionalDistribution, WeibullDistribution
from virocon.dependencies import DependenceFunction


def _beta(x, a=1.5, b=0.1):
    return a + b * x


# the bound dependence function is the FIRST parameter after x
def _alpha(x, d_of_x, a=2.0, b=0.3):
    return (a + b * x) / 2.0445 ** (1 / d_of_x(x))


# the very same function with the bound parameter last (the only order that works)
def _alpha_last(x, a=2.0, b=0.3, d_of_x=None):
    return (a + b * x) / 2.0445 ** (1 / d_of_x(x))


failures = []
g = np.array([0.5, 1.0, 2.0, 4.0])
x = np.array([0.7, 1.3, 2.2, 3.1])
template = WeibullDistribution(f_gamma=0.2)
expected_alpha = (2.0 + 0.3 * g) / 2.0445 ** (1 / _beta(g))
expected = WeibullDistribution().cdf(x, alpha=expected_alpha, beta=_beta(g), gamma=0.2)

for label, func in (("dependent parameter last", _alpha_last), ("dependent parameter first", _alpha)):
    beta_dep = DependenceFunction(_beta)
    alpha_dep = DependenceFunction(func, d_of_x=beta_dep)
    cd = ConditionalDistribution(template, {"alpha": alpha_dep, "beta": beta_dep})
    try:
        got = cd.cdf(x, g)
        one = np.array([cd.cdf(xi, gi) for xi, gi in zip(x, g)])
        ok = np.allclose(got, expected, rtol=1e-12) and np.allclose(one, expected, rtol=1e-12)
        print(f"{label}: cdf = {got} expected {expected} -> {'ok' if ok else 'WRONG'}")
        if not ok:
            failures.append(label)
    except Exception as e:  # noqa
        print(f"{label}: cdf raised {type(e).__name__}: {e}")
        failures.append(label)

# the dependence function on its own, also with explicitly passed coefficients
# (this is how the fit calls it)
dep = DependenceFunction(_alpha, d_of_x=DependenceFunction(_beta))
for label, call in (
    ("stored coefficients", lambda: dep(2.0)),
    ("explicit coefficients", lambda: dep(2.0, 2.0, 0.3)),
):
    try:
        val = call()
        ref = (2.0 + 0.3 * 2.0) / 2.0445 ** (1 / _beta(2.0))
        print(f"{label}: {val} expected {ref}")
        if not np.isclose(val, ref, rtol=1e-12):
            failures.append(label)
    except Exception as e:  # noqa
        print(f"{label}: raised {type(e).__name__}: {e}")
        failures.append(label)

if failures:
    print("DEFECT: ", failures)
    sys.exit(1)
print("all fine")
