"""C18 defect 1: GlobalHierarchicalModel.fit accepts data of the wrong dimension
(ndim != 2) as long as the LAST axis has n_dim entries, and returns a fitted model."""
import os
import warnings
import numpy as np

warnings.simplefilter("ignore")
from virocon import (
    GlobalHierarchicalModel,
    NormalDistribution,
    LogNormalDistribution,
    read_ec_benchmark_dataset,
)
from virocon.predefined import get_OMAE2020_Hs_Tz

here = os.path.dirname(os.path.abspath(__file__))
X = np.array(
    read_ec_benchmark_dataset(
        os.path.join(here, "..", "datasets", "ec-benchmark_dataset_A_1year.txt")
    )
)  # shape (n, 2): well-formed
assert X.ndim == 2 and X.shape[1] == 2

failures = []


def must_reject(label, make_model, data, **kw):
    model = make_model()
    try:
        model.fit(data, **kw)
    except Exception as e:  # any exception counts as a rejection
        print(f"ok   {label}: rejected with {type(e).__name__}")
        return
    failures.append(label)
    print(f"FAIL {label}: data of shape {np.shape(data)} was fitted -> {model}")


def indep():
    return GlobalHierarchicalModel(
        [{"distribution": NormalDistribution()}, {"distribution": LogNormalDistribution()}]
    )


def omae():
    return GlobalHierarchicalModel(get_OMAE2020_Hs_Tz()[0])


# (a) accidentally nested data, shape (1, n, 2): "variable 0" is fitted to the first
#     observation (hs_0, tz_0), "variable 1" to the second observation (hs_1, tz_1).
must_reject("2-D model, data shape (1, n, 2)", indep, X[None, :, :])
# (b) data of shape (n, 2, 2)
must_reject("2-D model, data shape (n, 2, 2)", indep, np.stack([X, X[::-1]], axis=1))
# (c) the predefined OMAE2020 Hs-Tz model (conditional second variable), default MLE
must_reject("OMAE2020 Hs-Tz, data shape (n, 2, 2)", omae, np.stack([X, X], axis=1))

assert not failures, f"ill-dimensioned data were fitted instead of rejected: {failures}"
