"""C18 defect 3: a model description whose FIRST variable is conditional is accepted
when 'conditional_on' is given as None (the first-dimension check only looks at the
stored index, not at whether a ConditionalDistribution was built)."""
import warnings
import numpy as np

warnings.simplefilter("ignore")
from virocon import (
    GlobalHierarchicalModel,
    WeibullDistribution,
    LogNormalDistribution,
    DependenceFunction,
)


def _mu(x, a=0.9, b=0.5):
    return a + b * np.log1p(x)


def _sigma(x, a=0.1, b=0.2):
    return a + b * np.exp(-0.3 * x)


def cond_desc(conditional_on):
    return {
        "distribution": LogNormalDistribution(),
        "conditional_on": conditional_on,
        "parameters": {"mu": DependenceFunction(_mu), "sigma": DependenceFunction(_sigma)},
    }


# Reference 1: the same description in SECOND position is rejected (None is no valid index).
try:
    GlobalHierarchicalModel([{"distribution": WeibullDistribution()}, cond_desc(None)])
    raise SystemExit("unexpected: conditional_on=None accepted for dimension 1")
except ValueError as e:
    print("ok   dimension 1, conditional_on=None: rejected:", str(e)[:70], "...")

# Reference 2: first variable conditional on 0 is rejected.
try:
    GlobalHierarchicalModel([cond_desc(0), {"distribution": WeibullDistribution()}])
    raise SystemExit("unexpected: first variable conditional on 0 accepted")
except RuntimeError:
    print("ok   dimension 0, conditional_on=0: rejected (RuntimeError)")

# The defect: first variable described as conditional (has 'conditional_on' and
# dependence functions as 'parameters'), conditional_on=None.
try:
    model = GlobalHierarchicalModel(
        [cond_desc(None), {"distribution": WeibullDistribution(alpha=2, beta=1.5)}]
    )
except Exception as e:
    print(f"ok   dimension 0, conditional_on=None: rejected with {type(e).__name__}")
    raise SystemExit(0)

print("FAIL model was built:", model)
print("     type(model.distributions[0]) =", type(model.distributions[0]).__name__)
# The object is unusable: every evaluation dies with an unrelated TypeError.
for name, call in [
    ("draw_sample(5)", lambda: model.draw_sample(5)),
    ("pdf([[1, 1]])", lambda: model.pdf([[1.0, 1.0]])),
    ("fit(data)", lambda: model.fit(np.abs(np.random.default_rng(0).normal(2, 0.5, (500, 2))))),
]:
    try:
        call()
        print(f"     {name}: returned a result")
    except Exception as e:
        print(f"     {name}: {type(e).__name__}: {str(e)[:90]}")

raise AssertionError(
    "model description whose first variable is conditional was accepted "
    f"(distributions[0] is a {type(model.distributions[0]).__name__})"
)
