"""C18 defect 2: non-finite evaluation points are not rejected by the marginal
pdf / cdf of GlobalHierarchicalModel - they yield numbers (0.0, nan, 1.0)."""
import warnings
import numpy as np

warnings.simplefilter("ignore")
from virocon import (
    GlobalHierarchicalModel,
    ExponentiatedWeibullDistribution,
    LogNormalDistribution,
    DependenceFunction,
)


def _mu(x, a=0.9, b=0.5):
    return a + b * np.log1p(x)


def _sigma(x, a=0.1, b=0.2):
    return a + b * np.exp(-0.3 * x)


model = GlobalHierarchicalModel(
    [
        {"distribution": ExponentiatedWeibullDistribution(alpha=1.2, beta=1.1, delta=1.5)},
        {
            "distribution": LogNormalDistribution(),
            "conditional_on": 0,
            "parameters": {"mu": DependenceFunction(_mu), "sigma": DependenceFunction(_sigma)},
        },
    ]
)

# Reference: the joint pdf / cdf do reject such points (np.asarray_chkfinite).
for name, call in [
    ("pdf([[nan, 1]])", lambda: model.pdf([[np.nan, 1.0]])),
    ("cdf([[inf, 1]])", lambda: model.cdf([[np.inf, 1.0]])),
]:
    try:
        call()
        raise SystemExit(f"unexpected: {name} did not raise")
    except ValueError:
        print(f"ok   {name}: rejected (ValueError)")

failures = []


def must_reject(label, call):
    try:
        res = call()
    except Exception as e:
        print(f"ok   {label}: rejected with {type(e).__name__}")
        return
    failures.append(label)
    print(f"FAIL {label}: returned {res!r}")


nan, inf = np.nan, np.inf
must_reject("marginal_pdf([nan], dim=0)", lambda: model.marginal_pdf(np.array([nan]), 0))
must_reject("marginal_pdf([inf], dim=0)", lambda: model.marginal_pdf(np.array([inf]), 0))
must_reject("marginal_cdf([nan], dim=0)", lambda: model.marginal_cdf(np.array([nan]), 0))
must_reject("marginal_cdf([inf], dim=0)", lambda: model.marginal_cdf(np.array([inf]), 0))
# conditional variable: the marginal cdf is an nquad integral with upper limit nan
must_reject("marginal_cdf([nan], dim=1)", lambda: model.marginal_cdf(np.array([nan]), 1))

assert not failures, f"non-finite evaluation points yielded results: {failures}"
