"""C18 defect 4: evaluation points of the wrong dimension (more columns than the model
has variables) are not rejected by GlobalHierarchicalModel.pdf / cdf; pdf even multiplies
UNINITIALISED memory (np.empty_like) into the returned density."""
import warnings
import numpy as np

warnings.simplefilter("ignore")
from virocon import (
    GlobalHierarchicalModel,
    WeibullDistribution,
    LogNormalDistribution,
    DependenceFunction,
)


def _mu(x, a=0.9, b=0.5):
    return a + b * np.log1p(x)


def _sigma(x, a=0.1, b=0.2):
    return a + b * np.exp(-0.3 * x)


model = GlobalHierarchicalModel(
    [
        {"distribution": WeibullDistribution(alpha=2.0, beta=1.5)},
        {
            "distribution": LogNormalDistribution(),
            "conditional_on": 0,
            "parameters": {"mu": DependenceFunction(_mu), "sigma": DependenceFunction(_sigma)},
        },
    ]
)
assert model.n_dim == 2

good = model.pdf([[1.0, 4.0]])
print("pdf of the well-formed 2-D point [1, 4]:", good)

# Too few columns is rejected (by accident, IndexError) ...
try:
    model.pdf([[1.0]])
    raise SystemExit("unexpected: 1-column point accepted")
except Exception as e:
    print(f"ok   1 column: rejected with {type(e).__name__}")

failures = []
# ... too many columns is not.
junk = np.full((200, 3), 1e300)  # leave recognisable garbage on the heap
del junk
for label, call in [
    ("pdf, 3 columns for a 2-D model", lambda: model.pdf(np.array([[1.0, 4.0, 7.0]] * 200))),
    ("cdf, 3 columns for a 2-D model", lambda: model.cdf([[1.0, 4.0, 7.0]])),
]:
    try:
        res = call()
    except Exception as e:
        print(f"ok   {label}: rejected with {type(e).__name__}")
        continue
    failures.append(label)
    res = np.asarray(res)
    print(f"FAIL {label}: returned values, e.g. {res[:3]} (min {res.min()}, max {res.max()})")

assert not failures, f"points of the wrong dimension were evaluated: {failures}"
