"""C18 defect 5: NumberOfIntervalsSlicer silently overrides an explicitly requested
min_n_intervals, so slicing that leaves fewer intervals than demanded is not rejected."""
import warnings
import numpy as np

warnings.simplefilter("ignore")
from virocon import (
    GlobalHierarchicalModel,
    WeibullDistribution,
    LogNormalDistribution,
    DependenceFunction,
    NumberOfIntervalsSlicer,
    WidthOfIntervalSlicer,
)

rng = np.random.default_rng(1)
x0 = 2.0 * rng.weibull(1.5, size=3000)
x1 = np.exp(0.9 + 0.5 * np.log1p(x0) + 0.2 * rng.standard_normal(3000))
data = np.column_stack([x0, x1])

# Reference: the sibling slicer honours min_n_intervals (documented: "Raises a
# RuntimeError if slicing resulted in fewer intervals").
try:
    WidthOfIntervalSlicer(width=x0.max() / 3 + 1e-9, min_n_intervals=5, min_n_points=1).slice_(x0)
    raise SystemExit("unexpected: WidthOfIntervalSlicer left <5 intervals without error")
except RuntimeError as e:
    print("ok   WidthOfIntervalSlicer, 3 of >=5 intervals: rejected:", e)

failures = []

# (a) the slicer on its own: at least 5 intervals demanded, only 3 can ever result
try:
    slicer = NumberOfIntervalsSlicer(n_intervals=3, min_n_intervals=5, min_n_points=1)
    slices, refs, bounds = slicer.slice_(x0)
    failures.append("slicer")
    print(
        f"FAIL NumberOfIntervalsSlicer(n_intervals=3, min_n_intervals=5): no exception, "
        f"{len(slices)} intervals returned, min_n_intervals silently became {slicer.min_n_intervals}"
    )
except Exception as e:
    print(f"ok   NumberOfIntervalsSlicer(3, min_n_intervals=5): rejected with {type(e).__name__}")


# (b) the same through a model fit
def _mu(x, a=1.0, b=1.0):
    return a + b * np.log1p(x)


def _sigma(x, a=0.1, b=0.1):
    return a + b * np.exp(-0.3 * x)


try:
    model = GlobalHierarchicalModel(
        [
            {
                "distribution": WeibullDistribution(f_gamma=0),
                "intervals": NumberOfIntervalsSlicer(
                    n_intervals=3, min_n_intervals=5, min_n_points=1
                ),
            },
            {
                "distribution": LogNormalDistribution(),
                "conditional_on": 0,
                "parameters": {
                    "mu": DependenceFunction(_mu),
                    "sigma": DependenceFunction(_sigma),
                },
            },
        ]
    )
    model.fit(data)
    n_int = len(model.distributions[1].data_intervals)
    failures.append("model fit")
    print(f"FAIL model.fit: fitted with {n_int} intervals although min_n_intervals=5 was demanded")
except Exception as e:
    print(f"ok   model with that slicer: rejected with {type(e).__name__}: {e}")

assert not failures, f"too few intervals were accepted: {failures}"
