"""C03 defect 3: with a supplied sample the number n of points to draw is irrelevant, yet
__init__ evaluates int(100 / alpha) unconditionally.  For alpha = 0 (tangent lines at the
maximum of every projection, i.e. no sample point beyond any edge) the constructor raises
ZeroDivisionError (OverflowError for numpy floats / denormal alpha) although the contour is
perfectly well defined: np.quantile(z, 1 - 0) is the maximum.  Passing any explicit n makes
the very same call succeed.
"""
import numpy as np

from virocon import DirectSamplingContour
from virocon import (GlobalHierarchicalModel, WeibullDistribution,
                     LogNormalDistribution, DependenceFunction)


def make_model():
    def _power3(x, a=0.1000, b=1.489, c=0.1901):
        return a + b * x**c

    def _exp3(x, a=0.0400, b=0.1748, c=-0.2243):
        return a + b * np.exp(c * x)

    bounds = [(0, None), (0, None), (None, None)]
    power3 = DependenceFunction(_power3, bounds)
    exp3 = DependenceFunction(_exp3, bounds)
    d0 = {"distribution": WeibullDistribution(alpha=2.776, beta=1.471, gamma=0.8888)}
    d1 = {"distribution": LogNormalDistribution(), "conditional_on": 0,
          "parameters": {"mu": power3, "sigma": exp3}}
    return GlobalHierarchicalModel([d0, d1])


def quantile_offset(sample, theta, alpha):
    """Empirical (1-alpha)-quantile of the sample projected on the unit normal at angle theta."""
    z = sample[:, 0] * np.cos(theta) + sample[:, 1] * np.sin(theta)
    return np.quantile(z, 1 - alpha)


def bad_edges(coords, sample, alpha, deg_step, tol=1e-7):
    """Return a list of (edge index, message) for every edge of the closed polygon
    ``coords`` that does NOT lie on a (1-alpha)-quantile tangent line of ``sample``.

    Edge j joins coords[j] and coords[(j+1) % len(coords)].  An edge is accepted
    if both its end points lie (within tol, relative) on the line
    {v : v.n(theta) = quantile(sample.n(theta), 1-alpha)} for one of the candidate
    normals theta: the normal derived from the edge itself (either orientation) or
    the normal the library documents for that edge (90 deg - j*deg_step).
    """
    coords = np.asarray(coords, dtype=float)
    m = len(coords)
    step = np.radians(deg_step)
    out = []
    for j in range(m):
        p, q = coords[j], coords[(j + 1) % m]
        cands = [0.5 * np.pi - j * step]
        d = q - p
        if np.all(np.isfinite(d)) and np.hypot(*d) > 1e-9:
            t = np.arctan2(d[0], -d[1])  # direction of (-dy, dx)
            cands += [t, t + np.pi]
        ok = False
        best = None
        for th in cands:
            nrm = np.array([np.cos(th), np.sin(th)])
            off = quantile_offset(sample, th, alpha)
            err = max(abs(p @ nrm - off), abs(q @ nrm - off)) / max(1.0, abs(off))
            if best is None or err < best[0]:
                z = sample @ nrm
                best = (err, np.degrees(th) % 360, off, float(np.mean(z > min(p @ nrm, q @ nrm))))
            if err < tol:
                ok = True
                break
        if not ok:
            out.append(
                (j, f"edge {j}: {p} -> {q}: closest candidate normal {best[1]:.3f} deg, "
                    f"quantile offset {best[2]:.6f}, misfit {best[0]:.3e}")
            )
    return out


def expected_vertex(sample, alpha, th1, th2):
    """Intersection of the quantile tangent lines with normals th1 and th2."""
    A = np.array([[np.cos(th1), np.sin(th1)], [np.cos(th2), np.sin(th2)]])
    b = [quantile_offset(sample, th1, alpha), quantile_offset(sample, th2, alpha)]
    return np.linalg.solve(A, b)



def main():
    model = make_model()
    sample = model.draw_sample(1000, random_state=1)
    deg = 6

    # explicit (unused) n: works, and the edges are the 1-quantile (= max) tangent lines
    c = DirectSamplingContour(model, 0.0, n=1, deg_step=deg, sample=sample)
    co = c.coordinates[:60]  # (drop the duplicated closing vertex, see defect 2)
    assert not bad_edges(co, sample, 0.0, deg), "alpha=0 contour with explicit n is wrong"
    print("alpha=0, sample supplied, n=1 given : fine, max Hs on contour",
          co[:, 0].max(), "sample max", sample[:, 0].max())

    for alpha in (0.0, np.float64(0.0), 1e-320):
        # same call without n -> must give the same contour
        c2 = DirectSamplingContour(model, alpha, deg_step=deg, sample=sample)
        np.testing.assert_allclose(c2.coordinates[:60], co, rtol=1e-9)
    print("OK")


if __name__ == "__main__":
    main()
