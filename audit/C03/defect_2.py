"""C03 defect 2: for some angular steps that divide 360 (1, 6, 24, 60, 0.3, 1.2, 1.5, 4.8 ...)
DirectSamplingContour returns 360/deg_step + 1 vertices: np.arange(start, stop, -step) with
float bounds yields one angle more than for the other steps, the tangent line at 90+deg_step
degrees is used twice and the last two vertices coincide.  The polygon therefore has one
edge too many (a zero-length edge whose direction is round-off noise), the normals do not
advance by exactly deg_step there, and the circle is covered by more than one turn.
deg_step=6 is the value used in virocon's own test, deg_step=1 the one used for And/OrContour.
"""
import numpy as np

from virocon import DirectSamplingContour
from virocon import (GlobalHierarchicalModel, WeibullDistribution,
                     LogNormalDistribution, DependenceFunction)


def make_model():
    def _power3(x, a=0.1000, b=1.489, c=0.1901):
        return a + b * x**c

    def _exp3(x, a=0.0400, b=0.1748, c=-0.2243):
        return a + b * np.exp(c * x)

    bounds = [(0, None), (0, None), (None, None)]
    power3 = DependenceFunction(_power3, bounds)
    exp3 = DependenceFunction(_exp3, bounds)
    d0 = {"distribution": WeibullDistribution(alpha=2.776, beta=1.471, gamma=0.8888)}
    d1 = {"distribution": LogNormalDistribution(), "conditional_on": 0,
          "parameters": {"mu": power3, "sigma": exp3}}
    return GlobalHierarchicalModel([d0, d1])



def main():
    model = make_model()
    alpha = 0.01
    sample = model.draw_sample(10000, random_state=1)
    failures = []
    for deg in (6, 1, 24, 60, 1.5, 5, 10):
        co = DirectSamplingContour(model, alpha, deg_step=deg, sample=sample).coordinates
        n_exp = round(360 / deg)
        m = len(co)
        # edge vectors of the closed polygon and the turn between successive edges
        d = np.roll(co, -1, axis=0) - co
        length = np.hypot(d[:, 0], d[:, 1])
        msg = []
        if m != n_exp:
            msg.append(f"{m} edges instead of 360/deg_step = {n_exp}")
        zero = np.where(length < 1e-9)[0]
        if len(zero):
            msg.append(f"zero-length edge(s) {zero.tolist()} (vertices {co[zero[0]]} and "
                       f"{co[(zero[0] + 1) % m]} coincide)")
        print(f"deg_step={deg}: " + ("; ".join(msg) if msg else f"{m} edges, fine"))
        if m != n_exp:
            failures.append((deg, m, n_exp))
    assert not failures, f"(deg_step, returned edges, 360/deg_step): {failures}"
    print("OK")


if __name__ == "__main__":
    main()
