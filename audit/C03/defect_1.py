"""C03 defect 1: the last vertex of DirectSamplingContour is the 'intersection' of a
tangent line with itself (0/0 round-off garbage), so the last two edges of the
polygon are not (1-alpha)-quantile tangent lines.  Happens with the DEFAULT
deg_step=5 (and 2, 3, 4, 8, 9, 10, 12, 15, 18, 20, 30, 45, 90, 0.5, 2.5, 7.5 ...).
"""
import numpy as np


from virocon import DirectSamplingContour
from virocon import (GlobalHierarchicalModel, WeibullDistribution,
                     LogNormalDistribution, DependenceFunction)


def make_model():
    def _power3(x, a=0.1000, b=1.489, c=0.1901):
        return a + b * x**c

    def _exp3(x, a=0.0400, b=0.1748, c=-0.2243):
        return a + b * np.exp(c * x)

    bounds = [(0, None), (0, None), (None, None)]
    power3 = DependenceFunction(_power3, bounds)
    exp3 = DependenceFunction(_exp3, bounds)
    d0 = {"distribution": WeibullDistribution(alpha=2.776, beta=1.471, gamma=0.8888)}
    d1 = {"distribution": LogNormalDistribution(), "conditional_on": 0,
          "parameters": {"mu": power3, "sigma": exp3}}
    return GlobalHierarchicalModel([d0, d1])


def quantile_offset(sample, theta, alpha):
    """Empirical (1-alpha)-quantile of the sample projected on the unit normal at angle theta."""
    z = sample[:, 0] * np.cos(theta) + sample[:, 1] * np.sin(theta)
    return np.quantile(z, 1 - alpha)


def bad_edges(coords, sample, alpha, deg_step, tol=1e-7):
    """Return a list of (edge index, message) for every edge of the closed polygon
    ``coords`` that does NOT lie on a (1-alpha)-quantile tangent line of ``sample``.

    Edge j joins coords[j] and coords[(j+1) % len(coords)].  An edge is accepted
    if both its end points lie (within tol, relative) on the line
    {v : v.n(theta) = quantile(sample.n(theta), 1-alpha)} for one of the candidate
    normals theta: the normal derived from the edge itself (either orientation) or
    the normal the library documents for that edge (90 deg - j*deg_step).
    """
    coords = np.asarray(coords, dtype=float)
    m = len(coords)
    step = np.radians(deg_step)
    out = []
    for j in range(m):
        p, q = coords[j], coords[(j + 1) % m]
        cands = [0.5 * np.pi - j * step]
        d = q - p
        if np.all(np.isfinite(d)) and np.hypot(*d) > 1e-9:
            t = np.arctan2(d[0], -d[1])  # direction of (-dy, dx)
            cands += [t, t + np.pi]
        ok = False
        best = None
        for th in cands:
            nrm = np.array([np.cos(th), np.sin(th)])
            off = quantile_offset(sample, th, alpha)
            err = max(abs(p @ nrm - off), abs(q @ nrm - off)) / max(1.0, abs(off))
            if best is None or err < best[0]:
                z = sample @ nrm
                best = (err, np.degrees(th) % 360, off, float(np.mean(z > min(p @ nrm, q @ nrm))))
            if err < tol:
                ok = True
                break
        if not ok:
            out.append(
                (j, f"edge {j}: {p} -> {q}: closest candidate normal {best[1]:.3f} deg, "
                    f"quantile offset {best[2]:.6f}, misfit {best[0]:.3e}")
            )
    return out


def expected_vertex(sample, alpha, th1, th2):
    """Intersection of the quantile tangent lines with normals th1 and th2."""
    A = np.array([[np.cos(th1), np.sin(th1)], [np.cos(th2), np.sin(th2)]])
    b = [quantile_offset(sample, th1, alpha), quantile_offset(sample, th2, alpha)]
    return np.linalg.solve(A, b)



def main():
    model = make_model()
    alpha = 0.01
    failures = []

    # (a) sample drawn from the model, default deg_step (=5)
    np.random.seed(0)
    c = DirectSamplingContour(model, alpha)
    assert c.sample.shape == (int(100 / alpha), 2)
    cases = [("model-drawn sample, default deg_step=5", c, 5)]

    # (b) supplied sample, several steps that divide 360
    sample = model.draw_sample(10000, random_state=1)
    for deg in (5, 10, 2, 30, 90):
        cases.append((f"supplied sample, deg_step={deg}",
                      DirectSamplingContour(model, alpha, deg_step=deg, sample=sample), deg))

    for label, cont, deg in cases:
        co = cont.coordinates
        n_exp = round(360 / deg)
        s = np.radians(deg)
        exp_last = expected_vertex(cont.sample, alpha, 0.5 * np.pi + 2 * s, 0.5 * np.pi + s)
        bad = bad_edges(co, cont.sample, alpha, deg)
        print(f"{label}: {len(co)} vertices (expected {n_exp}); "
              f"last vertex {co[-1]} ; tangent-line intersection would be {exp_last}")
        for _, msg in bad:
            print("   NOT a quantile tangent line ->", msg)
        if bad:
            failures.append((label, [j for j, _ in bad]))

    assert not failures, f"edges that are not (1-alpha)-quantile tangent lines: {failures}"
    print("OK")


if __name__ == "__main__":
    main()
