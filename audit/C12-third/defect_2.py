"""C12 - ExponentiatedWeibullDistribution: MLE started from user start values whose
scale is 10 times too large (e.g. re-fitting an object that was fitted to wind speeds
to wave heights) stops at a point that is not a maximum.

scipy's Nelder-Mead reports success on a degenerate ridge (beta -> large, delta -> 0);
the returned parameters have a log-likelihood several hundred below the generating
parameters.  Calling fit() once more on the same data repairs the estimate, i.e. the
first call did not converge.

Exit status: 0 if the property holds, 1 if it is violated.
"""
import sys
import warnings

import numpy as np

warnings.filterwarnings("ignore")

from virocon import ExponentiatedWeibullDistribution as EW  # noqa: E402


def loglik(dist, x):
    with np.errstate(all="ignore"):
        return float(np.sum(np.log(dist.pdf(x))))


failures = []

gen = EW(alpha=1, beta=3.07, delta=3.33)
y = gen.draw_sample(1000, random_state=3)  # median about 1.19
assert 0.05 < np.median(y) < 20
ll_gen = loglik(gen, y)

# --- A: explicit user start values (right shapes, scale 10 times too big) --
a = EW(alpha=10, beta=3.07, delta=3.33)
ll_start = loglik(a, y)
a.fit(y)
pa = {k: float(v) for k, v in a.parameters.items()}
ll_a = loglik(a, y)
print("A fitted:", pa)
print(f"A loglik start = {ll_start:.2f}  fitted = {ll_a:.2f}  generating = {ll_gen:.2f}")
if not all(np.isfinite(v) and v > 0 for v in pa.values()):
    failures.append(f"A: inadmissible estimate {pa}")
if ll_a < ll_gen - 1e-3:
    failures.append(f"A: likelihood lost: fitted {ll_a:.2f} < generating {ll_gen:.2f}")

# --- B: the same object fitted to wind-speed-like data first, then to y ----
x = EW(alpha=10, beta=3.07, delta=3.33).draw_sample(1000, random_state=103)  # median about 11.9
assert 0.05 < np.median(x) < 20
b = EW()
b.fit(x)
print("B first fit :", {k: float(v) for k, v in b.parameters.items()})
b.fit(y)
pb = {k: float(v) for k, v in b.parameters.items()}
ll_b = loglik(b, y)
fresh = EW()
fresh.fit(y)
print("B second fit:", pb)
print("fresh fit   :", {k: float(v) for k, v in fresh.parameters.items()})
print(f"B loglik re-fit = {ll_b:.2f}  fresh = {loglik(fresh, y):.2f}  generating = {ll_gen:.2f}")
if ll_b < ll_gen - 1e-3:
    failures.append(f"B: likelihood lost: re-fitted {ll_b:.2f} < generating {ll_gen:.2f}")

if failures:
    print("\nPROPERTY C12 VIOLATED:")
    for f in failures:
        print("  -", f)
    sys.exit(1)
print("property C12 holds")
sys.exit(0)
