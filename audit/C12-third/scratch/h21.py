import numpy as np, scipy.stats as sts
from scipy import optimize
x = 0.05*sts.weibull_min.rvs(2, size=100, random_state=1)
def opt(func, x0, args, disp):
    r = optimize.fmin(func, x0, args=args, disp=1, full_output=1)
    print(r[1:]); return r[0]
print(sts.weibull_min.fit(x, 2, loc=0, scale=20, floc=0, optimizer=opt))
print(sts.weibull_min.fit(x, 1, loc=0, scale=1, floc=0, optimizer=opt))
