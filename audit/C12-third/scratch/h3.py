import sys; sys.path.insert(0, "/tmp/w8_C12/_audit/scratch")
from h1 import *
for alpha in [0.05, 0.5, 1, 2, 10]:
    for beta in [0.8, 1, 1.5, 3]:
        for delta in [0.8, 1, 2, 5]:
            for n in [100, 1000, 5000]:
                check("EW", ExponentiatedWeibullDistribution, dict(alpha=alpha,beta=beta,delta=delta), n, 0)
print("EW done")
