import sys; sys.path.insert(0, "/tmp/w8_C12/_audit/scratch")
from h1 import *
worst = {}
def eq(cls, gen, kw, n, seed, c, scalepars, shapepars, label):
    g = cls(**gen); x = g.draw_sample(n, random_state=seed)
    d1 = cls(**kw); d1.fit(x); d2 = cls(**kw); d2.fit(c*x)
    p1, p2 = d1.parameters, d2.parameters
    dev = max([abs(p2[k]/(c*p1[k])-1) for k in scalepars] + [abs(p2[k]/p1[k]-1) for k in shapepars])
    # likelihood comparison on the original data
    l1 = ll(d1, x); l2 = ll(cls(**{**{k: (p2[k]/c if k in scalepars else p2[k]) for k in p2}}), x)
    if dev > worst.get(label,(0,))[0]: worst[label] = (dev, gen, n, seed, c, p1, p2, l1, l2)
for alpha in [0.05, 0.3, 1, 4, 20]:
    for beta in [0.8, 1.5, 3]:
        for n in [100, 1000, 5000]:
            for c in [0.0025, 0.05, 0.25, 4, 20, 400]:
                if not (0.05 <= alpha*c <= 20): continue
                eq(WeibullDistribution, dict(alpha=alpha,beta=beta,gamma=0), dict(f_gamma=0), n, 0, c, ["alpha"], ["beta"], "W2")
                for delta in [0.8, 2, 5]:
                    eq(ExponentiatedWeibullDistribution, dict(alpha=alpha,beta=beta,delta=delta), {}, n, 0, c, ["alpha"], ["beta","delta"], "EW")
                    eq(ExponentiatedWeibullDistribution, dict(alpha=alpha,beta=beta,delta=delta), dict(f_delta=delta), n, 0, c, ["alpha"], ["beta"], "EWfd")
for k,v in worst.items(): print(k, v)
