import numpy as np, scipy.stats as sts
from scipy import optimize
from virocon.distributions import WeibullDistribution
g = WeibullDistribution(20, 2, 0)
x = g.draw_sample(100, random_state=0); y = g.draw_sample(100, random_state=1)/400
d = WeibullDistribution(f_gamma=0); d.fit(x); print(d.parameters)
def opt(func, x0, args, disp):
    r = optimize.fmin(func, x0, args=args, disp=1, full_output=1)
    print(x0, r[1:]); return r[0]
print(sts.weibull_min.fit(y, d.beta, loc=d.gamma, scale=d.alpha, floc=0, optimizer=opt))
d.fit(y); print(d.parameters)
