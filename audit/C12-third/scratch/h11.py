import sys; sys.path.insert(0, "/tmp/w8_C12/_audit/scratch")
from h1 import *
neg=0; tot=0; below=0
for m in [0.8, 1, 1.5, 2, 3, 5]:
    for c_ in [0.8, 1, 1.5, 2, 3, 4]:
        for lam in [0.05, 0.1, 0.5, 1, 5, 20]:
            for n in [100, 1000]:
              for seed in [0,1]:
                g = GeneralizedGammaDistribution(m,c_,lam); x = g.draw_sample(n, random_state=seed)
                if np.median(x) < 0.05 or np.median(x) > 20: continue
                d = GeneralizedGammaDistribution(); d.fit(x); tot+=1
                lf, ls, lg = ll(d,x), ll(GeneralizedGammaDistribution(),x), ll(g,x)
                if lf < lg - 1e-3: below+=1
                if d.c <= 0 or lf < ls:
                    neg+=1
                    print(m,c_,lam,n,seed,{k: float(v) for k,v in d.parameters.items()}, lf, ls, lg)
print(neg, below, tot)
