import sys; sys.path.insert(0, "/tmp/w8_C12/_audit/scratch")
from h1 import *
rng = np.random.default_rng(21)
stat={}
for spread in [2, 5, 10]:
  for it in range(80):
    alpha = float(np.exp(rng.uniform(np.log(0.1), np.log(10)))); beta = float(rng.uniform(0.8, 4)); delta=float(rng.uniform(0.8,5))
    n = int(rng.choice([100,1000]))
    f = lambda: float(np.exp(rng.uniform(-np.log(spread), np.log(spread))))
    for label, cls, gen, kw in [
        ("W2", WeibullDistribution, dict(alpha=alpha,beta=beta,gamma=0), dict(alpha=alpha*f(), beta=beta*f(), f_gamma=0)),
        ("EW", ExponentiatedWeibullDistribution, dict(alpha=alpha,beta=beta,delta=delta), dict(alpha=alpha*f(), beta=beta*f(), delta=delta*f())),
        ("GG", GeneralizedGammaDistribution, dict(m=delta,c=beta,lambda_=1/alpha), dict(m=delta*f(),c=beta*f(),lambda_=f()/alpha)),
        ]:
        g = cls(**gen); x = g.draw_sample(n, random_state=it)
        if not (0.05 <= np.median(x) <= 20): continue
        d = cls(**kw)
        try: d.fit(x)
        except Exception as e:
            print(label, spread, gen, kw, "EXC", e); continue
        lf, ls, lg = ll(d,x), ll(cls(**kw),x), ll(g,x)
        k=(label,spread); s=stat.setdefault(k,[0,0,0]); s[0]+=1
        if lf < lg-1e-3:
            s[1]+=1
            if label=="GG" and d.c<0: s[2]+=1
            if spread==2: print(label, gen, kw, n, it, {k: round(float(v),4) for k,v in d.parameters.items()}, lf, ls, lg)
print(stat)
