import sys; sys.path.insert(0, "/tmp/w8_C12/_audit/scratch")
from h1 import *
rng = np.random.default_rng(11)
for it in range(300):
    alpha = float(np.exp(rng.uniform(np.log(0.05), np.log(20)))); beta = float(rng.uniform(0.8, 6)); delta=float(rng.uniform(0.8,6))
    n = int(rng.choice([100,300,2000]))
    check("W2", WeibullDistribution, dict(alpha=alpha,beta=beta,gamma=0), n, it, kw=dict(f_gamma=0))
    g = ExponentiatedWeibullDistribution(alpha,beta,delta); x = g.draw_sample(n, random_state=it)
    if 0.05 <= np.median(x) <= 20:
        check("EW", ExponentiatedWeibullDistribution, dict(alpha=alpha,beta=beta,delta=delta), n, it)
        check("EWfd", ExponentiatedWeibullDistribution, dict(alpha=alpha,beta=beta,delta=delta), n, it, kw=dict(f_delta=delta))
print("done")
