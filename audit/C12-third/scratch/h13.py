import sys; sys.path.insert(0, "/tmp/w8_C12/_audit/scratch")
from h1 import *
rng = np.random.default_rng(5)
for it in range(60):
    alpha = float(np.exp(rng.uniform(np.log(0.05), np.log(20)))); beta = float(rng.uniform(0.8, 5))
    sa = alpha*float(np.exp(rng.normal(0,0.7))); sb = beta*float(np.exp(rng.normal(0,0.5)))
    n = int(rng.choice([100,1000,5000]))
    gamma = float(rng.uniform(0, alpha))
    delta = float(rng.uniform(0.8, 5)); sd = delta*float(np.exp(rng.normal(0,0.5)))
    m = float(rng.uniform(0.8,5)); sm = m*float(np.exp(rng.normal(0,0.5)))
    if it in (11,56):
        gen=dict(m=m,c=beta,lambda_=1/alpha); kw=dict(m=sm,c=sb,lambda_=1/sa)
        g=GeneralizedGammaDistribution(**gen); x=g.draw_sample(n, random_state=it)
        d=GeneralizedGammaDistribution(**kw); d.fit(x)
        print(it, n, "gen",gen,"start",kw,"fit",d.parameters, ll(d,x), ll(GeneralizedGammaDistribution(**kw),x), ll(g,x), x.min(), np.median(x), x.max())
