import sys; sys.path.insert(0, "/tmp/w8_C12/_audit/scratch")
sys.argv=[sys.argv[0]]
from h1 import *
import scipy.stats as sts
def mk(name):
    return type(name.capitalize()+"D", (ScipyDistribution,), {"scipy_dist_name": name})
cases = {
 "gamma": dict(a=2, loc=0, scale=1.5),
 "gumbel_r": dict(loc=5, scale=1.2),
 "rayleigh": dict(loc=0, scale=2),
 "expon": dict(loc=0, scale=2),
 "norm": dict(loc=5, scale=1.2),
 "lognorm": dict(s=0.4, loc=0, scale=2),
 "weibull_min": dict(c=1.5, loc=0, scale=2),
 "logistic": dict(loc=5, scale=1.2),
 "invgauss": dict(mu=1.2, loc=0, scale=1.5),
 "genpareto": dict(c=0.1, loc=0, scale=1.5),
 "pareto": dict(b=3, loc=0, scale=1.5),
 "beta": dict(a=2,b=3, loc=0, scale=1),
 "exponweib": dict(a=2,c=1.5, loc=0, scale=2),
 "gengamma": dict(a=2,c=1.5, loc=0, scale=2),
 "laplace": dict(loc=5, scale=1.2),
 "halfnorm": dict(loc=0, scale=2),
 "nakagami": dict(nu=1.5, loc=0, scale=2),
 "fisk": dict(c=3, loc=0, scale=2),
 "genextreme": dict(c=0.1, loc=5, scale=1.2),
 "vonmises": dict(kappa=2, loc=1, scale=1),
 "powerlaw": dict(a=2, loc=0, scale=3),
 "uniform": dict(loc=1, scale=3),
}
import itertools
for name, g in cases.items():
    cls = mk(name)
    names = list(g)
    for r in range(1, len(names)):
        for fx in itertools.combinations(names, r):
            kw = {f"f_{k}": g[k] for k in fx}
            # start at truth for the free ones (user start values)
            kw2 = dict(kw); kw2.update({k: g[k] for k in names if k not in fx})
            check(f"S:{name}/fix{fx}/truthstart", cls, g, 1000, 0, kw=kw2)
    check(f"S:{name}/truthstart", cls, g, 1000, 0, kw=dict(g))
    print(name, "done", flush=True)
