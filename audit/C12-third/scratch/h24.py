import sys; sys.path.insert(0, "/tmp/w8_C12/_audit/scratch")
from h1 import *
rng = np.random.default_rng(3)
stat = {}
for it in range(400):
    alpha = float(np.exp(rng.uniform(np.log(0.05), np.log(20)))); beta = float(rng.uniform(0.8, 6)); 
    gamma = float(rng.choice([0, rng.uniform(0, 2*alpha)]))
    m = float(rng.uniform(0.8,6))
    n = int(rng.choice([100,1000,5000]))
    for label, cls, gen in [("W3", WeibullDistribution, dict(alpha=alpha,beta=beta,gamma=gamma)),
                            ("GG", GeneralizedGammaDistribution, dict(m=m,c=beta,lambda_=1/alpha))]:
        g = cls(**gen); x = g.draw_sample(n, random_state=it)
        if not (0.05 <= np.median(x) <= 20): continue
        d = cls()
        try:
            d.fit(x)
        except Exception as e:
            print(label, gen, n, it, "EXC", type(e).__name__, e); stat[label+"exc"]=stat.get(label+"exc",0)+1; continue
        lf, ls, lg = ll(d,x), ll(cls(),x), ll(g,x)
        p = d.parameters
        key = None
        if not all(np.isfinite(list(p.values()))): key="nonfinite"
        elif lf < ls - 1e-6: key="belowstart"
        elif label=="GG" and p["c"]<=0: key="negc"
        elif lf < lg - 1e-3: key="belowgen"
        if key:
            stat[label+key]=stat.get(label+key,0)+1
            if key!="belowgen": print(label, key, gen, n, it, {k: float(v) for k,v in p.items()}, lf, ls, lg)
print(stat)
