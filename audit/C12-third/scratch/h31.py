import numpy as np
from virocon.distributions import ExponentiatedWeibullDistribution as EW
rng=np.random.default_rng(0)
L=lambda q,y: np.sum(np.log(q.pdf(y)))
for ratio in [5, 10, 20]:
    bad=0; N=100
    for i in range(N):
        a = float(rng.choice([0.5,1,2])); beta=float(np.round(rng.uniform(0.8,4),2)); delta=float(np.round(rng.uniform(0.8,4),2))
        y = EW(a,beta,delta).draw_sample(1000, random_state=i)
        s = dict(alpha=a*ratio, beta=beta, delta=delta)
        d = EW(**s); d.fit(y)
        if L(d,y) < L(EW(a,beta,delta),y)-1e-3:
            bad+=1
            d2 = EW(**d.parameters); d2.fit(y)
            if bad<=4: print(ratio, i, (a,beta,delta), s, {k: round(float(v),4) for k,v in d.parameters.items()}, L(d,y), L(EW(a,beta,delta),y), "again:", L(d2,y))
    print(ratio, bad, N)
