import sys; sys.path.insert(0, "/tmp/w8_C12/_audit/scratch")
from h1 import *
rng = np.random.default_rng(7)
cnt=0
for it in range(150):
    m = float(rng.uniform(0.8,5)); c_ = float(rng.uniform(0.8,4)); lam = float(np.exp(rng.uniform(np.log(0.05), np.log(5))))
    n = int(rng.choice([100,1000,5000]))
    g = GeneralizedGammaDistribution(m,c_,lam); x = g.draw_sample(n, random_state=it)
    if np.median(x) < 0.05 or np.median(x) > 20: continue
    for f in [1.0, 1.3, 0.7]:
        kw = dict(m=m*f, c=c_/f, lambda_=lam*f)
        d = GeneralizedGammaDistribution(**kw); d.fit(x)
        lf, ls, lg = ll(d,x), ll(GeneralizedGammaDistribution(**kw),x), ll(g,x)
        if d.c <= 0 or lf < ls - 1e-6 or lf < lg - 1e-3:
            cnt+=1
            print(f, dict(m=m,c=c_,lambda_=lam), n, it, {k: float(v) for k,v in d.parameters.items()}, lf, ls, lg)
print(cnt)
