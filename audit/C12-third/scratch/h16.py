import sys; sys.path.insert(0, "/tmp/w8_C12/_audit/scratch")
from h1 import *
for alpha in [0.02, 0.05, 5, 20]:
    for beta in [0.8, 2, 5]:
        for delta in [0.8, 3, 10]:
            for n in [100, 5000]:
              for seed in [1,2]:
                g = ExponentiatedWeibullDistribution(alpha,beta,delta); x = g.draw_sample(n, random_state=seed)
                if not (0.05 <= np.median(x) <= 20): continue
                check("EW", ExponentiatedWeibullDistribution, dict(alpha=alpha,beta=beta,delta=delta), n, seed)
print("EW done")
