import sys; sys.path.insert(0, "/tmp/w8_C12/_audit/scratch")
from h1 import *
import pandas as pd
def run(cls, gen, kw, n, seed, conv, label):
    g = cls(**gen); x = g.draw_sample(n, random_state=seed)
    d = cls(**kw); d.fit(x)
    d2 = cls(**kw)
    try:
        d2.fit(conv(x))
    except Exception as e:
        print(label, cls.__name__, gen, "EXC", type(e).__name__, e); return
    x64 = np.asarray(conv(x), dtype=float).ravel()
    l1, l2, ls, lg = ll(d, x64), ll(d2, x64), ll(cls(**kw), x64), ll(g, x64)
    bad = not (l2 >= ls - 1e-6) or not (l2 >= lg - 1e-2) or not all(np.isfinite(list(d2.parameters.values())))
    if bad or abs(l1-l2) > 1e-2:
        print(label, cls.__name__, gen, n, "ref", d.parameters, "got", d2.parameters, l1, l2, ls, lg)
convs = {"f32": lambda x: x.astype(np.float32), "list": list, "series": lambda x: pd.Series(x, index=np.arange(len(x))[::-1]),
         "col": lambda x: x.reshape(-1,1), "f16": lambda x: x.astype(np.float16)}
fams = [
 (WeibullDistribution, dict(alpha=2.5, beta=1.5, gamma=0), dict(f_gamma=0)),
 (WeibullDistribution, dict(alpha=10, beta=2, gamma=0), dict(f_gamma=0)),
 (WeibullDistribution, dict(alpha=0.1, beta=2, gamma=0), dict(f_gamma=0)),
 (LogNormalDistribution, dict(mu=1, sigma=0.3), {}),
 (LogNormalDistribution, dict(mu=-2, sigma=0.3), {}),
 (NormalDistribution, dict(mu=10, sigma=0.3), {}),
 (ExponentiatedWeibullDistribution, dict(alpha=2, beta=1.5, delta=2), {}),
 (ExponentiatedWeibullDistribution, dict(alpha=10, beta=1.5, delta=2), {}),
 (VonMisesDistribution, dict(kappa=2, mu=1), {}),
 (GeneralizedGammaDistribution, dict(m=2, c=1.5, lambda_=0.5), {}),
 (LogNormalNormFitDistribution, dict(mu_norm=2, sigma_norm=0.5), {}),
]
for cls, gen, kw in fams:
    for n in [100, 5000]:
        for lab, conv in convs.items():
            run(cls, gen, kw, n, 0, conv, lab)
print("done")
