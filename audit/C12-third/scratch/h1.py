import numpy as np, warnings, itertools
warnings.filterwarnings("ignore")
import virocon
from virocon.distributions import *
from virocon.distributions import LogNormalNormFitDistribution
assert virocon.__file__.startswith("/tmp/w8_C12")

def ll(d, x, **p):
    with np.errstate(all="ignore"):
        return np.sum(np.log(d.pdf(x, **p)))

def check(name, cls, gen, n, seed, c=None, kw=None, scalepars=(), logpars=(), shapepars=()):
    kw = kw or {}
    g = cls(**gen)
    x = g.draw_sample(n, random_state=seed)
    d = cls(**kw)
    start = dict(d.parameters)
    try:
        d.fit(x)
    except Exception as e:
        print(name, gen, n, seed, "EXC", type(e).__name__, e); return
    p = d.parameters
    l_fit = ll(d, x); l_start = ll(cls(**kw), x); l_gen = ll(g, x)
    msg = []
    if not all(np.isfinite(list(p.values()))): msg.append("nonfinite")
    if not l_fit >= l_start - 1e-6*abs(l_start) - 1e-6 and np.isfinite(l_start): msg.append(f"below start {l_fit:.4f}<{l_start:.4f}")
    if not l_fit >= l_gen - 1e-3: msg.append(f"below gen {l_fit:.4f}<{l_gen:.4f}")
    if c is not None:
        d2 = cls(**kw); d2.fit(c*x); p2 = d2.parameters
        for k in scalepars:
            if abs(p2[k]/(c*p[k]) - 1) > 1e-2: msg.append(f"scale {k}: {p2[k]} vs {c*p[k]}")
        for k in logpars:
            if abs(p2[k]-p[k]-np.log(c)) > 1e-2: msg.append(f"log {k}: {p2[k]} vs {p[k]+np.log(c)}")
        for k in shapepars:
            if abs(p2[k]/p[k] - 1) > 1e-2: msg.append(f"shape {k}: {p2[k]} vs {p[k]}")
    if msg:
        print(name, gen, "n",n, "seed",seed, "c",c, "fit", {k: float(v) for k,v in p.items()}, msg)

if __name__ == "__main__":
    # Weibull 2p
    for alpha in [0.05, 0.2, 1, 3, 10, 20]:
        for beta in [0.8, 1, 1.5, 2.5, 5, 10]:
            for n in [100, 1000, 5000]:
                for seed in [0,1]:
                    for c in [None]:
                        check("W2", WeibullDistribution, dict(alpha=alpha,beta=beta,gamma=0), n, seed, kw=dict(f_gamma=0))
    print("W2 done")
    for mu in [-3, -1, 0, 1, 3]:
        for sigma in [0.05, 0.3, 1, 2]:
            for n in [100, 5000]:
                check("LN", LogNormalDistribution, dict(mu=mu, sigma=sigma), n, 0, c=3 if mu<1 else 0.1, logpars=["mu"], shapepars=["sigma"])
    print("LN done")
    for mu in [-3, 0, 0.05, 5, 20]:
        for sigma in [0.05, 1, 5]:
            for n in [100, 5000]:
                check("N", NormalDistribution, dict(mu=mu, sigma=sigma), n, 0, c=3, scalepars=["mu","sigma"])
    print("N done")
    for kappa in [0.1, 1, 5, 50]:
        for mu in [-3, 0, 1, 3, 5]:
            for n in [100, 5000]:
                check("VM", VonMisesDistribution, dict(kappa=kappa, mu=mu), n, 0)
    print("VM done")
