import numpy as np
from virocon.distributions import WeibullDistribution as W
g = W(20, 2, 0); y = g.draw_sample(100, random_state=1)/400
L=lambda q: np.sum(np.log(q.pdf(y)))
for s in [(19.04,1.939),(19.038858431267563,1.9390897917989067),(19,1.94),(20,2)]:
    d = W(alpha=s[0], beta=s[1], f_gamma=0); d.fit(y); print(s, d.parameters, L(d))
