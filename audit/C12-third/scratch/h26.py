import numpy as np, scipy.stats as sts
from scipy.stats._continuous_distns import gengamma_gen
class pos(gengamma_gen):
    def _argcheck(self, a, c): return (a > 0) & (c > 0)
gp = pos(a=0.0, name="gengamma")
for (m,c,lam) in [(5,4,5),(6,2.5,8),(5,5,12),(8,4,5)]:
    x = sts.gengamma.rvs(m, c, 0, 1/lam, size=1000, random_state=0)
    r1 = sts.gengamma.fit(x, 1, 1, scale=1, floc=0, f0=m)
    r2 = gp.fit(x, 1, 1, scale=1, floc=0, f0=m)
    L = lambda r: np.sum(sts.gengamma.logpdf(x, *r))
    print((m,c,lam), r1, L(r1), r2, L(r2), L((m,c,0,1/lam)))
