import scipy.stats as sts, runpy, types
g = sts.gengamma
g._argcheck = types.MethodType(lambda self, a, c: (a > 0) & (c > 0), g)
runpy.run_path("/tmp/w8_C12/_audit/defect_1.py", run_name="__main__")
