import numpy as np
from virocon.distributions import ExponentiatedWeibullDistribution as EW, WeibullDistribution as W
rng=np.random.default_rng(0)
L=lambda q,y: np.sum(np.log(q.pdf(y)))
for ratio in [20, 50, 100, 200, 400]:
    badW=badE=0; N=40
    for i in range(N):
        a = 20/ratio; beta=rng.uniform(0.8,4); delta=rng.uniform(0.8,4)
        y = W(a,beta,0).draw_sample(1000, random_state=i)
        d = W(alpha=20*rng.uniform(0.8,1.2), beta=beta*rng.uniform(0.8,1.2), f_gamma=0); d.fit(y)
        if L(d,y) < L(W(a,beta,0),y)-1e-3: badW+=1
        y = EW(a,beta,delta).draw_sample(1000, random_state=i)
        d = EW(alpha=20*rng.uniform(0.8,1.2), beta=beta*rng.uniform(0.8,1.2), delta=delta*rng.uniform(0.8,1.2)); d.fit(y)
        if L(d,y) < L(EW(a,beta,delta),y)-1e-3: badE+=1
    print(ratio, "W2 bad", badW, "EW bad", badE, "of", N)
