import sys; sys.path.insert(0, "/tmp/w8_C12/_audit/scratch")
from h1 import *
for kappa in [0.1, 1, 5, 50]:
    for mu in [-3, 0, 1, 3, 5]:
        for n in [100, 5000]:
            check("VMfk", VonMisesDistribution, dict(kappa=kappa, mu=mu), n, 0, kw=dict(f_kappa=kappa))
            check("VMfm", VonMisesDistribution, dict(kappa=kappa, mu=mu), n, 0, kw=dict(f_mu=mu))
            check("VMfm2", VonMisesDistribution, dict(kappa=kappa, mu=mu), n, 0, kw=dict(f_mu=mu+2.5))
            check("VMfk2", VonMisesDistribution, dict(kappa=kappa, mu=mu), n, 0, kw=dict(f_kappa=2))
for mu in [-3, 0, 3]:
    for sigma in [0.05, 0.5, 2]:
        for n in [100, 5000]:
            check("LNfm", LogNormalDistribution, dict(mu=mu, sigma=sigma), n, 0, kw=dict(f_mu=mu))
            check("LNfm2", LogNormalDistribution, dict(mu=mu, sigma=sigma), n, 0, kw=dict(f_mu=mu+0.5))
            check("LNfs", LogNormalDistribution, dict(mu=mu, sigma=sigma), n, 0, kw=dict(f_sigma=sigma), c=2, logpars=["mu"])
            check("LNfs2", LogNormalDistribution, dict(mu=mu, sigma=sigma), n, 0, kw=dict(f_sigma=sigma*1.5))
            check("LNus", LogNormalDistribution, dict(mu=mu, sigma=sigma), n, 0, kw=dict(mu=2, sigma=3))
            check("Nfm", NormalDistribution, dict(mu=mu, sigma=sigma), n, 0, kw=dict(f_mu=mu+0.1))
            check("Nfs", NormalDistribution, dict(mu=mu, sigma=sigma), n, 0, kw=dict(f_sigma=sigma*1.3))
print("done")
