import sys; sys.path.insert(0, "/tmp/w8_C12/_audit/scratch")
from h1 import *
for m in [0.8, 1, 2, 5]:
    for c_ in [0.8, 1, 2, 4]:
        for lam in [0.1, 0.5, 1, 5]:
            g=dict(m=m,c=c_,lambda_=lam)
            for fx in [(),("m",),("c",),("lambda_",),("m","c"),("m","lambda_"),("c","lambda_")]:
                check("GG"+"".join(fx), GeneralizedGammaDistribution, g, 1000, 0, kw={f"f_{k}":g[k] for k in fx})
print("GG done")
