import sys; sys.path.insert(0, "/tmp/w8_C12/_audit/scratch")
from h1 import *
# weibull 2p scale equivariance
for alpha in [0.05, 0.2, 1, 3]:
    for beta in [0.8, 1.5, 5]:
        for n in [100, 5000]:
            check("W2s", WeibullDistribution, dict(alpha=alpha,beta=beta,gamma=0), n, 0, c=5, kw=dict(f_gamma=0), scalepars=["alpha"], shapepars=["beta"])
            check("W2s", WeibullDistribution, dict(alpha=alpha,beta=beta,gamma=0), n, 0, c=1/5 if alpha>=1 else 50, kw=dict(f_gamma=0), scalepars=["alpha"], shapepars=["beta"])
print("W2s done")
# weibull with fixed beta / alpha, 3p
for alpha in [0.2, 1, 3, 10]:
    for beta in [0.8, 1.5, 5]:
        for gamma in [0, 0.5, 2]:
            check("Wfb", WeibullDistribution, dict(alpha=alpha,beta=beta,gamma=gamma), 1000, 0, kw=dict(f_beta=beta))
            check("Wfa", WeibullDistribution, dict(alpha=alpha,beta=beta,gamma=gamma), 1000, 0, kw=dict(f_alpha=alpha))
            check("Wfab", WeibullDistribution, dict(alpha=alpha,beta=beta,gamma=gamma), 1000, 0, kw=dict(f_alpha=alpha, f_beta=beta))
            check("Wfgb", WeibullDistribution, dict(alpha=alpha,beta=beta,gamma=gamma), 1000, 0, kw=dict(f_gamma=gamma, f_beta=beta))
            check("Wfga", WeibullDistribution, dict(alpha=alpha,beta=beta,gamma=gamma), 1000, 0, kw=dict(f_gamma=gamma, f_alpha=alpha))
print("Wf done")
