import sys; sys.path.insert(0, "/tmp/w8_C12/_audit/scratch")
from h1 import *
cnt=0
for alpha in [0.2, 1, 2.5, 10]:
    for beta in [0.8, 1.2, 2, 4]:
        for gamma in [0, 0.3, 2]:
            for n in [100, 1000]:
              for seed in range(3):
                g = WeibullDistribution(alpha,beta,gamma)
                x = g.draw_sample(n, random_state=seed)
                d = WeibullDistribution(); d.fit(x)
                lf, ls, lg = ll(d,x), ll(WeibullDistribution(),x), ll(g,x)
                if not lf >= ls - 1e-6 or d.gamma >= x.min() or not np.isfinite(lf):
                    print(alpha,beta,gamma,n,seed,d.parameters,lf,ls,lg, x.min())
