import sys; sys.path.insert(0, "/tmp/w8_C12/_audit/scratch")
from h1 import *
import scipy.stats as sts
def mk(name):
    return type(name.capitalize()+"D", (ScipyDistribution,), {"scipy_dist_name": name})
cases = {
 "gamma": [dict(a=a, loc=0, scale=s) for a in [0.8,2,5] for s in [0.05,1,5]],
 "gumbel_r": [dict(loc=l, scale=s) for l in [0.5,5,15] for s in [0.1,1,3]],
 "gumbel_l": [dict(loc=l, scale=s) for l in [0.5,5,15] for s in [0.1,1,3]],
 "rayleigh": [dict(loc=0, scale=s) for s in [0.05,1,10]],
 "expon": [dict(loc=0, scale=s) for s in [0.05,1,10]],
 "norm": [dict(loc=l, scale=s) for l in [0.5,5,15] for s in [0.1,1,3]],
 "lognorm": [dict(s=s, loc=0, scale=sc) for s in [0.2,1] for sc in [0.1,1,10]],
 "weibull_min": [dict(c=c, loc=0, scale=sc) for c in [0.8,1.5,3] for sc in [0.1,1,10]],
 "logistic": [dict(loc=l, scale=s) for l in [0.5,5,15] for s in [0.1,1,3]],
 "invgauss": [dict(mu=m, loc=0, scale=s) for m in [0.5,1,3] for s in [0.1,1,5]],
 "genpareto": [dict(c=c, loc=0, scale=s) for c in [-0.2,0.1,0.3] for s in [0.1,1,5]],
 "pareto": [dict(b=b, loc=0, scale=s) for b in [1.5,3,8] for s in [0.1,1,5]],
 "beta": [dict(a=a,b=b, loc=0, scale=s) for a in [2,5] for b in [2,5] for s in [1,10]],
 "exponweib": [dict(a=a,c=c, loc=0, scale=s) for a in [1,3] for c in [1,2] for s in [0.1,1,5]],
 "gengamma": [dict(a=a,c=c, loc=0, scale=s) for a in [1,3] for c in [1,2] for s in [0.1,1,5]],
 "t": [dict(df=df, loc=l, scale=s) for df in [3,10] for l in [1,10] for s in [0.1,2]],
 "laplace": [dict(loc=l, scale=s) for l in [0.5,5,15] for s in [0.1,1,3]],
 "halfnorm": [dict(loc=0, scale=s) for s in [0.05,1,10]],
 "maxwell": [dict(loc=0, scale=s) for s in [0.05,1,10]],
 "nakagami": [dict(nu=nu, loc=0, scale=s) for nu in [0.8,2] for s in [0.1,1,10]],
 "rice": [dict(b=b, loc=0, scale=s) for b in [0.5,2] for s in [0.1,1,5]],
 "fisk": [dict(c=c, loc=0, scale=s) for c in [2,5] for s in [0.1,1,5]],
 "burr12": [dict(c=c, d=d, loc=0, scale=s) for c in [2,5] for d in [1,3] for s in [0.1,1,5]],
 "vonmises": [dict(kappa=k, loc=l, scale=1) for k in [0.5,3] for l in [0,2]],
 "skewnorm": [dict(a=a, loc=l, scale=s) for a in [-2,3] for l in [1,10] for s in [0.3,2]],
 "uniform": [dict(loc=l, scale=s) for l in [0,3] for s in [0.5,10]],
}
only = sys.argv[1:] or cases
for name in only:
    cls = mk(name)
    for g in cases[name]:
        for n in [100, 2000]:
            check("S:"+name, cls, g, n, 0)
            # with loc fixed at the true value
            check("S:"+name+"/floc", cls, g, n, 0, kw=dict(f_loc=g["loc"]))
    print(name, "done", flush=True)
