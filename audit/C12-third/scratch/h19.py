import sys; sys.path.insert(0, "/tmp/w8_C12/_audit/scratch")
from h1 import *
tot=0; bad=0
for m in [3, 4, 5, 6]:
    for c_ in [2.5, 3, 3.5, 4, 5]:
        for lam in [2, 3, 5, 8, 12]:
            for seed in [0,1,2]:
                gen=dict(m=m,c=c_,lambda_=lam); n=1000
                g = GeneralizedGammaDistribution(**gen); x = g.draw_sample(n, random_state=seed)
                if np.median(x) < 0.05 or np.median(x) > 20: continue
                d = GeneralizedGammaDistribution(f_m=m); d.fit(x); tot+=1
                lf, lg = ll(d,x), ll(g,x)
                if d.c <= 0 or lf < lg-1e-3:
                    bad+=1; print(gen, seed, {k: float(v) for k,v in d.parameters.items()}, lf, lg, float(np.median(x)))
print(bad, tot)
