import sys; sys.path.insert(0, "/tmp/w8_C12/_audit/scratch")
from h1 import *
for alpha in [0.05, 0.5, 2]:
    for beta in [0.8, 1.5, 3]:
        for delta in [0.8, 2, 5]:
            for n in [100, 5000]:
                for c in [4, 0.1 if alpha>=0.5 else 100]:
                    check("EWs", ExponentiatedWeibullDistribution, dict(alpha=alpha,beta=beta,delta=delta), n, 0, c=c, scalepars=["alpha"], shapepars=["beta","delta"])
print("EWs done")
for alpha in [0.05, 0.5, 2, 10]:
    for beta in [0.8, 1.5, 3]:
        for delta in [0.8, 2, 5]:
            g=dict(alpha=alpha,beta=beta,delta=delta)
            for fx in [("alpha",),("beta",),("delta",),("alpha","beta"),("alpha","delta"),("beta","delta")]:
                check("EWf"+"".join(fx), ExponentiatedWeibullDistribution, g, 1000, 0, kw={f"f_{k}":g[k] for k in fx})
print("EWf done")
