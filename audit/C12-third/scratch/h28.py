import numpy as np, scipy.stats as sts
from scipy import optimize
from virocon.distributions import ExponentiatedWeibullDistribution as EW, WeibullDistribution as W
g = EW(5, 1.5, 2); x = g.draw_sample(5000, random_state=0)
def opt(func, x0, args, disp):
    r = optimize.fmin(func, x0, args=args, disp=1, full_output=1)
    print(x0, r[1:]); return r[0]
d = EW(); d.fit(x); print(d.parameters)
print(sts.exponweib.fit(0.01*x, d.delta, d.beta, scale=d.alpha, floc=0, optimizer=opt))
for c in [0.5, 0.2, 0.1, 0.05, 0.03, 0.02, 0.01]:
    d = EW(); d.fit(x); d.fit(c*x); f=EW(); f.fit(c*x)
    L=lambda q: np.sum(np.log(q.pdf(c*x)))
    print(c, {k: round(float(v),4) for k,v in d.parameters.items()}, L(d), L(f))
