import numpy as np
from virocon.distributions import ExponentiatedWeibullDistribution as EW
L=lambda q,y: np.sum(np.log(q.pdf(y)))
for (b,dl) in [(3.07,3.33),(2.99,3.44),(3.05,3.43)]:
  for seed in range(6):
    x = EW(10,b,dl).draw_sample(1000, random_state=100+seed)
    y = EW(1,b,dl).draw_sample(1000, random_state=seed)
    d = EW(); d.fit(x); p1=dict(d.parameters); d.fit(y)
    f = EW(); f.fit(y)
    print((b,dl), seed, {k: round(float(v),3) for k,v in p1.items()}, {k: round(float(v),3) for k,v in d.parameters.items()}, round(L(d,y),2), round(L(f,y),2), round(L(EW(1,b,dl),y),2), np.median(x), np.median(y))
