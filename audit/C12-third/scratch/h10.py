import sys; sys.path.insert(0, "/tmp/w8_C12/_audit/scratch")
from h1 import *
rng = np.random.default_rng(5)
# user starts: near truth (perturbed), and moderately off
for it in range(60):
    alpha = float(np.exp(rng.uniform(np.log(0.05), np.log(20)))); beta = float(rng.uniform(0.8, 5))
    sa = alpha*float(np.exp(rng.normal(0,0.7))); sb = beta*float(np.exp(rng.normal(0,0.5)))
    n = int(rng.choice([100,1000,5000]))
    check("W2u", WeibullDistribution, dict(alpha=alpha,beta=beta,gamma=0), n, it, kw=dict(alpha=sa,beta=sb,f_gamma=0))
    gamma = float(rng.uniform(0, alpha))
    check("W3u", WeibullDistribution, dict(alpha=alpha,beta=max(beta,1.2),gamma=gamma), n, it, kw=dict(alpha=sa,beta=sb,gamma=gamma*0.8))
    delta = float(rng.uniform(0.8, 5)); sd = delta*float(np.exp(rng.normal(0,0.5)))
    check("EWu", ExponentiatedWeibullDistribution, dict(alpha=alpha,beta=beta,delta=delta), n, it, kw=dict(alpha=sa,beta=sb,delta=sd))
    m = float(rng.uniform(0.8,5)); sm = m*float(np.exp(rng.normal(0,0.5)))
    check("GGu", GeneralizedGammaDistribution, dict(m=m,c=beta,lambda_=1/alpha), n, it, kw=dict(m=sm,c=sb,lambda_=1/sa))
print("done")
