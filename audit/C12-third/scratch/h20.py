import sys; sys.path.insert(0, "/tmp/w8_C12/_audit/scratch")
from h1 import *
def refit(cls, gen, kw, n, c, label):
    g = cls(**gen); x = g.draw_sample(n, random_state=0)
    g2 = cls(**gen); y = c*g.draw_sample(n, random_state=1)
    d = cls(**kw); d.fit(x); 
    start = cls(**{**kw, **{k:v for k,v in d.parameters.items() if f"f_{k}" not in kw}})
    ls = ll(start, y)
    try:
        d.fit(y)
    except Exception as e:
        print(label, gen, c, "EXC", type(e).__name__, e); return
    f = cls(**kw); f.fit(y)
    l_re, l_fresh = ll(d, y), ll(f, y)
    if l_re < l_fresh - 1e-2 or (np.isfinite(ls) and l_re < ls) or not all(np.isfinite(list(d.parameters.values()))):
        print(label, gen, n, c, "refit", {k: float(v) for k,v in d.parameters.items()}, "fresh", {k: float(v) for k,v in f.parameters.items()}, l_re, l_fresh, ls)
for c in [400, 1/400, 20, 1/20, 3]:
    for n in [100, 5000]:
        a0 = 0.05 if c>1 else 20
        if c==3: a0=1
        for beta in [0.8, 2, 5]:
            refit(WeibullDistribution, dict(alpha=a0,beta=beta,gamma=0), dict(f_gamma=0), n, c, "W2")
            refit(ExponentiatedWeibullDistribution, dict(alpha=a0,beta=beta,delta=2), {}, n, c, "EW")
            refit(ExponentiatedWeibullDistribution, dict(alpha=a0,beta=beta,delta=2), dict(f_delta=2), n, c, "EWfd")
            refit(GeneralizedGammaDistribution, dict(m=2,c=beta,lambda_=1/a0), {}, n, c, "GG")
        refit(LogNormalDistribution, dict(mu=np.log(a0), sigma=0.5), {}, n, c, "LN")
        refit(NormalDistribution, dict(mu=a0, sigma=a0/3), {}, n, c, "N")
print("done")
