import sys; sys.path.insert(0, "/tmp/w8_C12/_audit/scratch")
from h1 import *
for alpha in [0.05, 0.3, 1, 4, 20]:
    for beta in [0.8, 1.5, 3]:
        for n in [100, 5000]:
            for c in [0.0025, 0.05, 4, 20, 400]:
                if not (0.05 <= alpha*c <= 20): continue
                check("Wfbg", WeibullDistribution, dict(alpha=alpha,beta=beta,gamma=0), n, 0, c=c, kw=dict(f_beta=beta, f_gamma=0), scalepars=["alpha"])
                check("EWfb", ExponentiatedWeibullDistribution, dict(alpha=alpha,beta=beta,delta=2), n, 0, c=c, kw=dict(f_beta=beta), scalepars=["alpha"], shapepars=["delta"])
                check("EWfbd", ExponentiatedWeibullDistribution, dict(alpha=alpha,beta=beta,delta=2), n, 0, c=c, kw=dict(f_beta=beta, f_delta=2), scalepars=["alpha"])
                check("GGfmc", GeneralizedGammaDistribution, dict(m=2,c=beta,lambda_=1/alpha), n, 0, c=c, kw=dict(f_m=2, f_c=beta))
                check("GGfc", GeneralizedGammaDistribution, dict(m=2,c=beta,lambda_=1/alpha), n, 0, c=c, kw=dict(f_c=beta), shapepars=["m"])
print("done")
