import sys; sys.path.insert(0, "/tmp/w8_C12/_audit/scratch")
from h1 import *
def refit(cls, gen, kw, n, c, label, seed=0):
    g = cls(**gen); x = g.draw_sample(n, random_state=seed)
    y = c*x   # the very same data in another unit
    d = cls(**kw); d.fit(x)
    l0 = ll(d, x)
    d.fit(y)
    f = cls(**kw); f.fit(y)
    gy = ll(g, x) - n*np.log(c)   # generating density transformed to y
    l_re, l_fresh = ll(d, y), ll(f, y)
    if l_re < gy - 1e-3:
        print(label, gen, n, c, "refit", {k: round(float(v),4) for k,v in d.parameters.items()}, "fresh", {k: round(float(v),4) for k,v in f.parameters.items()}, round(l_re,2), round(l_fresh,2), round(gy,2))
        return 1
    return 0
res = {}
for c in [0.01, 0.1, 0.3048, 0.514, 1.944, 3.28, 10, 100]:
    for a0 in [0.1, 1, 5, 15]:
        if not (0.05 <= a0*c <= 20): continue
        for beta in [0.8, 1.5, 3]:
            for n in [100, 1000, 5000]:
                k=("W2",c); res[k]=res.get(k,0)+refit(WeibullDistribution, dict(alpha=a0,beta=beta,gamma=0), dict(f_gamma=0), n, c, "W2")
                k=("EW",c); res[k]=res.get(k,0)+refit(ExponentiatedWeibullDistribution, dict(alpha=a0,beta=beta,delta=2), {}, n, c, "EW")
                k=("EWfd",c); res[k]=res.get(k,0)+refit(ExponentiatedWeibullDistribution, dict(alpha=a0,beta=beta,delta=2), dict(f_delta=2), n, c, "EWfd")
print(res)
