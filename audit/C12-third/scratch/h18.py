import sys; sys.path.insert(0, "/tmp/w8_C12/_audit/scratch")
from h1 import *
tot=0; bad=[]
for m in [0.8, 1, 1.5, 2, 3, 5, 8]:
    for c_ in [0.8, 1, 1.5, 2, 3, 4]:
        for lam in [0.05, 0.2, 1, 5]:
            for n in [100, 1000]:
                gen=dict(m=m,c=c_,lambda_=lam)
                g = GeneralizedGammaDistribution(**gen); x = g.draw_sample(n, random_state=0)
                if np.median(x) < 0.05 or np.median(x) > 20: continue
                for fx in ["m","c","lambda_"]:
                    kw={f"f_{fx}":gen[fx]}
                    d = GeneralizedGammaDistribution(**kw); d.fit(x); tot+=1
                    lf, ls, lg = ll(d,x), ll(GeneralizedGammaDistribution(**kw),x), ll(g,x)
                    if d.c <= 0 or d.m<=0 or d.lambda_<=0 or lf < ls or lf < lg-1e-3:
                        bad.append((fx,gen,n,{k: float(v) for k,v in d.parameters.items()}, lf, ls, lg, float(np.median(x))))
for b in bad: print(b)
print(len(bad), tot)
