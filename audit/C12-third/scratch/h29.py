import numpy as np
from virocon.distributions import ExponentiatedWeibullDistribution as EW, WeibullDistribution as W
g = EW(5, 1.5, 2); x = g.draw_sample(5000, random_state=0); y=0.01*x
d = EW(); d.fit(x)
L=lambda q: np.sum(np.log(q.pdf(y)))
for i in range(4):
    d.fit(y); print(i, {k: round(float(v),5) for k,v in d.parameters.items()}, L(d))
g = W(20, 2, 0); x = g.draw_sample(100, random_state=0); y = g.draw_sample(100, random_state=1)/400
d = W(f_gamma=0); d.fit(x)
for i in range(4):
    d.fit(y); print(i, {k: round(float(v),5) for k,v in d.parameters.items()}, L(d))
