import numpy as np, runpy
from virocon.distributions import ExponentiatedWeibullDistribution as EW
orig = EW._fit_mle
def patched(self, sample):
    sample = np.asarray(sample, dtype=float)
    nll = lambda: -np.sum(np.log(self.pdf(sample)))
    orig(self, sample); last = nll()
    for _ in range(20):
        orig(self, sample); cur = nll()
        if not cur < last - 1e-6: break
        last = cur
EW._fit_mle = patched
runpy.run_path("/tmp/w8_C12/_audit/defect_2.py", run_name="__main__")
