"""C12 - GeneralizedGammaDistribution: MLE with a fixed m (default start values)
returns a NEGATIVE shape c.

The class documents the density  lambda^(c m) c x^(c m - 1) exp(-(lambda x)^c) / Gamma(m),
which is a density only for c > 0; a negative c is not an admissible member of the family.
The fit also loses likelihood against the generating parameters and is not
scale-equivariant (the sign of the shape estimate depends on the unit of the data).

Exit status: 0 if the property holds, 1 if it is violated.
"""
import sys
import warnings

import numpy as np

warnings.filterwarnings("ignore")

from virocon import GeneralizedGammaDistribution  # noqa: E402


def loglik(dist, x):
    with np.errstate(all="ignore"):
        return float(np.sum(np.log(dist.pdf(x))))


failures = []

gen = GeneralizedGammaDistribution(m=5, c=4, lambda_=5)
x = gen.draw_sample(1000, random_state=0)  # median about 0.29: inside [0.05, 20]
assert 0.05 < np.median(x) < 20

# --- default start values, m known/fixed ---------------------------------
fitted = GeneralizedGammaDistribution(f_m=5)
fitted.fit(x)  # method="mle" is the default
p = {k: float(v) for k, v in fitted.parameters.items()}
print("fitted (data x)      :", p)
ll_fit, ll_gen = loglik(fitted, x), loglik(gen, x)
print(f"loglik fitted = {ll_fit:.3f}   loglik generating = {ll_gen:.3f}")

if not (np.all(np.isfinite(list(p.values()))) and p["c"] > 0 and p["lambda_"] > 0):
    failures.append(f"inadmissible estimate: c = {p['c']}")
if ll_fit < ll_gen - 1e-3:
    failures.append(
        f"likelihood lost: fitted {ll_fit:.3f} < generating {ll_gen:.3f}"
    )

# --- scale equivariance: the same data in another unit (factor 10) --------
factor = 10.0
fitted10 = GeneralizedGammaDistribution(f_m=5)
fitted10.fit(factor * x)  # median about 2.9: inside [0.05, 20]
p10 = {k: float(v) for k, v in fitted10.parameters.items()}
print("fitted (data 10 * x) :", p10)
if abs(p10["c"] / p["c"] - 1) > 1e-2:
    failures.append(f"shape c not scale-invariant: {p['c']} vs {p10['c']}")
if abs(p10["lambda_"] * factor / p["lambda_"] - 1) > 1e-2:
    failures.append(
        f"lambda_ not scale-equivariant: {p['lambda_']} vs {factor} * {p10['lambda_']}"
    )

# --- user start values within a factor of about 4 of the truth ------------
gen2 = GeneralizedGammaDistribution(m=0.8049, c=2.5824, lambda_=0.25353)
y = gen2.draw_sample(5000, random_state=56)  # median about 3
user = GeneralizedGammaDistribution(m=0.9094, c=2.8121, lambda_=1.04763)
user.fit(y)
pu = {k: float(v) for k, v in user.parameters.items()}
print("fitted (user start)  :", pu)
if not pu["c"] > 0:
    failures.append(f"inadmissible estimate with user start values: c = {pu['c']}")
if loglik(user, y) < loglik(gen2, y) - 1e-3:
    failures.append(
        f"likelihood lost with user start values: {loglik(user, y):.3f} < {loglik(gen2, y):.3f}"
    )

if failures:
    print("\nPROPERTY C12 VIOLATED:")
    for f in failures:
        print("  -", f)
    sys.exit(1)
print("property C12 holds")
sys.exit(0)
