import numpy as np, itertools, warnings
from virocon.intervals import *
rng = np.random.default_rng(0)

def check_value_slicer(s, data, lo_inc=True):
    # min_n_points=0 so nothing dropped
    sl, refs, bnds = s.slice_(data)
    M = np.array(sl)
    assert M.shape[1] == len(data)
    cnt = M.sum(axis=0)
    lo = bnds[0][0]; hi = bnds[-1][1]
    return M, cnt, refs, bnds

bad = 0
for trial in range(1500):
    n = rng.integers(1, 60)
    kind = rng.integers(0, 5)
    if kind == 0: data = rng.random(n) * rng.choice([1, 10, 0.1, 1e-3, 30])
    elif kind == 1: data = np.round(rng.random(n) * 5, 1)
    elif kind == 2: data = rng.integers(0, 10, n)
    elif kind == 3: data = rng.integers(-5, 10, n).astype(float) * 0.1
    else: data = np.round(rng.normal(0, 3, n), 2).astype(np.float32)
    # width slicer
    w = rng.choice([0.1, 0.5, 1, 2, 0.3, 0.7, 1e-2, 3])
    ro = bool(rng.integers(0, 2))
    vr = [None, (None, None), (0.3, None), (None, 4.1), (-2, 7), (0.1, 0.9), (-0.7, None)][rng.integers(0, 7)]
    ref = ["center", "left", "right", np.mean][rng.integers(0, 4)]
    try:
        with warnings.catch_warnings():
            warnings.simplefilter("ignore")
            s = WidthOfIntervalSlicer(w, reference=ref, right_open=ro, value_range=vr, min_n_points=0, min_n_intervals=0)
            sl, refs, bnds = s.slice_(data)
    except Exception as e:
        print("EXC width", repr(e), w, ro, vr, data[:5], data.dtype); bad += 1; continue
    if len(sl):
        M = np.array(sl); cnt = M.sum(axis=0)
        lo = bnds[0][0]; hi = bnds[-1][1]
        dmin = 0 if vr is None or vr[0] is None else vr[0]
        dmax = data.max() if vr is None or vr[1] is None else vr[1]
        if ro: inside = (data >= dmin) & (data <= dmax)
        else: inside = (data > dmin) & (data <= dmax)
        if not np.all(cnt[inside] == 1) or np.any(cnt > 1):
            print("PART width", w, ro, vr, data, cnt); bad += 1
        assert lo == dmin, (lo, dmin)
        for m, (a, b), r in zip(sl, bnds, refs):
            d = data[m]
            if len(d) and not (d.min() >= a and d.max() <= b): print("BND width"); bad += 1
            if ref == "center" and not np.isclose(r, (a + b) / 2, rtol=1e-12, atol=1e-12): print("REF c", r, a, b); bad += 1
            if ref == "left" and not np.isclose(r, a, rtol=1e-12, atol=1e-12): print("REF l", r, a, b); bad += 1
            if ref == "right" and not np.isclose(r, b, rtol=1e-12, atol=1e-12): print("REF r", r, a, b); bad += 1
            if callable(ref) and len(d) and r != np.mean(d): print("REF call"); bad += 1
        for (a, b), (c, d) in zip(bnds[:-1], bnds[1:]):
            if b != c or a > b: print("OVL width", a, b, c, d); bad += 1
    # number slicer
    ni = int(rng.integers(1, 12)); im = bool(rng.integers(0, 2))
    vr = [None, (0, 5), (-1.3, 2.7), (0.1, 0.9)][rng.integers(0, 4)]
    try:
        with warnings.catch_warnings():
            warnings.simplefilter("ignore")
            s = NumberOfIntervalsSlicer(ni, reference=ref, include_max=im, value_range=vr, min_n_points=0, min_n_intervals=0)
            sl, refs, bnds = s.slice_(data)
    except Exception as e:
        print("EXC num", repr(e), ni, im, vr, data[:5], data.dtype); bad += 1; continue
    M = np.array(sl); cnt = M.sum(axis=0)
    assert len(sl) == ni
    a0, b0 = (data.min(), data.max()) if vr is None else vr
    inside = (data >= a0) & ((data <= b0) if im else (data < b0))
    if not np.all(cnt[inside] == 1) or np.any(cnt > 1) or np.any(cnt[~inside] != 0):
        print("PART num", ni, im, vr, data, cnt); bad += 1
    for m, (a, b), r in zip(sl, bnds, refs):
        d = data[m]
        if len(d) and not (d.min() >= a and d.max() <= b): print("BND num"); bad += 1
        tol = 1e-9 * max(1, abs(a), abs(b)) if data.dtype != np.float32 or vr is not None else 1e-5*max(1,abs(a),abs(b))
        if ref == "center" and abs(r - (a + b) / 2) > tol: print("REF c num", r, a, b, data.dtype); bad += 1
        if ref == "left" and abs(r - a) > tol: print("REF l num", r, a, b); bad += 1
        if ref == "right" and abs(r - b) > tol: print("REF r num", r, a, b); bad += 1
        if callable(ref) and len(d) and r != np.mean(d): print("REF call num"); bad += 1
    for (a, b), (c, d) in zip(bnds[:-1], bnds[1:]):
        if b != c or a > b: print("OVL num", a, b, c, d); bad += 1
    assert bnds[0][0] == a0 and bnds[-1][1] == b0
    # points per interval
    npnt = int(rng.integers(1, 15)); lf = bool(rng.integers(0, 2)); mnp = int(rng.integers(0, 15))
    try:
        s = PointsPerIntervalSlicer(npnt, last_full=lf, min_n_points=mnp, min_n_intervals=0)
        sl, refs, bnds = s.slice_(data)
    except Exception as e:
        print("EXC ppi", repr(e), npnt, lf, mnp, data[:5], data.dtype, len(data)); bad += 1; continue
    eff = min(mnp, npnt)
    # expected chunks
    srt = np.sort(data)
    nfull, rem = divmod(len(data), npnt)
    if nfull == 0: sizes = [len(data)]
    elif rem == 0: sizes = [npnt] * nfull
    elif lf: sizes = [rem] + [npnt] * nfull
    else: sizes = [npnt] * nfull + [rem]
    chunks = np.split(srt, np.cumsum(sizes)[:-1])
    kept = [c for c in chunks if len(c) >= eff]
    if len(kept) != len(sl): print("DROP ppi", len(kept), len(sl)); bad += 1; continue
    for c, m, (a, b), r in zip(kept, sl, bnds, refs):
        if not np.array_equal(np.sort(data[m]), c): print("ALIGN ppi"); bad += 1
        if not (c.min() >= a and c.max() <= b): print("BND ppi"); bad += 1
        if r != np.median(data[m]): print("REF ppi"); bad += 1
    if len(sl):
        cnt = np.array(sl).sum(axis=0)
        if np.any(cnt > 1): print("PART ppi"); bad += 1
    for (a, b), (c, d) in zip(bnds[:-1], bnds[1:]):
        if b != c or a > b: print("OVL ppi", a, b, c, d); bad += 1
print("bad", bad)
