"""C10 / NumberOfIntervalsSlicer: if max - min overflows a float64 the edges are
NaN and every observation is in no interval (include_max=True misses the maximum)."""
import sys, warnings
import numpy as np
from virocon.intervals import NumberOfIntervalsSlicer

warnings.simplefilter("ignore")
data = np.array([-1e308, -5e307, 0.0, 5e307, 1e308, 1e308])
slices, refs, bounds = NumberOfIntervalsSlicer(
    3, include_max=True, min_n_points=0, min_n_intervals=0
).slice_(data)
counts = np.sum(np.array(slices), axis=0)
print("boundaries:", bounds)
print("intervals per observation:", counts)
if not np.all(counts == 1):
    print("FAIL: finite observations inside [min, max] are not in exactly one interval")
    sys.exit(1)
print("OK")
