"""C10 / PointsPerIntervalSlicer: empty data with min_n_points=0 crashes with a
ValueError from np.min instead of the promised RuntimeError (1 interval < 3)."""
import sys
import numpy as np
from virocon.intervals import PointsPerIntervalSlicer

rc = 0
# (a) default min_n_intervals=3: fewer than 3 intervals remain -> RuntimeError promised
try:
    PointsPerIntervalSlicer(5, min_n_points=0).slice_(np.array([]))
    print("(a) FAIL: no exception"); rc = 1
except RuntimeError as e:
    print("(a) OK RuntimeError:", e)
except Exception as e:
    print("(a) FAIL:", type(e).__name__, e); rc = 1

# (b) min_n_intervals=0: nothing may be raised, a (possibly empty) result is promised
try:
    s, r, b = PointsPerIntervalSlicer(5, min_n_points=0, min_n_intervals=0).slice_(np.array([]))
    assert len(s) == len(b)
    print("(b) OK", len(s), "intervals")
except Exception as e:
    print("(b) FAIL:", type(e).__name__, e); rc = 1
sys.exit(rc)
