"""C10 / WidthOfIntervalSlicer: observations up to max(data) fall into NO interval
when the lower limit is large compared with the width (np.arange step drift)."""
import sys
import numpy as np
from virocon.intervals import WidthOfIntervalSlicer

lower = 1e12          # e.g. a time stamp in milliseconds
width = 0.001
data = lower + np.linspace(0.0, 1.0, 101)   # 101 observations in [lower, lower + 1]

slicer = WidthOfIntervalSlicer(
    width, value_range=(lower, None), min_n_points=0, min_n_intervals=0
)
slices, refs, bounds = slicer.slice_(data)
counts = np.sum(np.array(slices), axis=0)   # number of intervals each observation is in

covered = (data >= lower) & (data <= np.max(data))   # the configured range [lower, max(data)]
n_none = int(np.sum(counts[covered] == 0))
n_multi = int(np.sum(counts[covered] > 1))
print("number of intervals      :", len(slices))
print("last reported upper edge :", repr(float(bounds[-1][1])), " max(data):", repr(float(data.max())))
print("observations in no interval:", n_none, " in several:", n_multi)
print("reported width of interval 0:", float(bounds[0][1] - bounds[0][0]), "configured:", width)
if n_none or n_multi:
    print("FAIL: observations inside [lower limit, max(data)] are in no interval")
    sys.exit(1)
print("OK")
