"""C14 defect 2: a dependent with two (or more) conditioners is fitted as soon
as the FIRST conditioner is fitted; the final result depends on the fit order.

DependenceFunction.callback tests
    self._fitted_conditioners.issubset(self.dependent_parameters.values())
which is always true (the subset relation is the wrong way round), so the
dependent is fitted against a still-unfitted conditioner (all parameters = start
values).  That junk fit becomes the start point of the later, proper fit and for
a non-convex shape the optimiser ends in a different minimum.
ConditionalDistribution.fit fits in distribution-parameter order, e.g. alpha,
beta, delta for the ExponentiatedWeibullDistribution, i.e. order (dep, g1, g2)
when alpha uses the functions of beta and delta.
"""
import itertools
import numpy as np
from virocon import DependenceFunction

rng = np.random.default_rng(2)
x = np.linspace(0.5, 10, 15)


def g1f(x, a, b):
    return a + b * x


def g2f(x, c, d):
    return c + d * x


def depf(x, p=1.0, q=2.0, g1=None, g2=None):
    return p * np.sin(q * x + g2(x)) * g1(x)


y1 = 2 + 0.5 * x + rng.normal(0, 0.05, x.size)
y2 = 0.5 - 0.3 * x + rng.normal(0, 0.02, x.size)
yd = 1.5 * np.sin(2.2 * x + 0.5 - 0.3 * x) * (2 + 0.5 * x) + rng.normal(0, 0.05, x.size)

results = {}
for order in itertools.permutations(["g1", "g2", "dep"]):
    g1 = DependenceFunction(g1f)
    g2 = DependenceFunction(g2f)
    dep = DependenceFunction(depf, g1=g1, g2=g2)
    todo = {"g1": (g1, y1), "g2": (g2, y2), "dep": (dep, yd)}
    for name in order:
        obj, yy = todo[name]
        obj.fit(x, yy)
    p = np.array([float(v) for v in dep.parameters.values()])
    results[order] = p
    print(order, p, "sse", float(np.sum((dep(x) - yd) ** 2)))

ref = results[("g1", "g2", "dep")]  # dependent fitted after both conditioners
for order, p in results.items():
    assert np.allclose(p, ref, rtol=1e-3), f"order {order} gives {p}, expected {ref}"
