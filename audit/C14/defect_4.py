"""C14 defect 4: re-fitting is not 'fit the dependent after its conditioner'.

After a first fit, a dependent DependenceFunction keeps _may_fit=True, its
_fitted_conditioners set and the old x/y.  On a re-fit with new data
 * order (dep, g): dep is fitted at once against the STALE conditioner g, and
   then again when g reports; 
 * order (g, dep): g's callback re-fits dep on the OLD data with the NEW g, and
   then dep is fitted on the new data.
Either way a junk intermediate fit moves the start values, so the final
parameters depend on the order and differ from the single fit "dep after g".
"""
import numpy as np
from virocon import DependenceFunction

x = np.linspace(0.5, 10, 15)


def gf(x, c, d):
    return c + d * x


def depf(x, p=1.0, q=2.0, g=None):
    return p * np.sin(q * x + g(x))


rng = np.random.default_rng(3)
# data set A (first fit)
yA_g = 0.5 - 0.3 * x + rng.normal(0, 0.02, x.size)
yA_d = 1.5 * np.sin(2.2 * x + 0.5 - 0.3 * x) + rng.normal(0, 0.05, x.size)
# data set B (re-fit): same p, q, but the conditioner changed
yB_g = 1.5 + 0.2 * x + rng.normal(0, 0.02, x.size)
yB_d = 1.5 * np.sin(2.2 * x + 1.5 + 0.2 * x) + rng.normal(0, 0.05, x.size)


def refit(order):
    g = DependenceFunction(gf)
    dep = DependenceFunction(depf, g=g)
    dep.fit(x, yA_d)
    g.fit(x, yA_g)  # -> dep fitted on A
    first = dict(dep.parameters)
    todo = {"g": (g, yB_g), "dep": (dep, yB_d)}
    for name in order:
        obj, yy = todo[name]
        obj.fit(x, yy)
    p = np.array([float(v) for v in dep.parameters.values()])
    return first, p, float(np.sum((dep(x) - yB_d) ** 2))


def oracle(first):
    # what the property promises: dep fitted once, after g was fitted on B,
    # starting from the parameters it had before the re-fit.
    g = DependenceFunction(gf)
    dep = DependenceFunction(depf, g=g)
    g.fit(x, yB_g)
    dep.parameters = dict(first)
    dep.fit(x, yB_d)
    p = np.array([float(v) for v in dep.parameters.values()])
    return p, float(np.sum((dep(x) - yB_d) ** 2))


first, p_gd, s_gd = refit(["g", "dep"])
_, p_dg, s_dg = refit(["dep", "g"])
p_or, s_or = oracle(first)
print("after first fit      :", first)
print("re-fit order g, dep  :", p_gd, "sse", s_gd)
print("re-fit order dep, g  :", p_dg, "sse", s_dg)
print("dep fitted after g   :", p_or, "sse", s_or)

assert np.allclose(p_gd, p_dg, rtol=1e-3), "re-fit result depends on the order"
assert np.allclose(p_gd, p_or, rtol=1e-3), "re-fit != fit after conditioner"
