"""C14 defect 5: `weights` are used as standard deviations, i.e. inverted.

DependenceFunction(weights=w) is documented as weighted least squares where w
maps (x, y) to the vector of weights ("lambda x, y: y to linearly weight the
observations with y_i").  fit_function passes the weights as curve_fit's
`sigma`, so curve_fit minimises sum((r_i / w_i)**2): an observation with a
larger weight counts LESS.  The result therefore does not minimise the weighted
squared residual (neither sum(w r^2) nor sum((w r)^2)); and one zero weight makes
sigma 0 -> non-finite residuals, and the start parameters are returned unchanged
without any error.
"""
import numpy as np
from virocon import DependenceFunction

rng = np.random.default_rng(1)
x = np.linspace(1, 10, 12)
y = 1 + 2 * x + 0.05 * x**2 + rng.normal(0, 0.3, x.size)


def lin(x, a, b):
    return a + b * x


dep = DependenceFunction(lin, weights=lambda x, y: y)
dep.fit(x, y)
p = np.array([float(v) for v in dep.parameters.values()])
w = y
A = np.c_[np.ones_like(x), x]
p_w = np.linalg.lstsq(A * np.sqrt(w)[:, None], y * np.sqrt(w), rcond=None)[0]  # min sum w r^2
p_w2 = np.linalg.lstsq(A * w[:, None], y * w, rcond=None)[0]  # min sum (w r)^2
p_inv = np.linalg.lstsq(A / w[:, None], y / w, rcond=None)[0]  # min sum (r / w)^2


def wsse(p, power=1):
    return float(np.sum(w**power * (lin(x, *p) - y) ** 2))


print("virocon          :", p, "weighted sse", wsse(p))
print("min sum w r^2    :", p_w, "weighted sse", wsse(p_w))
print("min sum (w r)^2  :", p_w2)
print("min sum (r/w)^2  :", p_inv, "  <- what virocon returns")
p_near = p + 0.05 * (p_w - p) / np.linalg.norm(p_w - p)
print("nearby point     :", p_near, "weighted sse", wsse(p_near))

# a zero weight is a legitimate weight (ignore that observation)
y0 = y.copy()
y0[0] = 0.0
dep0 = DependenceFunction(lin, weights=lambda x, y: y)
dep0.fit(x, y0)
p0 = np.array([float(v) for v in dep0.parameters.values()])
print("with one zero weight:", p0, "(start values were [1, 1])")

ok_w1 = np.allclose(p, p_w, rtol=1e-3)
ok_w2 = np.allclose(p, p_w2, rtol=1e-3)
assert ok_w1 or ok_w2, "result minimises sum((r/w)^2), not a w-weighted squared residual"
assert wsse(p) <= wsse(p_near) and wsse(p, 2) <= wsse(p_near, 2)
assert not np.allclose(p0, [1, 1]), "zero weight: start parameters returned unchanged"
