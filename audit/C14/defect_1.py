"""C14 defect 1: declared inequality constraints are silently ignored.

fit_constrained_function() never passes `constraints` to scipy.optimize.minimize
(the argument is commented out), so the fitted parameters violate the declared
constraint c(z) >= 0 whenever the unconstrained optimum does.
"""
import numpy as np
from scipy.optimize import minimize
from virocon import DependenceFunction

rng = np.random.default_rng(0)
x = np.linspace(1, 10, 12)
y = 1 + 2 * x + rng.normal(0, 0.3, x.size)  # unconstrained optimum: a~1.13, b~1.98


def lin(x, a, b):
    return a + b * x


# declared constraint: a - b >= 0 (start values a=b=1 are admissible)
cons = {"type": "ineq", "fun": lambda p: p[0] - p[1]}
dep = DependenceFunction(lin, bounds=[(None, None), (None, None)], constraints=cons)
dep.fit(x, y)
p = np.array([float(v) for v in dep.parameters.values()])
print("fitted parameters:", p, " constraint value a-b =", cons["fun"](p))

# reference: the constrained least-squares solution (a = b = sum(y(1+x))/sum((1+x)^2))
ab = np.sum(y * (1 + x)) / np.sum((1 + x) ** 2)
print("constrained optimum: a = b =", ab)

assert cons["fun"](p) >= -1e-6, (
    f"declared constraint a-b>=0 violated: a-b={cons['fun'](p):.4f}"
)
assert np.allclose(p, [ab, ab], rtol=1e-3)
