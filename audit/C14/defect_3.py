"""C14 defect 3: the constrained (SLSQP) path does not return a least-squares
optimum, even when the declared constraint is inactive.

fit_constrained_function() calls minimize(..., method="SLSQP",
options={"eps": 1e-15}).  A forward-difference step of 1e-15 is ~5 ulp of a
parameter of size 1, so the numerical gradient is dominated by round-off; SLSQP
stops ("successfully") at a point that is clearly not a minimum: a nearby
admissible perturbation has a smaller squared residual.
"""
import numpy as np
from virocon import DependenceFunction

rng = np.random.default_rng(0)
x = np.linspace(1, 10, 12)
y = 1 + 2 * x + rng.normal(0, 0.3, x.size)


def lin(x, a, b):
    return a + b * x


def sse(p):
    return float(np.sum((lin(x, *p) - y) ** 2))


# constraint a >= -100 : never active
cons = {"type": "ineq", "fun": lambda p: p[0] + 100}
dep = DependenceFunction(lin, constraints=cons)
dep.fit(x, y)
p = np.array([float(v) for v in dep.parameters.values()])

A = np.c_[np.ones_like(x), x]
p_ls = np.linalg.lstsq(A, y, rcond=None)[0]
p_near = p + 0.05 * (p_ls - p) / np.linalg.norm(p_ls - p)  # |step| = 0.05
print("fitted      :", p, "sse", sse(p))
print("perturbed   :", p_near, "sse", sse(p_near), "constraint", cons["fun"](p_near))
print("lstsq       :", p_ls, "sse", sse(p_ls))

assert sse(p) <= sse(p_near) * (1 + 1e-6), "a nearby admissible point has a smaller residual"
assert np.allclose(p, p_ls, rtol=1e-3), "not the least-squares solution"
