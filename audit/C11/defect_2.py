"""C11: LogNormalDistribution does not keep a fixed mu to 1e-12 relative after fitting:
mu is recomputed as log(exp(f_mu)), which loses the value when |f_mu| is small."""
import numpy as np
from virocon.distributions import LogNormalDistribution

data = LogNormalDistribution(mu=0.0, sigma=0.5).draw_sample(300, random_state=1)

worst = 0.0
for f_mu in [1e-5, -3e-6, 1e-8, 1e-20]:
    d = LogNormalDistribution(f_mu=f_mu)
    assert d.mu == f_mu
    d.fit(data)  # MLE, sigma is free
    rel = abs(d.mu - f_mu) / abs(f_mu)
    worst = max(worst, rel)
    print(f"f_mu={f_mu!r}: mu after fit={d.mu!r}  relative deviation={rel:.3g}  sigma={d.sigma:.4f}")

assert worst <= 1e-12, f"fixed mu changed by up to {worst:.3g} relative (> 1e-12) after fitting"
