"""C11 (fitting in conditional distributions): ConditionalDistribution.fit with its own
default method (method=None, documented as 'the distribution's default') crashes, so a
conditional distribution with a fixed parameter cannot be fitted without naming a method."""
import numpy as np
from virocon.distributions import ConditionalDistribution, LogNormalDistribution
from virocon.dependencies import DependenceFunction


def lin(x, a, b):
    return a + b * x


rng = np.random.default_rng(0)
intervals = [rng.lognormal(1.0 + 0.1 * g, 0.3, size=200) for g in (1.0, 2.0, 3.0)]
cond = ConditionalDistribution(
    LogNormalDistribution(f_sigma=0.3), {"mu": DependenceFunction(lin)}
)
# method is optional: "Defaults to the distributions default."
cond.fit(intervals, [1.0, 2.0, 3.0], [(0.5, 1.5), (1.5, 2.5), (2.5, 3.5)])
for p in cond.parameters_per_interval:
    assert p["sigma"] == 0.3
print(cond)
