"""C11: ScipyDistribution loses a fixed parameter when the wrapped scipy fit does not
return the fixed value unchanged (scipy.stats.vonmises wraps loc into [-pi, pi] and
always returns scale=1)."""
import numpy as np
from virocon.distributions import ScipyDistribution


class VonMises(ScipyDistribution):
    scipy_dist_name = "vonmises"


data = VonMises(kappa=2.0, loc=4.0, scale=1.0).draw_sample(500, random_state=1)

# (a) fixed location outside [-pi, pi]
d = VonMises(f_loc=4.0)
assert d.loc == 4.0 and d.f_loc == 4.0
cdf_before = d.cdf(4.5, kappa=2.0)
d.fit(data)
print("f_loc=4.0  -> loc after fit:", d.loc, " kappa:", d.kappa)
cdf_after = d.cdf(4.5, kappa=2.0)
print("cdf(4.5; kappa=2) before fit", cdf_before, "after fit", cdf_after)

# (b) fixed scale different from 1
e = VonMises(f_scale=2.0)
assert e.scale == 2.0
e.fit(data)
print("f_scale=2.0 -> scale after fit:", e.scale)

# (c) a fixed location inside [-pi, pi] is perturbed beyond 1e-12 relative
f = VonMises(f_loc=1e-6)
f.fit(data)
print("f_loc=1e-6 -> loc after fit:", repr(f.loc), "rel. dev.", abs(f.loc - 1e-6) / 1e-6)

assert abs(d.loc - 4.0) <= 1e-12 * 4.0, f"fixed loc=4.0 became {d.loc} after fitting"
assert abs(cdf_after - cdf_before) < 1e-9
assert abs(e.scale - 2.0) <= 1e-12 * 2.0, f"fixed scale=2.0 became {e.scale} after fitting"
assert abs(f.loc - 1e-6) <= 1e-12 * 1e-6, f"fixed loc=1e-6 became {f.loc!r} after fitting"
