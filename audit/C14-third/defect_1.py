"""C14 defect 1: a constrained (SLSQP) dependence-function fit silently returns its
start values although the least-squares optimum is admissible.

Shape a + b*x + c*x**2 (linear in its parameters), 10 exact support points,
finite bounds (-50, 50) that are inactive at the optimum, one inequality
constraint a + b <= 100 that is inactive at the optimum.  fit() "succeeds" and
leaves the parameters at the start values (1, 1, 1): squared residual 4e5 where
0 is attainable, and tiny admissible perturbations reduce it.
"""
import sys
import numpy as np
from virocon import DependenceFunction


def quad3(x, a, b, c):
    return a + b * x + c * x**2


x = np.linspace(1, 20, 10)
true = np.array([2.0, 0.5, 0.01])
y = quad3(x, *true)

failures = []
for label, cons in [
    ("dict", {"type": "ineq", "fun": lambda p: 100 - p[0] - p[1]}),
    ("list", [{"type": "ineq", "fun": lambda p: 100 - p[0] - p[1]}]),
]:
    dep = DependenceFunction(quad3, bounds=[(-50, 50)] * 3, constraints=cons)
    dep.fit(x, y)
    p = np.array(list(dep.parameters.values()))
    ssr = np.sum((quad3(x, *p) - y) ** 2)
    # an admissible perturbation: a small step towards the true parameters
    q = p + 1e-3 * (true - p)
    admissible = np.all(np.abs(q) <= 50) and 100 - q[0] - q[1] >= 0
    ssr_q = np.sum((quad3(x, *q) - y) ** 2)
    print(f"[{label}] fitted parameters {p}, squared residual {ssr:.6g}")
    print(f"[{label}] admissible perturbation {q} -> squared residual {ssr_q:.6g}")
    if not np.allclose(p, true, rtol=1e-3, atol=1e-3):
        failures.append(f"{label}: parameters {p} are not the least-squares solution {true}")
    # (tolerance: 1e-6 of the data's own sum of squares, far above optimiser round-off)
    if admissible and ssr_q < ssr - 1e-6 * np.sum(y**2):
        failures.append(
            f"{label}: squared residual {ssr:.6g} is larger than {ssr_q:.6g} "
            "at a nearby admissible point"
        )

if failures:
    print("DEFECT:")
    for f in failures:
        print("  ", f)
    sys.exit(1)
print("ok")
