"""C14 defect 4: a dependence function that uses another dependence function as a
parameter can only be evaluated / fitted if that parameter is the LAST one in the
signature of func.  The conditioner is bound by keyword (functools.partial) but the
free parameters are passed positionally, so with the conditioner in any other
position the first free value lands on the conditioner's slot:
TypeError "got multiple values for argument".  The chain is never fitted.
"""
import sys
import numpy as np
from virocon import DependenceFunction


def base(x, a, b):
    return a + b * x


def last(x, a, b, g):
    return a * g(x) + b


def middle(x, a, g, b):
    return a * g(x) + b


def first(x, g, a, b):
    return a * g(x) + b


x = np.array([1.0, 3.0, 5.0, 7.0, 9.0])
y_base = 1 + 2 * x
y_dep = 3 * y_base + 1

failures = []
for func in (last, middle, first):
    for order in ("conditioner first", "dependent first"):
        B = DependenceFunction(base)
        A = DependenceFunction(func, g=B)
        try:
            if order == "conditioner first":
                B.fit(x, y_base)
                A.fit(x, y_dep)
            else:
                A.fit(x, y_dep)
                B.fit(x, y_base)
            p = np.array(list(A.parameters.values()))
            val = A(2.0)
        except Exception as e:  # noqa
            msg = f"{func.__name__}(x, {', '.join(list(__import__('inspect').signature(func).parameters)[1:])}), {order}: {type(e).__name__}: {e}"
            print(msg)
            failures.append(msg)
            continue
        print(f"{func.__name__}, {order}: {A.parameters}, A(2) = {val}")
        if not np.allclose(p, [3, 1], rtol=1e-6) or not np.isclose(val, 16.0):
            failures.append(f"{func.__name__}, {order}: parameters {p} != [3, 1]")

if failures:
    print("DEFECT:")
    for f in failures:
        print("  ", f)
    sys.exit(1)
print("ok")
