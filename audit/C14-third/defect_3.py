"""C14 defect 3: a finite bound pair with lower == upper (the way the class
docstring says a parameter is fixed: "Fixed scalar boundaries ... E.g. 0 <= z <= 0")
makes the unconstrained (curve_fit) path crash with ValueError, although admissible
parameters exist and the SLSQP path (same bounds plus any constraint) fits them.

Shape a + b*x**c (DNVGL power3), 5 exact support points generated with a = 0.5.
"""
import sys
import numpy as np
from virocon import DependenceFunction


def power3(x, a, b, c):
    return a + b * x**c


x = np.array([1.0, 3.0, 5.0, 7.0, 9.0])
y = 0.5 + 0.2 * x**1.3

failures = []
for bounds, expected in [
    ([(0.5, 0.5), (0, None), (None, None)], [0.5, 0.2, 1.3]),
    ([(0, 0), (0, None), (None, None)], None),
]:
    dep = DependenceFunction(power3, bounds=bounds)
    try:
        dep.fit(x, y)
    except Exception as e:  # noqa
        msg = f"bounds {bounds}: {type(e).__name__}: {e}"
        print(msg)
        failures.append(msg)
        continue
    p = np.array(list(dep.parameters.values()))
    print(f"bounds {bounds}: {p}")
    if abs(p[0] - bounds[0][0]) > 1e-9 or p[1] < 0:
        failures.append(f"bounds {bounds}: parameters {p} outside the bounds")
    if expected is not None and not np.allclose(p, expected, rtol=1e-4):
        failures.append(f"bounds {bounds}: {p} is not the optimum {expected}")
    # not worse than any nearby admissible point
    ssr = np.sum((power3(x, *p) - y) ** 2)
    rng = np.random.default_rng(0)
    for _ in range(200):
        q = p + np.array([0, 1, 1]) * rng.normal(0, 1e-4, 3)
        q[1] = max(q[1], 0)
        if np.sum((power3(x, *q) - y) ** 2) < ssr - 1e-9 * (1 + ssr):
            failures.append(f"bounds {bounds}: {p} is not a local optimum")
            break

if failures:
    print("DEFECT:")
    for f in failures:
        print("  ", f)
    sys.exit(1)
print("ok")
