"""C14 defect 2: re-fitting a chain of dependence functions fits the dependent
function to the data of the PREVIOUS fit (stale x, y) as soon as its conditioner
has been re-fitted (DependenceFunction.callback -> self.fit(self.x, self.y)).
The outcome of a re-fit therefore depends on the order of the fit calls: one
order gives the parameters of a fresh fit, the other one crashes - also through
ConditionalDistribution.fit, where a re-fit fails although a fresh model fits.

mu(x)    = a + b*x                  (conditioner, function B)
sigma(x) = c*log(mu(x)) + d         (uses B as a parameter, function A, c >= 0)

first fit : x in [1, 10],  mu = 1 + 0.5 x
second fit: x in [20, 30], mu = -10 + x   (positive on the new x, not on the old x)
"""
import sys
import itertools
import numpy as np
from virocon import DependenceFunction, NormalDistribution
from virocon.distributions import ConditionalDistribution


def f_mu(x, a, b):
    return a + b * x


def f_sigma(x, c, d, m_of_x):
    return c * np.log(m_of_x(x)) + d


def build():
    B = DependenceFunction(f_mu)
    A = DependenceFunction(f_sigma, bounds=[(0, None), (None, None)], m_of_x=B)
    return {"mu": B, "sigma": A}


x1 = np.linspace(1, 10, 8)
m1 = 1 + 0.5 * x1
s1 = 2.0 * np.log(m1) + 0.3
x2 = np.linspace(20, 30, 8)
m2 = -10 + x2
s2 = 1.5 * np.log(m2) + 0.7
first = {"mu": m1, "sigma": s1}
second = {"mu": m2, "sigma": s2}


def params(d):
    return np.array(list(d["mu"].parameters.values()) + list(d["sigma"].parameters.values()))


failures = []

# (1) direct fit calls: every order of the first fit and of the re-fit
ref = build()
for k in ("mu", "sigma"):
    ref[k].fit(x2, second[k])
ref = params(ref)
print("direct, fresh fit to the second data:", ref)
for o1, o2 in itertools.product(itertools.permutations(("mu", "sigma")), repeat=2):
    d = build()
    for k in o1:
        d[k].fit(x1, first[k])
    try:
        for k in o2:
            d[k].fit(x2, second[k])
    except Exception as e:  # noqa
        msg = f"direct, first fit order {o1}, re-fit order {o2}: {type(e).__name__}: {e}"
        print(msg)
        failures.append(msg)
        continue
    p = params(d)
    print(f"direct, first fit order {o1}, re-fit order {o2}: {p}")
    if not np.allclose(p, ref, rtol=1e-4, atol=1e-6):
        failures.append(f"direct, first {o1}, re-fit {o2}: {p} != {ref}")

# (2) the same through ConditionalDistribution.fit (fit, then re-fit) for both
#     declaration orders of the parameter dict
rng = np.random.default_rng(1)
data1 = [m + s * rng.standard_normal(4000) for m, s in zip(m1, s1)]
data2 = [m + s * rng.standard_normal(4000) for m, s in zip(m2, s2)]
bounds1 = [(v - 0.5, v + 0.5) for v in x1]
bounds2 = [(v - 0.5, v + 0.5) for v in x2]

d = build()
cd = ConditionalDistribution(NormalDistribution(), d)
cd.fit(data2, x2, bounds2)
ref_cd = params(d)
print("ConditionalDistribution, fresh fit to the second data:", ref_cd)
for order in (("mu", "sigma"), ("sigma", "mu")):
    d = build()
    cd = ConditionalDistribution(NormalDistribution(), {k: d[k] for k in order})
    cd.fit(data1, x1, bounds1)
    try:
        cd.fit(data2, x2, bounds2)
    except Exception as e:  # noqa
        msg = f"ConditionalDistribution re-fit, parameter dict order {order}: {type(e).__name__}: {e}"
        print(msg)
        failures.append(msg)
        continue
    p = params(d)
    print("ConditionalDistribution re-fit, dict order", order, "->", p)
    if not np.allclose(p, ref_cd, rtol=1e-4, atol=1e-6):
        failures.append(f"ConditionalDistribution re-fit {order}: {p} != fresh {ref_cd}")

if failures:
    print("DEFECT:")
    for f in failures:
        print("  ", f)
    sys.exit(1)
print("ok")
