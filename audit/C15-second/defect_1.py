"""C15 - the line-sorting utility must return a permutation of ANY planar point
set.  Its docstring declares x and y as ``array_like``; a point set given as
plain Python lists / tuples (or as pandas Series with a non-default index)
makes it crash instead of returning a permutation.

The point sets below are 6 collinear, equally spaced points - the easiest
possible input: with ndarray input the very same points ARE returned as a
permutation, so the failure is not the known 'points get lost' problem."""
import sys
import collections
import numpy as np
import pandas as pd
from virocon.utils import sort_points_to_form_continuous_line

xs = [0.0, 1.0, 2.0, 3.0, 4.0, 5.0]
ys = [0.0, 0.5, 1.0, 1.5, 2.0, 2.5]
expected = collections.Counter(zip(xs, ys))

inputs = {
    "ndarray (control)": (np.array(xs), np.array(ys)),
    "list": (list(xs), list(ys)),
    "tuple": (tuple(xs), tuple(ys)),
    "pandas Series, index 10..15": (
        pd.Series(xs, index=range(10, 16)),
        pd.Series(ys, index=range(10, 16)),
    ),
}

failed = 0
for name, (x, y) in inputs.items():
    for opt in (False, True):
        try:
            xx, yy = sort_points_to_form_continuous_line(
                x, y, search_for_optimal_start=opt
            )
            got = collections.Counter(
                zip(np.asarray(xx).tolist(), np.asarray(yy).tolist())
            )
            ok = got == expected
            msg = "permutation" if ok else f"NOT a permutation: {sorted(got)}"
        except Exception as e:  # noqa
            ok = False
            msg = f"raised {type(e).__name__}: {str(e)[:70]}"
        print(f"{name:30s} optimal_start={opt!s:5s} -> {msg}")
        if not ok:
            failed += 1

if failed:
    print(f"\nFAIL: {failed} array_like point sets were not returned as a permutation")
    sys.exit(1)
print("OK")
