"""C19 - a TransformedModel built with random_state=42 does not give a repeatable
empirical_cdf: the Monte-Carlo sample behind it is drawn without the model's seed.

Two models are built from two fresh calls of the same predefined getter, fitted to
the same data (identical parameters), wrapped with the same random_state.  Their
seeded IFORM contours agree bit for bit, their empirical_cdf does not.
Exit status 0 if the property holds, 1 otherwise.
"""
import sys
import os
import warnings

import numpy as np

import virocon
from virocon import (
    GlobalHierarchicalModel,
    TransformedModel,
    IFORMContour,
    get_Nonzero_EW_Hs_S,
    read_ec_benchmark_dataset,
    variable_transform,
)

warnings.simplefilter("ignore")

root = os.path.dirname(os.path.dirname(os.path.abspath(virocon.__file__)))
data = read_ec_benchmark_dataset(
    os.path.join(root, "datasets", "ec-benchmark_dataset_A_1year.txt")
).values
hs, tz = data[:, 0], data[:, 1]
s, _ = variable_transform.hs_tz_to_s_d(hs, tz)
data_hs_s = np.c_[hs, s]


def build(seed):
    dist_descriptions, fit_descriptions, _, tr = get_Nonzero_EW_Hs_S()
    ghm = GlobalHierarchicalModel(dist_descriptions)
    ghm.fit(data_hs_s, fit_descriptions)
    return TransformedModel(
        ghm,
        tr["transform"],
        tr["inverse"],
        tr["jacobian"],
        precision_factor=0.2,
        random_state=seed,
    )


m1 = build(42)
m2 = build(42)
assert repr(m1.model) == repr(m2.model), "the two models should be identical"

x = np.array([[1.0, 5.0], [2.0, 6.0], [3.0, 7.0], [4.0, 9.0]])

# the seed does its job where it is used: IFORM contours are identical
c1 = IFORMContour(m1, 1e-3, n_points=8).coordinates
c2 = IFORMContour(m2, 1e-3, n_points=8).coordinates
print("seeded IFORM contours identical:", np.array_equal(c1, c2))

e1 = m1.empirical_cdf(x)
e2 = m2.empirical_cdf(x)
print("empirical_cdf model 1:", e1)
print("empirical_cdf model 2:", e2)

# same object: the memo is dropped by every fit() call, also one that is rejected
# and leaves the model as it was; the next evaluation then answers differently
before = repr(m1)
try:
    m1.fit(np.ones((5, 3)))
except ValueError:
    pass
assert repr(m1) == before
e1_again = m1.empirical_cdf(x)
print("empirical_cdf model 1 after a rejected fit:", e1_again)

ok = np.array_equal(c1, c2) and np.array_equal(e1, e2) and np.array_equal(e1, e1_again)
if not ok:
    print(
        "FAIL: a TransformedModel seeded with random_state=42 returns different "
        "empirical_cdf values for the same model and the same points"
    )
    sys.exit(1)
print("OK")
sys.exit(0)
