"""C19 - plot_marginal_quantiles is not repeatable.

The theoretical quantiles of a conditional variable come from
model.marginal_icdf(q, dim), a Monte-Carlo estimate that plot_marginal_quantiles
draws without any seed (it has no way to take one, and it also ignores the
random_state of a seeded TransformedModel).  Plotting the same fitted model and
the same sample twice gives two different QQ-plots.
Exit status 0 if the two plots agree, 1 otherwise.
"""
import sys
import os
import warnings

import numpy as np
import matplotlib

matplotlib.use("Agg")
import matplotlib.pyplot as plt

import virocon
from virocon import (
    GlobalHierarchicalModel,
    TransformedModel,
    get_OMAE2020_Hs_Tz,
    get_Nonzero_EW_Hs_S,
    plot_marginal_quantiles,
    read_ec_benchmark_dataset,
    variable_transform,
)

warnings.simplefilter("ignore")

root = os.path.dirname(os.path.dirname(os.path.abspath(virocon.__file__)))
data = read_ec_benchmark_dataset(
    os.path.join(root, "datasets", "ec-benchmark_dataset_A_1year.txt")
).values
sample = data[:400]


def theoretical_quantiles(model):
    axes = plot_marginal_quantiles(model, sample)
    q = [np.array(ax.get_lines()[0].get_xdata(), dtype=float) for ax in axes]
    plt.close("all")
    return q


failed = False

# 1) plain GlobalHierarchicalModel: Tz is conditional on Hs
dist_descriptions, fit_descriptions, semantics = get_OMAE2020_Hs_Tz()
ghm = GlobalHierarchicalModel(dist_descriptions)
ghm.fit(data, fit_descriptions)
before = repr(ghm)
q1 = theoretical_quantiles(ghm)
q2 = theoretical_quantiles(ghm)
assert repr(ghm) == before
for dim in range(2):
    same = np.array_equal(q1[dim], q2[dim])
    print(
        f"GlobalHierarchicalModel, variable {dim}: identical={same}, "
        f"max abs difference of the plotted quantiles={np.max(np.abs(q1[dim] - q2[dim])):.4g}"
    )
    failed |= not same

# 2) TransformedModel that was given a seed
hs, tz = data[:, 0], data[:, 1]
s, _ = variable_transform.hs_tz_to_s_d(hs, tz)
dd, fd, _, tr = get_Nonzero_EW_Hs_S()
inner = GlobalHierarchicalModel(dd)
inner.fit(np.c_[hs, s], fd)
tm = TransformedModel(
    inner, tr["transform"], tr["inverse"], tr["jacobian"], random_state=42
)
t1 = theoretical_quantiles(tm)
t2 = theoretical_quantiles(tm)
for dim in range(2):
    same = np.array_equal(t1[dim], t2[dim])
    print(
        f"TransformedModel(random_state=42), variable {dim}: identical={same}, "
        f"max abs difference of the plotted quantiles={np.max(np.abs(t1[dim] - t2[dim])):.4g}"
    )
    failed |= not same

if failed:
    print("FAIL: the same model and sample give different QQ-plots on every call")
    sys.exit(1)
print("OK")
sys.exit(0)
