"""C18 defect 3: an unknown weights keyword in a fit description is accepted
(and silently dropped) whenever the method is 'mle'; it is only looked at inside
ExponentiatedWeibullDistribution._fit_lsq.  Exit status 0 only if every fit
with weights='bogus' raises."""
import sys
import numpy as np
from virocon import (GlobalHierarchicalModel, DependenceFunction, WeibullDistribution,
                     LogNormalDistribution, ExponentiatedWeibullDistribution,
                     WidthOfIntervalSlicer)


def dep(x, a=1.0, b=0.5):
    return a + b * x


def model(first):
    return GlobalHierarchicalModel([
        {"distribution": first, "intervals": WidthOfIntervalSlicer(0.5, min_n_points=20)},
        {"distribution": LogNormalDistribution(), "conditional_on": 0,
         "parameters": {"mu": DependenceFunction(dep), "sigma": DependenceFunction(dep)}},
    ])


rng = np.random.default_rng(3)
x0 = 2 * rng.weibull(1.5, 3000)
x1 = np.exp(0.5 + 0.2 * x0 + 0.3 * rng.standard_normal(3000))
data = np.c_[x0, x1]

# reference: the same keyword is rejected for the least-squares method
try:
    model(ExponentiatedWeibullDistribution()).fit(data, [{"method": "wlsq", "weights": "bogus"}, None])
    print("wlsq + weights='bogus' accepted ?!")
except ValueError as e:
    print("wlsq + weights='bogus' rejected:", e)

cases = [
    ("EW first variable", ExponentiatedWeibullDistribution(), [{"method": "mle", "weights": "bogus"}, None]),
    ("Weibull first variable", WeibullDistribution(), [{"method": "mle", "weights": "bogus"}, None]),
    ("conditional variable", ExponentiatedWeibullDistribution(), [None, {"method": "mle", "weights": "bogus"}]),
    ("both variables", ExponentiatedWeibullDistribution(), [{"method": "mle", "weights": "bogus"}] * 2),
]
accepted = 0
for label, first, fd in cases:
    m = model(first)
    try:
        m.fit(data, fd)
        print("ACCEPTED (should have raised):", label, fd, "->", m.distributions[0])
        accepted += 1
    except Exception as e:
        print("rejected:", label, type(e).__name__, e)
sys.exit(1 if accepted else 0)
