"""C18 defect 2: non-finite evaluation points are accepted by marginal_cdf,
marginal_pdf and conditional_cdf of GlobalHierarchicalModel (pdf and cdf
reject them).  marginal_cdf(nan) of a conditional variable even returns the
probability 0.0.  Exit status 0 only if every call raises."""
import sys
import numpy as np
from virocon import (GlobalHierarchicalModel, DependenceFunction, WeibullDistribution,
                     LogNormalDistribution)


def dep(x, a=1.0, b=0.1):
    return a + b * x


m = GlobalHierarchicalModel([
    {"distribution": WeibullDistribution(alpha=2, beta=1.5)},
    {"distribution": LogNormalDistribution(f_sigma=0.3), "conditional_on": 0,
     "parameters": {"mu": DependenceFunction(dep)}},
])

# the siblings do reject
for name in ("pdf", "cdf"):
    try:
        getattr(m, name)([[np.nan, 1.0]])
        print(name, "accepted nan ?!")
    except ValueError:
        print(name, "rejects nan (as the property says)")

given = np.array([[1.0, 1.0]])
calls = [
    ("marginal_cdf([nan], dim=1)", lambda: m.marginal_cdf(np.array([np.nan]), 1)),
    ("marginal_cdf([inf], dim=1)", lambda: m.marginal_cdf(np.array([np.inf]), 1)),
    ("marginal_cdf([nan], dim=0)", lambda: m.marginal_cdf(np.array([np.nan]), 0)),
    ("marginal_pdf([nan], dim=0)", lambda: m.marginal_pdf(np.array([np.nan]), 0)),
    ("marginal_pdf([inf], dim=0)", lambda: m.marginal_pdf(np.array([np.inf]), 0)),
    ("conditional_cdf([nan], dim=1, given)", lambda: m.conditional_cdf(np.array([np.nan]), 1, given)),
]
accepted = 0
import warnings
warnings.simplefilter("ignore")
for label, call in calls:
    try:
        r = call()
        print("ACCEPTED (should have raised):", label, "->", r)
        accepted += 1
    except Exception as e:
        print("rejected:", label, type(e).__name__)
sys.exit(1 if accepted else 0)
