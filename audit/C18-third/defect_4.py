"""C18 defect 4: NumberOfIntervalsSlicer silently lowers an EXPLICITLY given
min_n_intervals to n_intervals, so slicing that leaves fewer intervals than the
user demanded is not rejected (neither at construction nor by slice_ / fit).
Exit status 0 only if an exception is raised."""
import sys
import numpy as np
from virocon import (GlobalHierarchicalModel, DependenceFunction, WeibullDistribution,
                     LogNormalDistribution, NumberOfIntervalsSlicer, WidthOfIntervalSlicer)

rng = np.random.default_rng(1)
x0 = 2 * rng.weibull(1.5, 5000)
x1 = np.exp(0.5 + 0.2 * x0 + 0.3 * rng.standard_normal(5000))

# the sibling slicer honours the explicit minimum
try:
    WidthOfIntervalSlicer(width=3.0, min_n_intervals=5, min_n_points=1).slice_(x0)
    print("WidthOfIntervalSlicer: accepted ?!")
except RuntimeError as e:
    print("WidthOfIntervalSlicer rejects:", e)

bad = 0
try:
    slicer = NumberOfIntervalsSlicer(n_intervals=4, min_n_intervals=5, min_n_points=1)
    slices, refs, bounds = slicer.slice_(x0)
    print(f"ACCEPTED (should have raised): min_n_intervals=5 demanded, got {len(slices)} intervals, "
          f"slicer.min_n_intervals is now {slicer.min_n_intervals}")
    bad += 1
except (RuntimeError, ValueError) as e:
    print("rejected:", e)


def dep(x, a=1.0, b=0.5):
    return a + b * x


try:
    m = GlobalHierarchicalModel([
        {"distribution": WeibullDistribution(),
         "intervals": NumberOfIntervalsSlicer(n_intervals=3, min_n_intervals=6, min_n_points=10)},
        {"distribution": LogNormalDistribution(), "conditional_on": 0,
         "parameters": {"mu": DependenceFunction(dep), "sigma": DependenceFunction(dep)}},
    ])
    m.fit(np.c_[x0, x1])
    print("ACCEPTED (should have raised): model fitted on",
          len(m.distributions[1].data_intervals), "intervals although min_n_intervals=6")
    bad += 1
except (RuntimeError, ValueError) as e:
    print("rejected:", e)
sys.exit(1 if bad else 0)
