"""C18 defect 1: a FIRST variable described as conditional (it has dependence
functions in 'parameters') is accepted when its 'conditional_on' is None.

The constructor returns a model whose first distribution is a
ConditionalDistribution that is conditional on nothing; pdf / draw_sample /
fit / IFORM then fail far away with unrelated errors.
Exit status 0 only if every such description is rejected by the constructor."""
import sys
import numpy as np
from virocon import (GlobalHierarchicalModel, DependenceFunction, WeibullDistribution,
                     LogNormalDistribution, ExponentiatedWeibullDistribution)


def dep(x, a=1.0, b=0.5):
    return a + b * x


def first(dist):
    return {"distribution": dist, "conditional_on": None,
            "parameters": {p: DependenceFunction(dep) for p in dist.parameters}}


def later(i):
    return {"distribution": LogNormalDistribution(f_sigma=0.3), "conditional_on": i - 1,
            "parameters": {"mu": DependenceFunction(dep)}}


accepted = []
for n_dim in (1, 2, 3, 4):
    for dist in (WeibullDistribution(), LogNormalDistribution(), ExponentiatedWeibullDistribution()):
        descs = [first(dist)] + [later(i) for i in range(1, n_dim)]
        try:
            model = GlobalHierarchicalModel(descs)
        except Exception as e:  # the property: rejected where supplied
            continue
        accepted.append((n_dim, type(dist).__name__, repr(model.distributions[0])[:60]))

# an all-fixed distribution with an (empty) 'parameters' dict on the first variable
try:
    m = GlobalHierarchicalModel([{"distribution": WeibullDistribution(f_alpha=1, f_beta=1, f_gamma=0),
                                  "conditional_on": None, "parameters": {}}])
    accepted.append((1, "all fixed, parameters={}", repr(m.distributions[0])))
except Exception:
    pass

for a in accepted:
    print("ACCEPTED (should have raised):", a)
if accepted:
    # show that the accepted model is unusable
    m = GlobalHierarchicalModel([first(WeibullDistribution()), {"distribution": WeibullDistribution()}])
    for name, call in (("pdf", lambda: m.pdf([[1.0, 1.0]])), ("draw_sample", lambda: m.draw_sample(3)),
                       ("fit", lambda: m.fit(np.abs(np.random.default_rng(0).normal(size=(500, 2))) + 0.1))):
        try:
            call()
            print(name, "-> returned")
        except Exception as e:
            print(name, "-> fails later with", type(e).__name__, ":", str(e)[:80])
    sys.exit(1)
print("all rejected")
