import warnings, numpy as np, sys
sys.path.insert(0, "/tmp/w8_C04/_audit")
import importlib.util
src = open("/tmp/w8_C04/_audit/fuzz1.py").read().split("rng = np.random.default_rng(1)")[0]
exec(src)
from virocon import *
from virocon.jointmodels import TransformedModel
import scipy.stats as sts
from virocon.distributions import ScipyDistribution
rng = np.random.default_rng(5)
dists = {
 "weib": lambda: WeibullDistribution(alpha=2, beta=1.5, gamma=0.1),
 "logn": lambda: LogNormalDistribution(mu=0.5, sigma=0.4),
 "norm": lambda: NormalDistribution(mu=10, sigma=1),
 "lnnf": lambda: LogNormalNormFitDistribution(mu_norm=3, sigma_norm=1),
 "expw": lambda: ExponentiatedWeibullDistribution(alpha=1, beta=1.2, delta=3),
 "ggam": lambda: GeneralizedGammaDistribution(m=2, c=1.5, lambda_=1),
 "vonm": lambda: VonMisesDistribution(kappa=2, mu=3),
}
for n1, d1 in dists.items():
    for n2, d2 in dists.items():
        try:
            m = GlobalHierarchicalModel([{"distribution": d1()}, {"distribution": d2()}])
            s = m.draw_sample(3000, random_state=1)
        except Exception as e:
            print("MODEL-EXC", n1, n2, type(e).__name__, e); continue
        if s.min() < 0: 
            s = np.abs(s)
        for kind in ("and", "or"):
            check(kind, m, 0.05, 5, s, 0.1, tag=f"{n1}-{n2}")
print("indep done")
# transformed
dd, fd, sem, tr = get_Windmeier_EW_Hs_S()
tm = TransformedModel(GlobalHierarchicalModel(dd), tr["transform"], tr["inverse"], tr["jacobian"], precision_factor=0.2, random_state=42)
data = read_ec_benchmark_dataset("datasets/ec-benchmark_dataset_A.txt")
tm.fit(data.iloc[:, :2] if hasattr(data, "iloc") else data, fit_descriptions=fd)
s = tm.draw_sample(5000, random_state=2)
print("nan in sample", np.isnan(s).sum(), s.min(0), s.max(0))
for kind in ("and", "or"):
    print(kind, check(kind, tm, 0.02, 5, s, 0.1, tag="transformed"))
    print(kind, check(kind, tm, 0.02, 5, data, 0.1, tag="transformed-data"))
