import warnings, numpy as np, sys, pandas as pd
src = open("/tmp/w8_C04/_audit/fuzz1.py").read().split("rng = np.random.default_rng(1)")[0]
exec(src)
rng = np.random.default_rng(11)
m = mk(get_OMAE2020_Hs_Tz)
m2 = mk(get_DNVGL_Hs_U)
tot = 0; nw = 0
for trial in range(60):
    model = m if trial % 2 == 0 else m2
    alpha = float(np.exp(rng.uniform(np.log(1e-3), np.log(0.2))))
    n = int(rng.choice([200, 201, 1000, 5000]))
    deg = float(rng.choice([1, 2, 3, 4.5, 9, 10, 15, 30]))
    ae = float(rng.choice([0.005, 0.01, 0.05, 0.2, rng.uniform(0.005, 0.2)]))
    s = model.draw_sample(n, random_state=int(rng.integers(1e6)))
    mode = trial % 6
    if mode == 0: s = np.round(s, 1)              # ties
    elif mode == 1: s = np.round(s).astype(int)   # int dtype, zeros
    elif mode == 2: s[rng.random(n) < 0.5, 1] = 0 # many zeros
    elif mode == 3: s = s * 50                     # scale mismatch
    elif mode == 4: s = s / 50
    elif mode == 5: s[:, 0] = s[0, 0]              # constant x
    samp = s
    if trial % 3 == 1: samp = pd.DataFrame(s, columns=["a", "b"])
    if trial % 3 == 2: samp = s.tolist()
    for kind in ("and", "or"):
        lo, hi = [(10, 80), (0, 90), (5, 85), (30, 31), (44.9, 45.1)][int(rng.integers(5))]
        w = check(kind, model, alpha, deg, samp, ae, lo, hi, tag=f"mode{mode}/n={n}")
        tot += 1; nw += bool(w)
print("done", tot, nw)
