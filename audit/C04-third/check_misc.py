import warnings, numpy as np, io, sys, contextlib
from virocon import GlobalHierarchicalModel, AndContour, OrContour, get_OMAE2020_Hs_Tz, get_DNVGL_Hs_U
m = GlobalHierarchicalModel(get_DNVGL_Hs_U()[0])
# float deg_steps where arange overshoots
for step in [1.8, 1.2, 1.5, 2.25, 3.6, 1.125, 7.2, 1.4, 2.8, 0.9*2, 11.25, 22.5, 4.5, 1.0000000000000002*9]:
    t = np.arange(0, 90, step); t2 = np.arange(10, 80, step)
    print(step, t[-1], len(t), t2[-1])
s = m.draw_sample(2000, random_state=3)
# default-filter repeat: second failing contour silent?
warnings.resetwarnings()
buf = io.StringIO()
with contextlib.redirect_stderr(buf):
    AndContour(m, 0.001, deg_step=30, sample=s[:200], allowed_error=0.005)
    a = buf.getvalue().count("required precision")
    AndContour(m, 0.0011, deg_step=30, sample=s[:300], allowed_error=0.005)
    b = buf.getvalue().count("required precision")
print("shown first:", a, "shown after second:", b)
# 3-D model
from virocon import WeibullDistribution
m3 = GlobalHierarchicalModel([{"distribution": WeibullDistribution(1,1,0)}]*3)
for C in (AndContour, OrContour):
    try: C(m3, 0.1)
    except Exception as e: print(type(e).__name__, e)
