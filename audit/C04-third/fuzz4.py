import warnings, numpy as np, sys
src = open("/tmp/w8_C04/_audit/fuzz1.py").read().split("rng = np.random.default_rng(1)")[0]
exec(src)
from virocon.distributions import *
from virocon.distributions import LogNormalNormFitDistribution, ScipyDistribution
import scipy.stats as sts
class Gam(ScipyDistribution):
    scipy_dist_name = "gamma"
class Ray(ScipyDistribution):
    scipy_dist = sts.rayleigh
for d1, d2, t in [(LogNormalNormFitDistribution(mu_norm=3, sigma_norm=1), Gam(2.0, 0, 1.5), "lnnf-gam"), (Gam(2.0, 0, 1.5), Ray(0, 2), "gam-ray"), (Ray(0,2), LogNormalNormFitDistribution(mu_norm=3, sigma_norm=1), "ray-lnnf")]:
    m = GlobalHierarchicalModel([{"distribution": d1}, {"distribution": d2}])
    s = m.draw_sample(3000, random_state=1)
    for kind in ("and", "or"):
        print(t, kind, check(kind, m, 0.05, 5, s, 0.1, tag=t))
        # sample None
        with warnings.catch_warnings(record=True) as w:
            warnings.simplefilter("always")
            C = AndContour if kind == "and" else OrContour
            try:
                c = C(m, 0.05, deg_step=5, allowed_error=0.1)
                print(t, kind, "sample None ok", c.coordinates.shape, c.coordinates.dtype, len(w))
            except Exception as e:
                print(t, kind, "sample None EXC", type(e).__name__, e)
