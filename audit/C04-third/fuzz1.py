import warnings, numpy as np, sys, traceback
from virocon import (GlobalHierarchicalModel, AndContour, OrContour, get_OMAE2020_Hs_Tz, get_DNVGL_Hs_Tz, get_OMAE2020_V_Hs, get_DNVGL_Hs_U,
    WeibullDistribution, LogNormalDistribution, ExponentiatedWeibullDistribution)

def mk(f):
    dd, fd, sem = f()
    return GlobalHierarchicalModel(dd)

def check(kind, model, alpha, deg_step, sample, ae, lo=10, hi=80, tag=""):
    with warnings.catch_warnings(record=True) as w:
        warnings.simplefilter("always")
        try:
            if kind == "and":
                c = AndContour(model, alpha, deg_step=deg_step, sample=sample, allowed_error=ae)
            else:
                c = OrContour(model, alpha, deg_step=deg_step, sample=sample, allowed_error=ae, lowest_theta=lo, highest_theta=hi)
        except Exception as e:
            print("EXC", tag, kind, alpha, deg_step, ae, lo, hi, type(e).__name__, e)
            return
    warned = any("required precision" in str(x.message) for x in w)
    co = c.coordinates
    x, y = np.asarray(sample).T
    if kind == "and":
        thetas = np.arange(0, 90, deg_step)
        assert co.shape == (len(thetas)+1, 2), (co.shape, len(thetas))
        assert co[-1,0] == 0 and co[-1,1] == 0
        pts = co[:-1]
        for th, p in zip(thetas, pts):
            r = np.hypot(*p)
            ex = np.array([np.cos(np.deg2rad(th)), np.sin(np.deg2rad(th))])*r
            if not np.allclose(ex, p, rtol=1e-9, atol=1e-12*r):
                print("RAY", tag, kind, th, p, ex)
            pe = np.mean((x > p[0]) & (y > p[1]))
            if not warned and abs(pe-alpha) > ae*alpha*(1+1e-9):
                print("PE", tag, kind, alpha, deg_step, ae, th, p, pe)
    else:
        thetas = np.arange(lo, hi, deg_step)
        pts = co[:-3]
        if not (co[-3,0]==0 and co[-3,1]==pts[-1,1] and co[-2,0]==0 and co[-2,1]==0 and co[-1,0]==pts[0,0] and co[-1,1]==0):
            print("CLOSURE", tag, co[-4:], pts[0])
        # each pt must be on one of the rays
        ang = np.rad2deg(np.arctan2(pts[:,1], pts[:,0]))
        for a, p in zip(ang, pts):
            if np.min(np.abs(thetas - a)) > 1e-7:
                print("RAY", tag, kind, a, p)
            pe = np.mean((x > p[0]) | (y > p[1]))
            if not warned and abs(pe-alpha) > ae*alpha*(1+1e-9):
                print("PE", tag, kind, alpha, deg_step, ae, a, p, pe)
            if p[0] >= 1.1*x.max() or p[1] >= 1.1*y.max():
                print("RANGE", tag, p)
        if len(pts) != len(thetas) and not warned:
            print("DROPPED-no-warn", tag, kind, alpha, deg_step, ae, lo, hi, len(pts), len(thetas))
    return warned

rng = np.random.default_rng(1)
models = {f.__name__: mk(f) for f in (get_OMAE2020_Hs_Tz, get_DNVGL_Hs_Tz, get_OMAE2020_V_Hs, get_DNVGL_Hs_U)}
nw = 0; tot = 0
for name, m in models.items():
    for trial in range(12):
        alpha = float(np.exp(rng.uniform(np.log(1e-3), np.log(0.2))))
        n = int(rng.choice([200, 500, 2000, 20000, int(100/alpha)]))
        deg = float(rng.choice([1, 3, 5, 7.5, 30, rng.uniform(1,30)]))
        ae = float(rng.uniform(0.005, 0.2))
        s = m.draw_sample(n, random_state=int(rng.integers(1e6)))
        for kind in ("and", "or"):
            lo, hi = (10, 80) if rng.random() < .5 else (float(rng.uniform(1, 40)), float(rng.uniform(50, 89)))
            w = check(kind, m, alpha, deg, s, ae, lo, hi, tag=f"{name}/n={n}")
            tot += 1; nw += bool(w)
print("done", tot, "warned", nw)
