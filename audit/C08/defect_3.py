"""C08 defect 3: conditional generalized gamma pdf: the vectorised call raises
where the one-at-a-time calls give numbers (x == 0 together with c < 0)."""
import numpy as np
from virocon import DependenceFunction, GeneralizedGammaDistribution
from virocon.distributions import ConditionalDistribution


def _dec(x, a=1.0, b=-0.5):
    return a + b * x


cd = ConditionalDistribution(
    GeneralizedGammaDistribution(f_m=2.0, f_lambda_=1.0),
    {"c": DependenceFunction(_dec)},
)
x = np.array([0.0, 1.0, 2.0])
g = np.array([4.0, 4.0, 1.0])  # c = -1, -1, 0.5 (all valid: c != 0)

one_at_a_time = np.array([cd.pdf(xi, gi) for xi, gi in zip(x, g)])
print("one at a time:", one_at_a_time)
assert np.all(np.isfinite(one_at_a_time))
# cdf and icdf are fine vectorised
assert np.allclose(cd.cdf(x, g), [cd.cdf(xi, gi) for xi, gi in zip(x, g)])

# ValueError: operands could not be broadcast together with shapes (2,) (3,)
vectorised = cd.pdf(x, g)
assert np.allclose(vectorised, one_at_a_time)
# also with a single conditioning value
assert np.allclose(cd.pdf(x, 4.0), [cd.pdf(xi, 4.0) for xi in x])
print("ok")
