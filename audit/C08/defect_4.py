"""C08 defect 4: conditional exponentiated Weibull pdf rejects a list of x
(array_like), while its cdf/icdf and every other template's pdf accept it."""
import numpy as np
from virocon import (
    DependenceFunction,
    ExponentiatedWeibullDistribution,
    WeibullDistribution,
)
from virocon.distributions import ConditionalDistribution


def _lin(x, a=0.5, b=0.3):
    return a + b * x


def _sq(x, a=0.8, b=0.1):
    return a + b * x**2


x = [1.0, 2.0]
g = np.array([1.0, 2.0])

cd_w = ConditionalDistribution(
    WeibullDistribution(f_gamma=0),
    {"alpha": DependenceFunction(_lin), "beta": DependenceFunction(_sq)},
)
assert np.allclose(cd_w.pdf(x, g), [cd_w.pdf(xi, gi) for xi, gi in zip(x, g)])

cd = ConditionalDistribution(
    ExponentiatedWeibullDistribution(f_delta=2),
    {"alpha": DependenceFunction(_lin), "beta": DependenceFunction(_sq)},
)
one = np.array([cd.pdf(xi, gi) for xi, gi in zip(x, g)])
assert np.allclose(cd.cdf(x, g), [cd.cdf(xi, gi) for xi, gi in zip(x, g)])
assert np.allclose(cd.icdf([0.1, 0.9], g), [cd.icdf(p, gi) for p, gi in zip([0.1, 0.9], g)])
# TypeError: '>' not supported between instances of 'list' and 'int'
vec = cd.pdf(x, g)
assert np.allclose(vec, one)
print("ok")
