"""C08 defect 5: a ScipyDistribution template whose shape parameter is called
'n' (scipy's ksone, kstwo, irwinhall) cannot be sampled conditionally: the
parameter keyword collides with draw_sample's sample-size argument n."""
import numpy as np
from virocon import DependenceFunction, ScipyDistribution
from virocon.distributions import ConditionalDistribution


class IrwinHall(ScipyDistribution):
    scipy_dist_name = "irwinhall"


def _lin(x, a=1.0, b=1.0):
    return a + b * x


cd = ConditionalDistribution(
    IrwinHall(f_loc=0, f_scale=1), {"n": DependenceFunction(_lin)}
)
g = 3.0  # n = 4
import scipy.stats as sts

assert np.isclose(cd.pdf(1.7, g), sts.irwinhall.pdf(1.7, 4))
assert np.isclose(cd.cdf(1.7, g), sts.irwinhall.cdf(1.7, 4))
assert np.isclose(cd.icdf(0.3, g), sts.irwinhall.ppf(0.3, 4))
# TypeError: ScipyDistribution.draw_sample() got multiple values for argument 'n'
s = cd.draw_sample(5, g, random_state=0)
assert np.allclose(s, sts.irwinhall.rvs(4, size=5, random_state=0))
print("ok")
