"""C08 defect 2: vectorised sampling draws ONE value for many conditioning
values when no dependence function returns an array (constant dependence)."""
import numpy as np
from virocon import (
    DependenceFunction,
    NormalDistribution,
    WeibullDistribution,
    GlobalHierarchicalModel,
)
from virocon.distributions import ConditionalDistribution


def _constant(x, a=2.0):
    return a  # the parameter does not vary with the conditioning variable


def _linear(x, a=2.0, b=0.0):
    return a + b * x  # numerically the same function, but array valued


g = np.array([1.0, 2.0, 3.0, 4.0])
cd_lin = ConditionalDistribution(
    NormalDistribution(),
    {"mu": DependenceFunction(_linear), "sigma": DependenceFunction(_linear)},
)
cd_const = ConditionalDistribution(
    NormalDistribution(),
    {"mu": DependenceFunction(_constant), "sigma": DependenceFunction(_constant)},
)
# same parameter values at every g ...
for gi in g:
    assert cd_lin._get_param_values(gi) == cd_const._get_param_values(gi)
# ... and pdf agrees
assert np.allclose(cd_lin.pdf(g, g), cd_const.pdf(g, g))

s_lin = cd_lin.draw_sample(1, g, random_state=0)
s_const = cd_const.draw_sample(1, g, random_state=0)
print(s_lin.shape, s_const.shape)

# In the joint model every realisation of the conditional variable is identical.
model = GlobalHierarchicalModel(
    [
        {"distribution": WeibullDistribution(1, 2, 0)},
        {
            "distribution": NormalDistribution(),
            "conditional_on": 0,
            "parameters": {
                "mu": DependenceFunction(_constant),
                "sigma": DependenceFunction(_constant),
            },
        },
    ]
)
sample = model.draw_sample(1000, random_state=0)
n_unique = len(np.unique(sample[:, 1]))
print("unique values of the conditional variable in 1000 draws:", n_unique)

assert s_const.shape == s_lin.shape == (1, len(g)), (s_const.shape, s_lin.shape)
assert n_unique == 1000, n_unique
assert abs(np.std(sample[:, 1]) - 2.0) < 0.2
print("ok")
