"""C08 defect 1: a DependenceFunction whose dependent parameter (another
DependenceFunction) is not the LAST parameter of func cannot be evaluated."""
import numpy as np
from virocon import DependenceFunction, WeibullDistribution
from virocon.distributions import ConditionalDistribution


def _beta(x, a=1.5, b=0.2):
    return a + b * x


# the same dependence, the inner function being the last / the middle parameter
def _alpha_last(x, a, b, d_of_x):
    return (a + b * x) / 2.0445 ** (1 / d_of_x(x))


def _alpha_mid(x, a, d_of_x, b):
    return (a + b * x) / 2.0445 ** (1 / d_of_x(x))


beta_dep = DependenceFunction(_beta)
alpha_last = DependenceFunction(_alpha_last, d_of_x=beta_dep)
alpha_mid = DependenceFunction(_alpha_mid, d_of_x=beta_dep)
assert alpha_last.parameters == alpha_mid.parameters == {"a": 1, "b": 1}

g = np.array([0.5, 1.0, 3.0])
x = np.array([0.7, 1.1, 2.0])
expected_alpha = (1 + 1 * g) / 2.0445 ** (1 / _beta(g))
assert np.allclose(alpha_last(g), expected_alpha)

template = WeibullDistribution(f_gamma=0)
cd = ConditionalDistribution(template, {"alpha": alpha_mid, "beta": beta_dep})
expected = template.pdf(x, alpha=expected_alpha, beta=_beta(g), gamma=0)

# TypeError: _alpha_mid() got multiple values for argument 'd_of_x'
got = cd.pdf(x, g)
assert np.allclose(got, expected)
assert np.allclose(alpha_mid(g), expected_alpha)
assert np.allclose(alpha_mid(g, 1, 1), expected_alpha)
print("ok")
