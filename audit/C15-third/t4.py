import sys
sys.path.insert(0, "/tmp/w8_C15/_audit")
import numpy as np, warnings
from t2 import ring
from virocon import HighestDensityContour
m = ring()
c = HighestDensityContour(m, 0.001, [(-3, 13), (0, 2*np.pi)], [0.1, 0.05])
f = c.cell_averaged_joint_pdf(c.cell_center_coordinates)
print(f.sum()*0.1*0.05, c.fm)
x1 = c.cell_center_coordinates[0]
for i in range(0, len(x1), 6):
    print(round(x1[i],2), f[i, ::16].round(5))
import scipy.stats as sts
print(sts.vonmises.cdf(np.linspace(0, 2*np.pi, 9), 0.2, 0))
