import sys
sys.path.insert(0, "/tmp/w8_C15/_audit")
from t1 import check, seastate
m = seastate()
check("reversed limits default deltas", m, 0.01, [(20, 0), (18, 0)], None)
check("one reversed", m, 0.01, [(0, 20), (18, 0)], None)
check("tuple deltas", m, 0.01, ((0, 20), (0, 18)), (0.2, 0.2))
