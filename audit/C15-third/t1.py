import sys, warnings, time
sys.path.insert(0, "/tmp/w8_C15/_audit")
import numpy as np
from virocon import (HighestDensityContour, GlobalHierarchicalModel, DependenceFunction,
                     WeibullDistribution, LogNormalDistribution, NormalDistribution,
                     ExponentiatedWeibullDistribution, VonMisesDistribution)
from ref import reference, got_sets


def seastate():
    def _power3(x, a=0.1000, b=1.489, c=0.1901):
        return a + b * x**c
    def _exp3(x, a=0.0400, b=0.1748, c=-0.2243):
        return a + b * np.exp(c * x)
    return GlobalHierarchicalModel([
        {"distribution": WeibullDistribution(alpha=2.776, beta=1.471, gamma=0.8888)},
        {"distribution": LogNormalDistribution(), "conditional_on": 0,
         "parameters": {"mu": DependenceFunction(_power3), "sigma": DependenceFunction(_exp3)}},
    ])


def threed():
    def _power3(x, a=0.1000, b=1.489, c=0.1901):
        return a + b * x**c
    def _exp3(x, a=0.0400, b=0.1748, c=-0.2243):
        return a + b * np.exp(c * x)
    def _lin(x, a=2.0, b=1.5):
        return a + b * x
    def _c(x, a=2.0):
        return a + 0 * x
    return GlobalHierarchicalModel([
        {"distribution": WeibullDistribution(alpha=2.776, beta=1.471, gamma=0.8888)},
        {"distribution": LogNormalDistribution(), "conditional_on": 0,
         "parameters": {"mu": DependenceFunction(_power3), "sigma": DependenceFunction(_exp3)}},
        {"distribution": NormalDistribution(), "conditional_on": 0,
         "parameters": {"mu": DependenceFunction(_lin), "sigma": DependenceFunction(_c)}},
    ])


def check(name, model, alpha, limits=None, deltas=None):
    t = time.time()
    with warnings.catch_warnings():
        warnings.simplefilter("ignore")
        try:
            c = HighestDensityContour(model, alpha, limits=limits, deltas=deltas)
        except Exception as e:
            print(name, "EXC", type(e).__name__, e)
            return
    ref, R, B, lab = reference(c)
    kind, got = got_sets(c)
    nref = sum(len(r) for r in ref)
    ngot = sum(len(g) for g in got)
    dup = any(len(set(g)) != len(g) for g in got)
    allref = set().union(*[set(r) for r in ref])
    allgot = set().union(*[set(g) for g in got])
    same_parts = sorted(ref) == sorted(got)
    print(f"{name}: kind={kind} regions={len(ref)} parts={len(got)} nref={nref} ngot={ngot} "
          f"dup={dup} extra={len(allgot-allref)} missing={len(allref-allgot)} same_parts={same_parts} "
          f"shape={R.shape} t={time.time()-t:.1f}")
    return c


if __name__ == "__main__":
    m = seastate()
    check("2d default a=1e-3", m, 1e-3)
    check("2d lim .1 a=1.37e-5", m, 1.37e-5, [(0, 20), (0, 18)], [0.1, 0.1])
    check("2d aniso a=0.3", m, 0.3, [(0, 20), (0, 18)], [0.5, 0.05])
    check("2d aniso a=1e-6", m, 1e-6, [(0, 25), (0, 20)], [0.05, 0.5])
    check("2d cut a=0.01", m, 0.01, [(0, 3), (0, 8)], [0.1, 0.1])
    m3 = threed()
    check("3d a=0.01", m3, 0.01, [(0, 12), (0, 14), (0, 25)], [0.4, 0.4, 0.5])
    check("3d aniso a=0.3", m3, 0.3, [(0, 12), (0, 14), (0, 25)], [0.2, 0.4, 2.0])
    check("3d a=1e-6", m3, 1e-6, [(0, 25), (0, 20), (-10, 50)], [0.5, 0.5, 1.0])
    check("3d default a=0.1", m3, 0.1, None, None) if False else None
