import sys
sys.path.insert(0, "/tmp/w8_C15/_audit")
import numpy as np, warnings
from t2 import ring
from virocon import HighestDensityContour
from ref import reference
m = ring()
for a in (0.05, 0.01,0.001):
    c = HighestDensityContour(m, a, [(-3, 13), (0, 2*np.pi)], [0.1, 0.05])
    ref, R, B, lab = reference(c)
    print(a, R.sum(), R.size, type(c.coordinates), len(c.coordinates), [np.array(p).shape for p in c.coordinates])
    for row in R[::6, ::4].T[::-1]:
        print("".join("#" if v else "." for v in row))
