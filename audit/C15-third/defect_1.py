"""
C15 defect 1: a single connected 2-D highest-density region that encloses a hole
(ring-shaped region) is returned as TWO coordinate sets (a nested list), because the
connected components are computed on the boundary mask (HDC) and not on the region (HDR).

Model: x1 ~ Normal(5, 2) (e.g. a speed), x2 | x1 ~ von Mises(mu=0, kappa(x1)) (a direction
on the grid [0, 2*pi], mean direction 0 -> the density is high at both ends of the
direction axis).  kappa is large for x1 around 5 and small in the tails, so the 0.99
highest-density region consists of the two strips at x2 ~ 0 and x2 ~ 2*pi joined by
two "bridges" of nearly uniform columns: ONE connected region with a hole.

Exit status 0 only if the number of returned coordinate sets equals the number of
connected regions (here 1 -> one (N, 2) array).
"""
import itertools
import sys
import warnings

import numpy as np

from virocon import (
    GlobalHierarchicalModel,
    DependenceFunction,
    NormalDistribution,
    VonMisesDistribution,
    HighestDensityContour,
)


def _kappa(x, a=0.05, b=30.0):
    return a + b * np.exp(-((x - 5.0) ** 2) / 2.0)


def _mu(x, a=0.0):
    return a + 0 * x


model = GlobalHierarchicalModel(
    [
        {"distribution": NormalDistribution(mu=5, sigma=2)},
        {
            "distribution": VonMisesDistribution(),
            "conditional_on": 0,
            "parameters": {
                "kappa": DependenceFunction(_kappa),
                "mu": DependenceFunction(_mu),
            },
        },
    ]
)

alpha = 0.01
limits = [(-3, 13), (0, 2 * np.pi)]
deltas = [0.1, 0.05]
with warnings.catch_warnings():
    warnings.simplefilter("ignore")
    contour = HighestDensityContour(model, alpha, limits=limits, deltas=deltas)

# ---- independent reconstruction of the enclosed region on the contour's own grid ----
cc = contour.cell_center_coordinates
prob = contour.cell_averaged_joint_pdf(cc)
for d in deltas:
    prob = prob * d
assert prob.sum() >= 1 - alpha  # the grid holds the probability, no "whole grid" fallback
region, _ = HighestDensityContour.cumsum_biggest_until(prob, 1 - alpha)
region = region.astype(bool)
shape = region.shape
offsets = [o for o in itertools.product((-1, 0, 1), repeat=2) if any(o)]


def inside(c):
    return all(0 <= q < s for q, s in zip(c, shape))


# connected regions (full 3^n - 1 neighbourhood), plain flood fill
label = np.zeros(shape, int)
n_regions = 0
for start in map(tuple, np.argwhere(region)):
    if label[start]:
        continue
    n_regions += 1
    label[start] = n_regions
    stack = [start]
    while stack:
        c = stack.pop()
        for o in offsets:
            nb = (c[0] + o[0], c[1] + o[1])
            if inside(nb) and region[nb] and not label[nb]:
                label[nb] = n_regions
                stack.append(nb)

# boundary cells: region cells with a neighbour outside the region or outside the grid
boundary = set()
for c in map(tuple, np.argwhere(region)):
    for o in offsets:
        nb = (c[0] + o[0], c[1] + o[1])
        if not inside(nb) or not region[nb]:
            boundary.add((cc[0][c[0]], cc[1][c[1]]))
            break

print(f"connected regions of the enclosed region : {n_regions}")
print(f"boundary cells of the region             : {len(boundary)}")

coords = contour.coordinates
if isinstance(coords, np.ndarray):
    parts = [coords]
    print(f"coordinates: ndarray of shape {coords.shape}")
else:
    parts = [np.array(p).T for p in coords]
    print(
        f"coordinates: {type(coords).__name__} with {len(coords)} coordinate sets, "
        f"sizes {[len(p) for p in parts]}"
    )
returned = set(map(tuple, np.vstack(parts)))
print(f"returned points that are boundary cells  : {len(returned & boundary)} of {len(returned)}")

ok = True
if n_regions != 1:
    print("TEST SETUP PROBLEM: expected exactly one connected region")
    ok = False
if len(parts) != n_regions:
    print(
        f"VIOLATION: {n_regions} connected region(s) but {len(parts)} coordinate sets returned "
        "(one set per connected component of the BOUNDARY, not per region)"
    )
    ok = False
if n_regions == 1 and not (
    isinstance(coords, np.ndarray) and coords.ndim == 2 and coords.shape[1] == 2
):
    print("VIOLATION: a single connected 2-D region is not returned as one (N, 2) array")
    ok = False
if not returned <= boundary:
    print("VIOLATION: returned points that are not boundary cells")
    ok = False

sys.exit(0 if ok else 1)
