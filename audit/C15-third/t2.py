import sys
sys.path.insert(0, "/tmp/w8_C15/_audit")
import numpy as np
from virocon import (GlobalHierarchicalModel, DependenceFunction, NormalDistribution,
                     VonMisesDistribution, WeibullDistribution, LogNormalDistribution)
from t1 import check


# bimodal: sigma of x2|x1 small at two x1 values
def bimodal():
    def _mu(x, a=5.0):
        return a + 0 * x
    def _sig(x, a=0.2):
        return a + 2.0 * (1 - np.exp(-((x - 3) ** 2) / 0.5) - np.exp(-((x - 7) ** 2) / 0.5)) + 0
    return GlobalHierarchicalModel([
        {"distribution": NormalDistribution(mu=5, sigma=2)},
        {"distribution": NormalDistribution(), "conditional_on": 0,
         "parameters": {"mu": DependenceFunction(_mu), "sigma": DependenceFunction(_sig)}},
    ])


# ring: direction variable, two periods of a von Mises, kappa large in the middle
def ring():
    def _kappa(x, a=0.05, b=30.0):
        return a + b * np.exp(-(x - 5.0) ** 2 / 2.0)
    def _mu(x, a=0.0):
        return a + 0 * x
    return GlobalHierarchicalModel([
        {"distribution": NormalDistribution(mu=5, sigma=2)},
        {"distribution": VonMisesDistribution(), "conditional_on": 0,
         "parameters": {"kappa": DependenceFunction(_kappa), "mu": DependenceFunction(_mu)}},
    ])


if __name__ == "__main__":
    mb = bimodal()
    for a in (0.3, 0.1, 0.01, 1e-4):
        check(f"bimodal a={a}", mb, a, [(-5, 15), (-5, 15)], [0.1, 0.1])
    mr = ring()
    for a in (0.3, 0.1, 0.01, 1e-3):
        c = check(f"ring a={a}", mr, a, [(-3, 13), (0, 2 * np.pi)], [0.1, 0.05])
