import numpy as np, collections
from virocon.utils import sort_points_to_form_continuous_line as S
rng = np.random.default_rng(0)
res = collections.Counter()
def run(x, y, tag):
    for opt in (False, True):
        try:
            xx, yy = S(x, y, search_for_optimal_start=opt)
        except Exception as e:
            res[(tag, opt, "EXC " + type(e).__name__ + str(e)[:60])] += 1
            continue
        a = sorted(zip(np.asarray(x).tolist(), np.asarray(y).tolist())); b = sorted(zip(xx.tolist(), yy.tolist()))
        if a == b: res[(tag, opt, "perm")] += 1
        elif len(b) < len(a) and not (collections.Counter(b) - collections.Counter(a)): res[(tag, opt, "lost")] += 1
        else: res[(tag, opt, "OTHER")] += 1; print(tag, a, b)
for n in (3, 4, 5, 10, 50):
    for _ in range(20):
        run(rng.normal(size=n), rng.normal(size=n), f"rand{n}")
        run(rng.integers(0, 4, size=n), rng.integers(0, 4, size=n), f"intdup{n}")
        t = np.sort(rng.uniform(0, 2*np.pi, n)); run(np.cos(t), np.sin(t), f"circ{n}")
        run(np.arange(n), np.zeros(n), f"line{n}")
        run(np.zeros(n), np.zeros(n), f"same{n}")
for k, v in sorted(res.items()): print(k, v)
