import sys
sys.path.insert(0, "/tmp/w8_C15/_audit")
import numpy as np
from t1 import check, seastate, threed
from t2 import ring, bimodal
from virocon import (GlobalHierarchicalModel, DependenceFunction, NormalDistribution,
                     VonMisesDistribution, WeibullDistribution, LogNormalDistribution, ExponentiatedWeibullDistribution)
m = seastate()
check("scalar delta", m, 0.01, [(0, 20), (0, 18)], 0.2)
check("reversed limits", m, 0.01, [(20, 0), (18, 0)], 0.2)
check("int limits/deltas", m, 0.01, [(0, 20), (0, 18)], 1)
check("np deltas", m, 0.01, np.array([[0, 20], [0, 18]]), np.array([0.2, 0.3]))
check("whole grid (limit not reached)", m, 0.01, [(0, 2), (0, 6)], 0.1)
check("default a=0.3", m, 0.3)
check("default a=1e-6", m, 1e-6)
check("default lim, delta .2/.1", m, 1e-3, None, [0.2, 0.1])
m3 = threed()
check("3d default limits coarse deltas", m3, 0.05, None, [0.5, 0.5, 1.0])
check("3d whole grid", m3, 0.05, [(0, 2), (0, 6), (0, 6)], 0.5)
check("3d cut", m3, 0.05, [(0, 4), (0, 8), (0, 8)], [0.25, 0.5, 0.5])
# 3-D multi-modal: ring model + independent third variable
def ring3():
    def _kappa(x, a=0.05, b=30.0):
        return a + b * np.exp(-(x - 5.0) ** 2 / 2.0)
    def _mu(x, a=0.0):
        return a + 0 * x
    return GlobalHierarchicalModel([
        {"distribution": NormalDistribution(mu=5, sigma=2)},
        {"distribution": VonMisesDistribution(), "conditional_on": 0,
         "parameters": {"kappa": DependenceFunction(_kappa), "mu": DependenceFunction(_mu)}},
        {"distribution": WeibullDistribution(alpha=2, beta=2, gamma=0)},
    ])
for a in (0.3, 0.05, 0.005):
    check(f"ring3 a={a}", ring3(), a, [(-3, 13), (0, 2*np.pi), (0, 6)], [0.4, 0.2, 0.3])
