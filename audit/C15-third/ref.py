"""Reference implementation for property C15 (scratch helper)."""
import itertools
import warnings
import numpy as np
from virocon import HighestDensityContour


def reference(contour):
    """Return list (one per connected region) of sets of boundary-cell centre tuples."""
    cc = contour.cell_center_coordinates
    f = contour.cell_averaged_joint_pdf(cc)
    p = f.copy()
    for d in contour.deltas:
        p = p * d
    with warnings.catch_warnings():
        warnings.simplefilter("ignore")
        R, _ = HighestDensityContour.cumsum_biggest_until(p, 1 - contour.alpha)
    if np.sum(p) < 1 - contour.alpha:
        R = np.ones_like(p)
    R = R.astype(bool)
    n = R.ndim
    shape = R.shape
    offs = [o for o in itertools.product((-1, 0, 1), repeat=n) if any(o)]
    pad = np.pad(R, 1, constant_values=False)
    core = tuple(slice(1, -1) for _ in range(n))
    allin = np.ones(shape, bool)
    for o in offs:
        sl = tuple(slice(1 + oo, 1 + oo + s) for oo, s in zip(o, shape))
        allin &= pad[sl]
    boundary = R & ~allin
    # region labelling with full connectivity - own flood fill
    lab = np.zeros(shape, int)
    cur = 0
    idx = np.argwhere(R)
    for start in map(tuple, idx):
        if lab[start]:
            continue
        cur += 1
        stack = [start]
        lab[start] = cur
        while stack:
            c = stack.pop()
            for o in offs:
                nb = tuple(a + b for a, b in zip(c, o))
                if all(0 <= q < s for q, s in zip(nb, shape)) and R[nb] and not lab[nb]:
                    lab[nb] = cur
                    stack.append(nb)
    out = []
    for k in range(1, cur + 1):
        ii = np.argwhere(boundary & (lab == k))
        out.append(sorted(tuple(cc[d][i[d]] for d in range(n)) for i in ii))
    return out, R, boundary, lab


def got_sets(contour):
    """Normalise contour.coordinates to list of sorted lists of tuples (+dup info)."""
    c = contour.coordinates
    if isinstance(c, np.ndarray):
        return "array", [sorted(map(tuple, c))]
    # nested list: list per region of list per dim of arrays
    res = []
    for part in c:
        arr = np.array(part).T
        res.append(sorted(map(tuple, arr)))
    return "list", res
