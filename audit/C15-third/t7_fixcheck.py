# scratch: emulate the suggested fix by monkeypatching ndi.label inside contours (label the region, mask by boundary)
import runpy, sys
import numpy as np
import scipy.ndimage as ndi
import virocon.contours as vc
orig_label = ndi.label
class NDI:
    def __getattr__(self, k): return getattr(ndi, k)
    def __init__(self): self.last_HDR = None
    def binary_erosion(self, HDR, structure=None):
        self.last_HDR = HDR
        return ndi.binary_erosion(HDR, structure=structure)
    def label(self, HDC, structure=None):
        lab, n = orig_label(self.last_HDR, structure=structure)
        return lab * (HDC != 0), n
vc.ndi = NDI()
try:
    runpy.run_path("/tmp/w8_C15/_audit/defect_1.py", run_name="__main__")
except SystemExit as e:
    print("exit", e.code)
