"""C02 defect 4: a 2-D highest density region whose boundary consists of only one
or two grid cells makes HighestDensityContour raise a ValueError from
scikit-learn (NearestNeighbors(n_neighbors=2) inside
sort_points_to_form_continuous_line) instead of returning the contour / fm.
The region itself is perfectly well defined (1 or 2 cells, total <= 1-alpha).
"""
import warnings
import numpy as np
from virocon import GlobalHierarchicalModel, NormalDistribution, HighestDensityContour

model = GlobalHierarchicalModel(
    [{"distribution": NormalDistribution(mu=0.1, sigma=1)},
     {"distribution": NormalDistribution(mu=-0.07, sigma=1.2)}]
)

failures = []
cases = [
    (0.5, [(-6, 6), (-6, 6)], 2.0),   # region = 1 cell
    (0.93, [(-6, 6), (-6, 6)], 0.5),   # region = 2 cells
    (0.96, [(-6, 6), (-6, 6)], 0.5),  # region = 1 cell
]
for alpha, limits, delta in cases:
    try:
        with warnings.catch_warnings():
            warnings.simplefilter("ignore")
            c = HighestDensityContour(model, alpha, limits=limits, deltas=delta)
    except Exception as e:  # noqa
        failures.append(f"alpha={alpha}, delta={delta}: {type(e).__name__}: {e}")
        continue
    f = c.cell_averaged_joint_pdf(c.cell_center_coordinates)
    cell_prob = f * delta * delta
    region = f >= c.fm * (1 - 1e-13)
    enclosed = cell_prob[region].sum()
    print(f"alpha={alpha}: region of {int(region.sum())} cell(s) holds {enclosed:.4f}")
    if not enclosed <= 1 - alpha + 1e-12:
        failures.append(f"alpha={alpha}: region holds {enclosed} > 1-alpha")

for msg in failures:
    print("FAIL:", msg)
assert not failures, failures
print("ok")
