"""C02 defect 2: for a 2-D model and cell sizes that differ by a factor >= 2
between the two dimensions (this includes the DEFAULT grid whenever the two
variables have ranges differing by a factor >= 2, e.g. Hs - wind speed), the
returned contour (`coordinates`) collapses to 3-6 neighbouring points although
the highest density region {cell density >= fm} has hundreds of boundary
cells.  The returned contour therefore does not enclose the region of content
1-alpha at all.
"""
import warnings
import numpy as np
from virocon import (GlobalHierarchicalModel, WeibullDistribution,
                     LogNormalDistribution, DependenceFunction,
                     HighestDensityContour)


def power3(x, a, b, c):
    return a + b * x**c


def exp3(x, a, b, c):
    return a + b * np.exp(c * x)


def dep(func, **pars):
    d = DependenceFunction(func)
    d.parameters = dict(pars)
    return d


# DNVGL-type sea state model Hs - Tz (parameters of virocon's own docs / tests)
hs_tz = GlobalHierarchicalModel([
    {"distribution": WeibullDistribution(alpha=2.776, beta=1.471, gamma=0.8888)},
    {"distribution": LogNormalDistribution(), "conditional_on": 0,
     "parameters": {"mu": dep(power3, a=0.1, b=1.489, c=0.1901),
                    "sigma": dep(exp3, a=0.04, b=0.1748, c=-0.2243)}},
])
# DNVGL-type Hs - U model (values close to a fit of get_DNVGL_Hs_U to ec-benchmark dataset D)
hs_u = GlobalHierarchicalModel([
    {"distribution": WeibullDistribution(alpha=1.554, beta=1.359, gamma=0.130)},
    {"distribution": WeibullDistribution(f_gamma=0), "conditional_on": 0,
     "parameters": {"alpha": dep(power3, a=0.1, b=7.466, c=0.534),
                    "beta": dep(power3, a=2.956, b=0.518, c=1.741)}},
])

failures = []


def check(name, model, alpha, limits, deltas):
    with warnings.catch_warnings():
        warnings.simplefilter("ignore")
        np.random.seed(0)
        c = HighestDensityContour(model, alpha, limits=limits, deltas=deltas)
    grid = c.cell_center_coordinates
    f = c.cell_averaged_joint_pdf(grid)
    region = f >= c.fm * (1 - 1e-12)
    idx = np.nonzero(region)
    coords = c.coordinates
    if isinstance(coords, list):  # several partial contours
        coords = np.concatenate([np.array(p).T for p in coords])
    coords = np.asarray(coords)
    print(f"{name}: deltas={[float(d) for d in c.deltas]}, region has "
          f"{int(region.sum())} cells, contour has {len(coords)} points")
    for dim in range(2):
        lo, hi = grid[dim][idx[dim].min()], grid[dim][idx[dim].max()]
        clo, chi = coords[:, dim].min(), coords[:, dim].max()
        d = float(c.deltas[dim])
        # a contour around the region must reach the region's extreme cells
        if abs(clo - lo) > d or abs(chi - hi) > d:
            failures.append(
                f"{name}: dim {dim}: region spans [{lo:.3f}, {hi:.3f}] but the "
                f"contour only spans [{clo:.3f}, {chi:.3f}] ({len(coords)} points)"
            )


check("explicit deltas 0.1 / 0.3", hs_tz, 0.01, [(0, 20), (0, 18)], [0.1, 0.3])
check("explicit deltas 0.5 / 0.1", hs_tz, 0.001, [(0, 20), (0, 18)], [0.5, 0.1])
check("default limits and deltas (Hs-U)", hs_u, 0.01, None, None)

for msg in failures:
    print("FAIL:", msg)
assert not failures, failures
print("ok")
