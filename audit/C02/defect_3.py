"""C02 defect 3: when cells tie exactly at the threshold density, only part of
the tie group is put into the region, although the reported fm equals their
density.  The region the property talks about - all cells with cell-averaged
density >= fm - then holds MORE than 1-alpha.  Exact ties are systematic for
any model with two identical independent marginals on identical grids
(cell (i, j) and cell (j, i) have bit-identical probability); the returned
contour of a perfectly symmetric problem is then asymmetric as well.
"""
import warnings
import numpy as np
from virocon import GlobalHierarchicalModel, WeibullDistribution, HighestDensityContour

model = GlobalHierarchicalModel(
    [{"distribution": WeibullDistribution(alpha=2, beta=1.5)},
     {"distribution": WeibullDistribution(alpha=2, beta=1.5)}]
)
limits = [(0, 15), (0, 15)]
delta = 0.1

failures = []
for alpha in [0.2, 0.1, 0.01, 0.001]:
    with warnings.catch_warnings():
        warnings.simplefilter("ignore")
        c = HighestDensityContour(model, alpha, limits=limits, deltas=delta)
    f = c.cell_averaged_joint_pdf(c.cell_center_coordinates)
    cell_prob = f * delta * delta
    region = f >= c.fm * (1 - 1e-13)  # cells at least as dense as the threshold fm
    enclosed = cell_prob[region].sum()
    n_at_fm = int(np.sum(np.abs(f - c.fm) <= 1e-13 * c.fm))
    print(f"alpha={alpha}: fm={c.fm:.6e}, cells with density == fm: {n_at_fm}, "
          f"P(density >= fm) = {enclosed:.10f}, 1-alpha = {1 - alpha}")
    if enclosed > 1 - alpha + 1e-9:
        failures.append(
            f"alpha={alpha}: cells with density >= fm hold {enclosed:.10f} > 1-alpha "
            f"(excess {enclosed - (1 - alpha):.3e}, one cell at fm holds "
            f"{c.fm * delta * delta:.3e})"
        )

for msg in failures:
    print("FAIL:", msg)
assert not failures, failures
print("ok")
