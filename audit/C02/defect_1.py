"""C02 defect 1: HighestDensityContour crashes with IndexError when the densest
grid cell alone already holds more probability than 1-alpha (empty highest
density region).  The property promises, for every alpha / limits / cell size,
a region of total cell probability <= 1-alpha (here: the empty region, which
misses 1-alpha by less than the densest excluded cell) - not an IndexError.
"""
import warnings
import numpy as np
from virocon import GlobalHierarchicalModel, NormalDistribution, HighestDensityContour

model = GlobalHierarchicalModel(
    [{"distribution": NormalDistribution(mu=0, sigma=1)},
     {"distribution": NormalDistribution(mu=0, sigma=1)}]
)

failures = []
# (alpha, limits, delta): the central 3x3 cell holds 0.866**2 = 0.75 > 1-alpha = 0.5;
# second case: fine grid but alpha close to 1 (central cell 0.039 > 0.01);
cases = [
    (0.5, [(-6, 6), (-6, 6)], 3.0),
    (0.99, [(-6, 6), (-6, 6)], 0.5),
]
for alpha, limits, delta in cases:
    try:
        with warnings.catch_warnings():
            warnings.simplefilter("ignore")
            c = HighestDensityContour(model, alpha, limits=limits, deltas=delta)
    except Exception as e:  # noqa
        failures.append(f"alpha={alpha}, delta={delta}: {type(e).__name__}: {e}")
        continue
    f = c.cell_averaged_joint_pdf(c.cell_center_coordinates)
    cell_prob = f * np.prod(np.asarray(c.deltas, dtype=float))
    enclosed = cell_prob[f >= c.fm].sum()
    if not enclosed <= 1 - alpha + 1e-12:
        failures.append(f"alpha={alpha}: enclosed probability {enclosed} > 1-alpha")

# the mechanism itself (public static method)
try:
    mask, last = HighestDensityContour.cumsum_biggest_until(
        np.array([0.1, 0.4, 0.3, 0.2]), 0.35
    )
    if mask.sum() != 0:
        failures.append(f"cumsum_biggest_until selected {mask} for limit 0.35")
except Exception as e:  # noqa
    failures.append(f"cumsum_biggest_until([.1,.4,.3,.2], 0.35): {type(e).__name__}: {e}")

for msg in failures:
    print("FAIL:", msg)
assert not failures, failures
print("ok")
