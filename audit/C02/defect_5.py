"""C02 defect 5: the default cell size is computed as 0.25 % of
limits[i][1] - limits[i][0] WITHOUT the min()/max() normalisation that _compute
applies to the very same limits.  Limits given as (max, min) - accepted and
handled correctly when deltas are explicit - and default limits whose upper end
icdf(1 - 0.2**n * alpha) is negative (variable living on the negative axis)
therefore give a negative cell size, an EMPTY grid and an IndexError, instead
of the contour or of the RuntimeWarning the property promises when the grid
cannot capture 1-alpha.
"""
import warnings
import numpy as np
from virocon import (GlobalHierarchicalModel, WeibullDistribution, NormalDistribution,
                     HighestDensityContour)

failures = []


def run(name, model, alpha, limits, deltas):
    try:
        with warnings.catch_warnings(record=True) as w:
            warnings.simplefilter("always")
            c = HighestDensityContour(model, alpha, limits=limits, deltas=deltas)
    except Exception as e:  # noqa
        failures.append(f"{name}: {type(e).__name__}: {e}")
        return
    warned = any(issubclass(x.category, RuntimeWarning) for x in w)
    f = c.cell_averaged_joint_pdf(c.cell_center_coordinates)
    cell_prob = f * np.prod(np.abs(np.asarray(c.deltas, dtype=float)))
    total = cell_prob.sum()
    enclosed = cell_prob[f >= c.fm * (1 - 1e-13)].sum()
    print(f"{name}: grid holds {total:.6f}, region holds {enclosed:.6f}, warned={warned}")
    if total < 1 - alpha:
        if not warned:
            failures.append(f"{name}: grid cannot capture 1-alpha but no RuntimeWarning")
    elif not enclosed <= 1 - alpha + 1e-9:
        failures.append(f"{name}: region holds more than 1-alpha")


w2 = GlobalHierarchicalModel(
    [{"distribution": WeibullDistribution(alpha=2, beta=1.5)},
     {"distribution": WeibullDistribution(alpha=3, beta=2)}]
)
# reference: reversed tuples are fine with explicit deltas ...
run("reversed limits, explicit deltas", w2, 0.01, [(15, 0), (12, 0)], [0.1, 0.1])
# ... but not with the default deltas
run("reversed limits, default deltas", w2, 0.01, [(15, 0), (12, 0)], None)

neg = GlobalHierarchicalModel(
    [{"distribution": NormalDistribution(mu=-10, sigma=1)},
     {"distribution": NormalDistribution(mu=-12, sigma=2)}]
)
# everything default: limits = (0, icdf(...)) = (0, about -7)
run("negative-valued variables, default limits and deltas", neg, 0.01, None, None)

for msg in failures:
    print("FAIL:", msg)
assert not failures, failures
print("ok")
