import numpy as np, warnings
from virocon._nsphere import NSphere
warnings.simplefilter("ignore")
for dim in (3, 4):
    for n in list(range(3, 80)) + [100, 180, 250, 400, 1000, 2500]:
        s = NSphere(dim, n).unit_sphere_points
        assert s.shape == (n, dim), (dim, n, s.shape)
        assert np.all(np.isfinite(s)), (dim, n)
        nr = np.linalg.norm(s, axis=1)
        G = s @ s.T; np.fill_diagonal(G, -1)
        if abs(nr - 1).max() > 1e-12 or G.max() > 1 - 1e-6:
            print(dim, n, abs(nr - 1).max(), G.max())
print("ok")
