import numpy as np, scipy.stats as sts, itertools, warnings
from virocon import *
from virocon.distributions import LogNormalNormFitDistribution
import sys; sys.path.insert(0, "_audit")
from t1 import *
warnings.simplefilter("ignore")

def cond_pool():
    return [
     dict(distribution=LogNormalDistribution(), parameters={"mu": mk(p3, 0.1, 1.489, 0.1901), "sigma": mk(e3, 0.04, 0.1748, -0.2243)}),
     dict(distribution=WeibullDistribution(f_gamma=0.1), parameters={"alpha": mk(p3, 2., 1.0, 0.5), "beta": mk(lin, 2.0, 0.01)}),
     dict(distribution=NormalDistribution(), parameters={"mu": mk(lin, 1, 2.), "sigma": mk(e3, 0.5, 0.5, -0.1)}),
     dict(distribution=ExponentiatedWeibullDistribution(f_delta=5), parameters={"alpha": mk(e3, 0.5, 0.5, -0.1), "beta": mk(e3, 1.5, 0.5, -0.1)}),
     dict(distribution=GeneralizedGammaDistribution(f_c=1.3), parameters={"m": mk(e3, 1.5, 0.5, -0.1), "lambda_": mk(e3, 0.5, 0.5, -0.1)}),
     dict(distribution=LogNormalNormFitDistribution(), parameters={"mu_norm": mk(e3, 3, 0.5, -0.1), "sigma_norm": mk(e3, 0.5, 0.5, -0.1)}),
    ]
uncond = [WeibullDistribution(2.776, 1.471, 0.8888), LogNormalDistribution(0.5, 0.4), ExponentiatedWeibullDistribution(0.8, 1.2, 2.5), GeneralizedGammaDistribution(1.5, 1.2, 0.8)]
rng = np.random.default_rng(1)
for n in (3, 4):
    structs = list(itertools.product(*[[None] + list(range(i)) for i in range(1, n)]))
    for s in structs:
        s = (None,) + s
        dd = []
        for i, c in enumerate(s):
            if c is None:
                dd.append(dict(distribution=uncond[rng.integers(len(uncond))]))
            else:
                # avoid Normal as conditioner (negative) -> exclude index 2 unless last
                pool = cond_pool()
                k = rng.integers(len(pool))
                if k == 2 and i != n - 1: k = 0
                dd.append(dict(pool[k], conditional_on=c))
        m = GlobalHierarchicalModel(dd)
        for a in (0.4, 0.01, 1e-8):
            for npts in (3, 4, 5, 20, 100):
                for kind in ("iform", "isorm"):
                    try:
                        c, u = check(m, a, npts, kind, label=str(s))
                        # distinct directions
                        d = u / np.linalg.norm(u, axis=1, keepdims=True)
                        G = d @ d.T
                        np.fill_diagonal(G, -1)
                        if G.max() > 1 - 1e-9:
                            print("DUP DIR", s, a, npts, kind, G.max())
                    except Exception as e:
                        print("EXC", s, a, npts, kind, type(e).__name__, e)
print("done")
