import numpy as np, scipy.stats as sts, warnings, sys
sys.path.insert(0, "_audit")
from virocon import *
from virocon.distributions import LogNormalNormFitDistribution
warnings.simplefilter("ignore")
rng = np.random.default_rng(0)
def lu(lo, hi): return float(np.exp(rng.uniform(np.log(lo), np.log(hi))))
fams = {
 "weib": lambda: WeibullDistribution(lu(.05, 50), lu(.3, 20), rng.uniform(-5, 5)),
 "logn": lambda: LogNormalDistribution(rng.uniform(-5, 5), lu(.01, 3)),
 "norm": lambda: NormalDistribution(rng.uniform(-50, 50), lu(.01, 30)),
 "ew": lambda: ExponentiatedWeibullDistribution(lu(.05, 50), lu(.3, 20), lu(.05, 50)),
 "gg": lambda: GeneralizedGammaDistribution(lu(.05, 50), lu(.2, 10), lu(.02, 50)),
 "vm": lambda: VonMisesDistribution(lu(.01, 500), rng.uniform(-10, 10)),
 "lnnf": lambda: LogNormalNormFitDistribution(lu(.05, 50), lu(.01, 30)),
}
worst = {}
for name, f in fams.items():
    for t in range(300):
        d = f()
        m = GlobalHierarchicalModel([dict(distribution=d), dict(distribution=NormalDistribution())])
        for a in (0.3, 1e-3, 1e-8):
            for C in (IFORMContour, ISORMContour):
                c = C(m, a, 12)
                u0 = sts.norm.ppf(d.cdf(c.coordinates[:, 0]))
                err = np.abs(u0 - c.sphere_points[:, 0])
                bad = ~np.isfinite(c.coordinates[:, 0]) | ~np.isfinite(err) | (err > 1e-5)
                if bad.any():
                    k = np.argmax(np.where(np.isfinite(err), err, np.inf))
                    print(name, d, a, C.__name__, "x", c.coordinates[k, 0], "u", c.sphere_points[k, 0], "back", u0[k])
                    break
print("done")
