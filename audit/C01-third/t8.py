import numpy as np, scipy.stats as sts, warnings
from virocon import *
warnings.simplefilter("ignore")
for kappa in (0, 0.0, 1e-6, 1e-3, 49.9, 50, 50.1, 700, 1e4, 1e6):
    for mu in (0, 3.0, -7.5, 100.0):
        d = VonMisesDistribution(kappa, mu)
        m = GlobalHierarchicalModel([dict(distribution=d), dict(distribution=NormalDistribution())])
        for a in (0.1, 1e-4, 1e-8):
            c = IFORMContour(m, a, 16)
            u0 = sts.norm.ppf(d.cdf(c.coordinates[:, 0]))
            err = np.abs(u0 - c.sphere_points[:, 0])
            if not np.all(np.isfinite(err)) or err.max() > 1e-6:
                k = np.nanargmax(np.where(np.isfinite(err), err, 1e9))
                print(kappa, mu, a, "x", c.coordinates[k, 0], "u", c.sphere_points[k, 0], "back", u0[k])
