import numpy as np, scipy.stats as sts, itertools, warnings
from virocon import *
from virocon.distributions import LogNormalNormFitDistribution, ScipyDistribution

def backmap(model, coords):
    n = model.n_dim
    u = np.empty_like(coords)
    P = np.empty_like(coords)
    for i in range(n):
        c = model.conditional_on[i]
        if c is None:
            p = model.distributions[i].cdf(coords[:, i])
        else:
            p = model.distributions[i].cdf(coords[:, i], given=coords[:, c])
        P[:, i] = p
        u[:, i] = sts.norm.ppf(p)
    return u, P

def check(model, alpha, n_points, kind, tol=1e-6, label=""):
    C = IFORMContour if kind == "iform" else ISORMContour
    c = C(model, alpha, n_points)
    n = model.n_dim
    beta = sts.norm.ppf(1 - alpha) if kind == "iform" else np.sqrt(sts.chi2.ppf(1 - alpha, n))
    ok = True
    msgs = []
    if c.coordinates.shape != (n_points, n):
        msgs.append(f"shape {c.coordinates.shape}")
    if not np.all(np.isfinite(c.coordinates)):
        msgs.append(f"nonfinite coords: {np.sum(~np.isfinite(c.coordinates))}")
    u, P = backmap(model, c.coordinates)
    r = np.linalg.norm(u, axis=1)
    err = np.nanmax(np.abs(r - beta)) if np.any(np.isfinite(r)) else np.nan
    if not np.all(np.isfinite(r)) or err > tol:
        msgs.append(f"radius err {err}, nonfinite r {np.sum(~np.isfinite(r))}")
    if not np.isclose(c.beta, beta, rtol=1e-12):
        msgs.append(f"beta {c.beta} vs {beta}")
    # direction check against sphere_points
    derr = np.nanmax(np.abs(u - c.sphere_points))
    if derr > tol:
        msgs.append(f"dir err {derr}")
    if msgs:
        print("FAIL", label, kind, alpha, n_points, msgs)
    return c, u

def p3(x, a, b, c): return a + b * x ** c
def e3(x, a, b, c): return a + b * np.exp(c * x)
def lin(x, a, b): return a + b * x

def mk(f, *a): 
    d = DependenceFunction(f)
    d.parameters = dict(zip(d.parameters, a))
    return d

if __name__ == "__main__":
    warnings.simplefilter("ignore")
    firsts = {
        "weib": WeibullDistribution(2.776, 1.471, 0.8888),
        "logn": LogNormalDistribution(0.5, 0.4),
        "norm": NormalDistribution(5, 2),
        "ew": ExponentiatedWeibullDistribution(0.8, 1.2, 2.5),
        "gg": GeneralizedGammaDistribution(1.5, 1.2, 0.8),
        "vm": VonMisesDistribution(2.0, 0.5),
        "lnnf": LogNormalNormFitDistribution(3., 1.),
    }
    def conds():
        return {
        "logn": dict(distribution=LogNormalDistribution(), parameters={"mu": mk(p3, 0.1, 1.489, 0.1901), "sigma": mk(e3, 0.04, 0.1748, -0.2243)}),
        "weib": dict(distribution=WeibullDistribution(f_gamma=0.1), parameters={"alpha": mk(p3, 2., 1.0, 0.5), "beta": mk(lin, 2.0, 0.01)}),
        "norm": dict(distribution=NormalDistribution(), parameters={"mu": mk(lin, 1, 2.), "sigma": mk(e3, 0.5, 0.5, -0.1)}),
        "ew": dict(distribution=ExponentiatedWeibullDistribution(f_delta=5), parameters={"alpha": mk(e3, 0.5, 0.5, -0.1), "beta": mk(e3, 1.5, 0.5, -0.1)}),
        "gg": dict(distribution=GeneralizedGammaDistribution(f_c=1.3), parameters={"m": mk(e3, 1.5, 0.5, -0.1), "lambda_": mk(e3, 0.5, 0.5, -0.1)}),
        "vm": dict(distribution=VonMisesDistribution(), parameters={"kappa": mk(e3, 1.5, 0.5, -0.1), "mu": mk(e3, 0.5, 0.5, -0.1)}),
        "lnnf": dict(distribution=LogNormalNormFitDistribution(), parameters={"mu_norm": mk(e3, 3, 0.5, -0.1), "sigma_norm": mk(e3, 0.5, 0.5, -0.1)}),
        }
    alphas = [0.5 - 1e-9, 0.3, 0.05, 1e-3, 1e-6, 1e-8]
    for fk, fd in firsts.items():
        for ck in conds():
            dd = [dict(distribution=fd), dict(conds()[ck], conditional_on=0)]
            m = GlobalHierarchicalModel(dd)
            for a in alphas:
                for npts in (3, 4, 7, 180):
                    for kind in ("iform", "isorm"):
                        try:
                            check(m, a, npts, kind, label=f"{fk}|{ck}")
                        except Exception as e:
                            print("EXC", fk, ck, a, npts, kind, type(e).__name__, e)
    print("done")
