import numpy as np, scipy.stats as sts, warnings, sys
sys.path.insert(0, "_audit")
from virocon import *
from t6 import model
warnings.simplefilter("ignore")
m = model(2)
for a in (0.49, 0.1, 0.01, 1e-3, 1e-5, 1e-8, 3e-8, 7.7e-7):
    c = IFORMContour(m, a, 10)
    q = m.marginal_icdf(1 - a, 0)
    mx = c.coordinates[:, 0].max()
    print(a, mx, q, (mx - q) / q, np.argmax(c.coordinates[:, 0]))
