import numpy as np, scipy.stats as sts, warnings, sys
sys.path.insert(0, "_audit")
from virocon import *
from virocon.predefined import *
from virocon.distributions import LogNormalNormFitDistribution, ScipyDistribution
from t1 import check, mk, p3, e3, lin
warnings.simplefilter("ignore")

class Gumbel(ScipyDistribution):
    scipy_dist_name = "gumbel_r"
class Gamma(ScipyDistribution):
    scipy_dist_name = "gamma"
class Beta(ScipyDistribution):
    scipy_dist_name = "beta"

# Scipy-based
m = GlobalHierarchicalModel([
    dict(distribution=Gamma(2.0, 0.5, 1.5)),
    dict(distribution=Gumbel(), conditional_on=0, parameters={"loc": mk(lin, 1, 2), "scale": mk(e3, .5, .5, -.1)}),
    dict(distribution=Beta(f_loc=0, f_scale=3), conditional_on=1, parameters={"a": mk(e3, 1.5, .5, -.01), "b": mk(e3, 2.5, .5, -.01)}),
])
print(m)
for a in (0.3, 1e-3, 1e-8):
    for k in ("iform", "isorm"):
        check(m, a, 15, k, label="scipy3")
# all fixed conditional
m = GlobalHierarchicalModel([
    dict(distribution=WeibullDistribution(2, 1.5, 0)),
    dict(distribution=WeibullDistribution(f_alpha=1, f_beta=2, f_gamma=0), conditional_on=0, parameters={}),
])
for a in (0.3, 1e-3, 1e-8):
    for k in ("iform", "isorm"):
        check(m, a, 15, k, label="allfixed")

# predefined unfitted and fitted
import pandas as pd
from virocon import read_ec_benchmark_dataset
dA = read_ec_benchmark_dataset("datasets/ec-benchmark_dataset_A.txt")
dD = read_ec_benchmark_dataset("datasets/ec-benchmark_dataset_D_1year.txt")
for name, getter, data in [("dnv_hs_tz", get_DNVGL_Hs_Tz, dA), ("dnv_hs_u", get_DNVGL_Hs_U, dD[dD.columns[::-1]]), ("omae_hs_tz", get_OMAE2020_Hs_Tz, dA), ("omae_v_hs", get_OMAE2020_V_Hs, dD)]:
    dd, fd, sem = getter()
    m = GlobalHierarchicalModel(dd)
    for stage in ("unfit", "fit", "refit"):
        if stage != "unfit":
            m.fit(data, fd)
        for a in (0.3, 1e-3, 1e-8):
            for k in ("iform", "isorm"):
                for npts in (3, 50):
                    try:
                        check(m, a, npts, k, label=name + stage)
                    except Exception as e:
                        print("EXC", name, stage, a, k, type(e).__name__, e)
print("done")
