import numpy as np, scipy.stats as sts, warnings, sys
sys.path.insert(0, "_audit")
from virocon import *
from t1 import check, mk, p3, e3, lin, backmap
from fractions import Fraction
from decimal import Decimal
warnings.simplefilter("ignore")
def model(n=2):
    dd = [dict(distribution=WeibullDistribution(2.776, 1.471, 0.8888)),
        dict(distribution=LogNormalDistribution(), conditional_on=0, parameters={"mu": mk(p3, 0.1, 1.489, 0.1901), "sigma": mk(e3, 0.04, 0.1748, -0.2243)})]
    if n >= 3:
        dd.append(dict(distribution=WeibullDistribution(f_gamma=0.1), conditional_on=0, parameters={"alpha": mk(p3, 2., 1.0, 0.5), "beta": mk(lin, 2.0, 0.01)}))
    return GlobalHierarchicalModel(dd)
for n in (2, 3):
    m = model(n)
    for a in (0.01, np.float64(0.01), np.array(0.01), np.array([0.01]), np.longdouble(0.01), np.float16(0.01), Fraction(1, 100), Decimal("0.01"), "0.01"):
        for k in ("iform", "isorm"):
            try:
                C = IFORMContour if k == "iform" else ISORMContour
                c = C(m, a, 8)
                u, P = backmap(m, c.coordinates)
                r = np.linalg.norm(u, axis=1)
                beta = sts.norm.ppf(0.99) if k == "iform" else np.sqrt(sts.chi2.ppf(0.99, n))
                print(n, repr(a), k, "maxerr", np.abs(r - beta).max(), "beta type", type(c.beta), np.shape(c.beta), c.coordinates.dtype)
            except Exception as e:
                print(n, repr(a), k, "EXC", type(e).__name__, e)
    for npts in (np.int64(8), np.int8(8), np.uint8(8), 8.0, np.float64(8), True):
        for k in ("iform", "isorm"):
            try:
                C = IFORMContour if k == "iform" else ISORMContour
                c = C(m, 0.01, npts)
                print(n, repr(npts), k, c.coordinates.shape)
            except Exception as e:
                print(n, repr(npts), k, "EXC", type(e).__name__, e)
