"""C01 - alpha given as numpy.longdouble: IFORMContour / ISORMContour crash with a TypeError.

The property promises, for every alpha in (0, 1), a contour whose points lie at distance beta
from the origin of U-space.  alpha = numpy.longdouble(0.01) is a real number inside the scope
interval [1e-8, 0.5]; `1 - alpha` stays a longdouble and scipy's ndtri / gammaincinv ufuncs
refuse it, so no contour is produced at all.
Exit status: 0 if both contours are built and lie on the beta-sphere, 1 otherwise.
"""
import sys
import warnings

import numpy as np
import scipy.stats as sts

from virocon import (
    GlobalHierarchicalModel,
    WeibullDistribution,
    LogNormalDistribution,
    DependenceFunction,
    IFORMContour,
    ISORMContour,
)

warnings.simplefilter("ignore")


def _power3(x, a=0.1, b=1.489, c=0.1901):
    return a + b * x**c


def _exp3(x, a=0.04, b=0.1748, c=-0.2243):
    return a + b * np.exp(c * x)


model = GlobalHierarchicalModel(
    [
        {"distribution": WeibullDistribution(alpha=2.776, beta=1.471, gamma=0.8888)},
        {
            "distribution": LogNormalDistribution(),
            "conditional_on": 0,
            "parameters": {
                "mu": DependenceFunction(_power3),
                "sigma": DependenceFunction(_exp3),
            },
        },
    ]
)

alpha = np.longdouble("0.01")
failed = False
for cls, beta in (
    (IFORMContour, sts.norm.ppf(1 - 0.01)),
    (ISORMContour, np.sqrt(sts.chi2.ppf(1 - 0.01, 2))),
):
    try:
        contour = cls(model, alpha, n_points=12)
    except Exception as e:  # noqa: BLE001
        print(f"{cls.__name__}(model, {alpha!r}, 12) raised {type(e).__name__}: {e}")
        failed = True
        continue
    x = np.asarray(contour.coordinates, dtype=float)
    u0 = sts.norm.ppf(model.distributions[0].cdf(x[:, 0]))
    u1 = sts.norm.ppf(model.distributions[1].cdf(x[:, 1], given=x[:, 0]))
    r = np.hypot(u0, u1)
    err = np.max(np.abs(r - beta))
    print(f"{cls.__name__}: max |r - beta| = {err:.3e}")
    if x.shape != (12, 2) or not err < 1e-6:
        failed = True

sys.exit(1 if failed else 0)
