import numpy as np, warnings, sys
sys.path.insert(0, "_audit")
warnings.simplefilter("ignore")
from virocon import *
from t1 import mk, p3, e3, lin
def model(n=2):
    dd = [dict(distribution=WeibullDistribution(2.776, 1.471, 0.8888)),
        dict(distribution=LogNormalDistribution(), conditional_on=0, parameters={"mu": mk(p3, 0.1, 1.489, 0.1901), "sigma": mk(e3, 0.04, 0.1748, -0.2243)})]
    if n >= 3:
        dd.append(dict(distribution=WeibullDistribution(f_gamma=0.1), conditional_on=0, parameters={"alpha": mk(p3, 2., 1.0, 0.5), "beta": mk(lin, 2.0, 0.01)}))
    return GlobalHierarchicalModel(dd)
for n in (2, 3):
    for npts in (np.int8(100), np.uint8(200), np.int16(100), np.int32(100), np.uint16(100)):
        for C in (IFORMContour, ISORMContour):
            try:
                c = C(model(n), 0.01, npts)
                print(n, repr(npts), C.__name__, c.coordinates.shape)
            except Exception as e:
                print(n, repr(npts), C.__name__, "EXC", type(e).__name__, e)
