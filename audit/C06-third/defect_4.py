"""C06 defect 4: the joint pdf is nan (not 0, not non-negative) in the far UPPER tail of the
conditioning variable, where the conditional parameters degenerate numerically
(sigma underflows to 0 / Weibull shape so large that scipy's pdf overflows)."""
import sys
import warnings
import numpy as np
from virocon import (GlobalHierarchicalModel, WeibullDistribution,
                     LogNormalDistribution, DependenceFunction)

warnings.simplefilter("ignore")


def power3(x, a=1.47, b=0.214, c=0.641):
    return a + b * x ** c


def exp3(x, a=0.0, b=0.308, c=-0.250):
    return a + b * np.exp(c * x)


def p3a(x, a=0.0, b=7.466, c=0.534):
    return a + b * x ** c


def p3b(x, a=2.956, b=0.5176, c=1.7407):
    return a + b * x ** c


# structure of get_DNVGL_Hs_Tz (sigma = a + b exp(c hs) with a = 0, its lower bound)
hs_tz = GlobalHierarchicalModel([
    {"distribution": WeibullDistribution(alpha=2.776, beta=1.471, gamma=0.8888)},
    {"distribution": LogNormalDistribution(), "conditional_on": 0,
     "parameters": {"mu": DependenceFunction(power3), "sigma": DependenceFunction(exp3)}}])
# structure and (rounded) fitted coefficients of get_DNVGL_Hs_U on dataset D
hs_u = GlobalHierarchicalModel([
    {"distribution": WeibullDistribution(alpha=1.554, beta=1.359, gamma=0.130)},
    {"distribution": WeibullDistribution(f_gamma=0), "conditional_on": 0,
     "parameters": {"alpha": DependenceFunction(p3a), "beta": DependenceFunction(p3b)}}])

bad = False
for name, model, pt in [("hs_tz", hs_tz, [3500.0, 10.0]), ("hs_u", hs_u, [60.0, 200.0]),
                        ("hs_u", hs_u, [100.0, 270.0])]:
    f0 = model.distributions[0].pdf(pt[0])
    f = model.pdf([pt])[0]
    print(f"{name}: pdf({pt}) = {f!r}; density of the first variable there = {f0!r}")
    if not (np.isfinite(f) and f >= 0):
        bad = True
if bad:
    print("DEFECT: the joint pdf is nan at a finite point of the upper tail (true value 0)")
    sys.exit(1)
print("ok")
