"""C06 defect 2: the joint cdf collapses to ~0 for points in the far upper tail
(where it must be ~1): the quadrature runs over (0, x_j) however large x_j is
and steps over the region that holds the mass."""
import sys
import warnings
import numpy as np
from virocon import (GlobalHierarchicalModel, ExponentiatedWeibullDistribution,
                     LogNormalDistribution, DependenceFunction)

warnings.simplefilter("ignore")


def lg(x, a=0.08, b=1.0):
    return a * (1 - np.exp(-b * x))


def lin2(x, a=6.0, b=0.3):
    return a + b * x


def asym(x, a=0.1, b=0.3, c=0.5):
    return a + b / (1 + c * x)


def lnsq(x, a=3.0, b=5.0):
    return np.log(a + b * np.sqrt(x / 9.81))


# sea state model in (Hs, steepness) like get_Windmeier_EW_Hs_S
hs_s = GlobalHierarchicalModel([
    {"distribution": ExponentiatedWeibullDistribution(alpha=0.6, beta=0.9, delta=3.0)},
    {"distribution": ExponentiatedWeibullDistribution(f_delta=2.35), "conditional_on": 0,
     "parameters": {"alpha": DependenceFunction(lg), "beta": DependenceFunction(lin2)}}])
# (Hs, Tz) model like get_OMAE2020_Hs_Tz
hs_tz = GlobalHierarchicalModel([
    {"distribution": ExponentiatedWeibullDistribution(alpha=0.207, beta=0.684, delta=7.79)},
    {"distribution": LogNormalDistribution(), "conditional_on": 0,
     "parameters": {"mu": DependenceFunction(lnsq), "sigma": DependenceFunction(asym)}}])

bad = False
for name, model, pts in [("hs_s", hs_s, [[100.0, 100.0], [1000.0, 1000.0]]),
                         ("hs_tz", hs_tz, [[1e4, 1e4], [1e5, 1e5]])]:
    smp = model.draw_sample(200000, random_state=1)
    for pt in pts:
        emp = np.mean((smp[:, 0] <= pt[0]) & (smp[:, 1] <= pt[1]))
        p = model.cdf([pt])[0]
        print(f"{name}: cdf({pt}) = {p!r}   fraction of a sample of 200000 in the orthant = {emp}")
        if not abs(p - emp) < 1e-3:
            bad = True
if bad:
    print("DEFECT: the joint cdf is not the integral of the pdf over the lower-left orthant")
    sys.exit(1)
print("ok")
