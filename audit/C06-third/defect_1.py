"""C06 defect 1: marginal_pdf / marginal_cdf of a conditional variable are ~0 in the BULK
when the conditioning variable has a wide quantile range and the conditional density is narrow.

Model: X0 ~ LogNormal(mu=1, sigma=1); X1 | X0 ~ LogNormal(mu = 1 + 0.5 ln(X0), sigma = 0.05).
Then ln X1 ~ N(1.5, 0.25 + 0.05**2) exactly, so the marginal of X1 is a known lognormal.
"""
import sys
import warnings
import numpy as np
import scipy.stats as sts
from virocon import (GlobalHierarchicalModel, LogNormalDistribution, DependenceFunction)

warnings.simplefilter("ignore")


def mu(x, a=1.0, b=0.5):
    return a + b * np.log(x)


s0, sig = 1.0, 0.05
model = GlobalHierarchicalModel([
    {"distribution": LogNormalDistribution(mu=1.0, sigma=s0)},
    {"distribution": LogNormalDistribution(f_sigma=sig), "conditional_on": 0,
     "parameters": {"mu": DependenceFunction(mu)}},
])
exact = sts.lognorm(np.sqrt(0.25 * s0 ** 2 + sig ** 2), scale=np.exp(1.5))

probs = np.array([0.05, 0.25, 0.5, 0.75, 0.95])
xs = exact.ppf(probs)

# sanity: the joint pdf factorises and the sample follows the exact marginal
smp = model.draw_sample(200000, random_state=1)
print("sample quantiles  :", np.quantile(smp[:, 1], probs))
print("exact quantiles   :", xs)

f_exact = exact.pdf(xs)
f_lib = model.marginal_pdf(xs, 1)
print("exact marginal pdf:", f_exact)
print("model.marginal_pdf:", f_lib)

F_lib = model.marginal_cdf(xs[2:3], 1)  # at the median
print("model.marginal_cdf(median) =", F_lib, " expected 0.5")
x_med = model.marginal_icdf([0.5], 1, random_state=2)
print("model.marginal_icdf(0.5)   =", x_med, " (exact median %.4f)" % xs[2])

ok = np.allclose(f_lib, f_exact, rtol=1e-2) and abs(F_lib[0] - 0.5) < 1e-2
if not ok:
    print("DEFECT: marginal_pdf / marginal_cdf disagree with the joint density "
          "(and with marginal_icdf) in the bulk")
    sys.exit(1)
print("ok")
