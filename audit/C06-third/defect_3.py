"""C06 defect 3: marginal_cdf of a conditional variable collapses to ~0 in the far
upper tail (must be ~1): its own variable is integrated over (0, x) however large x is."""
import sys
import warnings
import numpy as np
from virocon import (GlobalHierarchicalModel, ExponentiatedWeibullDistribution,
                     LogNormalDistribution, DependenceFunction)

warnings.simplefilter("ignore")


def lg(x, a=0.08, b=1.0):
    return a * (1 - np.exp(-b * x))


def lin2(x, a=6.0, b=0.3):
    return a + b * x


def asym(x, a=0.1, b=0.3, c=0.5):
    return a + b / (1 + c * x)


def lnsq(x, a=3.0, b=5.0):
    return np.log(a + b * np.sqrt(x / 9.81))


hs_s = GlobalHierarchicalModel([
    {"distribution": ExponentiatedWeibullDistribution(alpha=0.6, beta=0.9, delta=3.0)},
    {"distribution": ExponentiatedWeibullDistribution(f_delta=2.35), "conditional_on": 0,
     "parameters": {"alpha": DependenceFunction(lg), "beta": DependenceFunction(lin2)}}])
hs_tz = GlobalHierarchicalModel([
    {"distribution": ExponentiatedWeibullDistribution(alpha=0.207, beta=0.684, delta=7.79)},
    {"distribution": LogNormalDistribution(), "conditional_on": 0,
     "parameters": {"mu": DependenceFunction(lnsq), "sigma": DependenceFunction(asym)}}])

bad = False
for name, model, xs in [("hs_s", hs_s, [100.0, 1000.0]), ("hs_tz", hs_tz, [1e5])]:
    x999 = model.marginal_icdf([0.999], 1, random_state=1)[0]
    F = model.marginal_cdf(xs, 1)
    print(f"{name}: marginal_icdf(0.999) = {x999:.4g};  marginal_cdf({xs}) = {F}  (must be >= 0.999)")
    if not np.all(F >= 0.999 - 1e-3):
        bad = True
if bad:
    print("DEFECT: marginal_cdf is not monotone / disagrees with marginal_icdf in the upper tail")
    sys.exit(1)
print("ok")
