import numpy as np
from virocon import *

def power3(x, a=1.47, b=0.214, c=0.641): return a + b * x**c
def exp3(x, a=0.0, b=0.308, c=-0.250): return a + b*np.exp(c*x)
def exp3b(x, a=0.05, b=0.308, c=-0.250): return a + b*np.exp(c*x)
def lin(x, a=0.5, b=0.3): return a + b*x
def const2(x, a=2.0): return a + 0*x
def asym(x, a=0.1, b=0.3, c=0.5): return a + b/(1+c*x)
def lnsq(x, a=3.0, b=5.0): return np.log(a + b*np.sqrt(x/9.81))
def lg(x, a=0.08, b=1.0): return a*(1-np.exp(-b*x))
def lin2(x, a=6.0, b=0.3): return a + b*x

def dnv(sig=exp3):
    return GlobalHierarchicalModel([
        {"distribution": WeibullDistribution(alpha=2.776, beta=1.471, gamma=0.8888)},
        {"distribution": LogNormalDistribution(), "conditional_on": 0,
         "parameters": {"mu": DependenceFunction(power3), "sigma": DependenceFunction(sig)}}])

def omae_hs_tz():
    return GlobalHierarchicalModel([
        {"distribution": ExponentiatedWeibullDistribution(alpha=0.207, beta=0.684, delta=7.79)},
        {"distribution": LogNormalDistribution(), "conditional_on": 0,
         "parameters": {"mu": DependenceFunction(lnsq), "sigma": DependenceFunction(asym)}}])

def hs_s():
    return GlobalHierarchicalModel([
        {"distribution": ExponentiatedWeibullDistribution(alpha=0.6, beta=0.9, delta=3.0)},
        {"distribution": ExponentiatedWeibullDistribution(f_delta=2.35), "conditional_on": 0,
         "parameters": {"alpha": DependenceFunction(lg), "beta": DependenceFunction(lin2)}}])

def m3(struct):
    """3-D model with conditional_on structure struct = (c1, c2) each None/0/1"""
    c1, c2 = struct
    d = [{"distribution": WeibullDistribution(alpha=2.0, beta=1.5, gamma=0.0)}]
    if c1 is None:
        d.append({"distribution": LogNormalDistribution(mu=1.0, sigma=0.3)})
    else:
        d.append({"distribution": LogNormalDistribution(), "conditional_on": c1,
                  "parameters": {"mu": DependenceFunction(lin), "sigma": DependenceFunction(asym)}})
    if c2 is None:
        d.append({"distribution": WeibullDistribution(alpha=3.0, beta=2.0, gamma=0.5)})
    else:
        d.append({"distribution": WeibullDistribution(f_gamma=0.0), "conditional_on": c2,
                  "parameters": {"alpha": DependenceFunction(lin, a=1.0,b=0.5) if False else DependenceFunction(lin), "beta": DependenceFunction(const2)}})
    return GlobalHierarchicalModel(d)
