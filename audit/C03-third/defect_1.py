"""C03: a supplied two-variable sample that is a pandas DataFrame (what
read_ec_benchmark_dataset returns and what model.fit / plot_2D_contour accept)
or a list of [x, y] pairs makes DirectSamplingContour crash instead of returning
the polygon of (1-alpha)-quantile tangent lines."""
import sys
import numpy as np
import pandas as pd
from virocon import DirectSamplingContour


class Model:  # minimal 2-D model, only needed because a model is mandatory
    n_dim = 2

    def draw_sample(self, n, **kw):
        return np.random.default_rng(1).normal(size=(n, 2))


rng = np.random.default_rng(0)
arr = np.c_[rng.weibull(1.5, 500) * 3, rng.lognormal(1.5, 0.3, 500)]
alpha, deg_step = 0.05, 10
ref = DirectSamplingContour(Model(), alpha, deg_step=deg_step, sample=arr).coordinates

failures = []
for name, smp in [
    ("DataFrame", pd.DataFrame(arr, columns=["hs", "tz"])),
    ("list of pairs", arr.tolist()),
]:
    try:
        c = DirectSamplingContour(Model(), alpha, deg_step=deg_step, sample=smp)
        xy = np.asarray(c.coordinates, dtype=float)
        # every edge k (xy[k-1] -> xy[k]) must lie on the quantile line of direction k
        step = np.deg2rad(deg_step)
        for k in range(len(xy)):
            th = np.pi / 2 + step - k * step
            nrm = np.array([np.cos(th), np.sin(th)])
            q = np.quantile(arr @ nrm, 1 - alpha)
            if abs(xy[k - 1] @ nrm - q) > 1e-9 or abs(xy[k] @ nrm - q) > 1e-9:
                failures.append(f"{name}: edge {k} is not on its quantile line")
                break
        if xy.shape != ref.shape:
            failures.append(f"{name}: {xy.shape} vertices instead of {ref.shape}")
    except Exception as e:  # noqa
        failures.append(f"{name}: {type(e).__name__}: {e}")

for f in failures:
    print("VIOLATION", f)
sys.exit(1 if failures else 0)
