"""C20 defect 1: plot_dependence_functions crashes (re.error) or corrupts the
curve label when a semantics symbol contains a backslash (LaTeX symbols such as
r"\sigma", r"\theta"), so the dependence-function values are never drawn."""
import sys
import matplotlib

matplotlib.use("Agg")
import numpy as np
import matplotlib.pyplot as plt
from virocon import GlobalHierarchicalModel, get_OMAE2020_Hs_Tz, plot_dependence_functions

rng = np.random.default_rng(0)
hs = 0.2 + 1.5 * rng.weibull(1.4, 20000)
tz = np.exp(rng.normal(np.log(4.0 + 4.5 * np.sqrt(hs / 9.81)), 0.05 + 0.25 / (1 + 0.3 * hs)))
dist_descriptions, fit_descriptions, semantics = get_OMAE2020_Hs_Tz()
model = GlobalHierarchicalModel(dist_descriptions)
model.fit(np.c_[hs, tz], fit_descriptions)

failures = []
for symbol in [r"\sigma", r"\phi", r"\theta", "H_s"]:
    sem = {
        "names": list(semantics["names"]),
        "symbols": [symbol, "T_z"],  # symbols are rendered as $\it{<symbol>}$ by virocon
        "units": list(semantics["units"]),
    }
    try:
        axes = plot_dependence_functions(model, sem)
    except Exception as e:  # noqa
        failures.append(f"symbol {symbol!r}: {type(e).__name__}: {e}")
        plt.close("all")
        continue
    dist = model.distributions[1]
    for ax, (par_name, dep_func) in zip(axes, dist.conditional_parameters.items()):
        line = ax.get_lines()[0]
        x = line.get_xdata()
        if not np.array_equal(line.get_ydata(), dep_func(x), equal_nan=True):
            failures.append(f"symbol {symbol!r}: curve of {par_name} differs from dep_func(x)")
        label = line.get_label()
        if any(ord(ch) < 32 for ch in label):
            failures.append(
                f"symbol {symbol!r}: label of {par_name} contains control characters: {label!r}"
            )
    plt.close("all")

if failures:
    print("C20 VIOLATED:")
    for f in failures:
        print("  -", f)
    sys.exit(1)
print("ok")
