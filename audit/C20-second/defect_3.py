"""C20 defect 3: save_contour_coordinates raises TypeError for a pathlib.Path
without extension (it works for a Path with extension and for a str without)."""
import pathlib
import sys
import tempfile
import numpy as np
from virocon import GlobalHierarchicalModel, get_DNVGL_Hs_Tz, IFORMContour
from virocon.contours import save_contour_coordinates

dist_descriptions, _, semantics = get_DNVGL_Hs_Tz()
model = GlobalHierarchicalModel(dist_descriptions)
contour = IFORMContour(model, 1e-3, n_points=12)
tmp = pathlib.Path(tempfile.mkdtemp())

save_contour_coordinates(contour, tmp / "with_ext.txt", semantics)  # works
assert (tmp / "with_ext.txt").exists()
save_contour_coordinates(contour, str(tmp / "as_str"), semantics)  # works
assert (tmp / "as_str.txt").exists()

try:
    save_contour_coordinates(contour, tmp / "no_ext", semantics)
except Exception as e:  # noqa
    print(f"C20 VIOLATED: Path without extension: {type(e).__name__}: {e}")
    sys.exit(1)
target = tmp / "no_ext.txt"
if not target.exists():
    print("C20 VIOLATED: '.txt' was not appended, files:", sorted(p.name for p in tmp.iterdir()))
    sys.exit(1)
parsed = np.loadtxt(target, delimiter=";", skiprows=1)
assert np.all(np.abs(parsed - contour.coordinates) <= 0.5e-6 + 1e-12)
print("ok")
