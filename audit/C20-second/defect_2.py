"""C20 defect 2: a newline inside a semantics string makes save_contour_coordinates
write more than one header line, so 'one header line + one row per point' is false."""
import os
import sys
import tempfile
import numpy as np
from virocon import GlobalHierarchicalModel, get_DNVGL_Hs_Tz, IFORMContour
from virocon.contours import save_contour_coordinates

dist_descriptions, _, _ = get_DNVGL_Hs_Tz()
model = GlobalHierarchicalModel(dist_descriptions)
contour = IFORMContour(model, 1e-3, n_points=12)

# Two-line names are a natural choice because the same dict labels the plot axes.
semantics = {
    "names": ["Significant\nwave height", "Zero-up-crossing\nperiod"],
    "symbols": ["H_s", "T_z"],
    "units": ["m", "s"],
}
path = os.path.join(tempfile.mkdtemp(), "contour")
save_contour_coordinates(contour, path, semantics)
with open(path + ".txt") as f:
    lines = f.read().split("\n")
assert lines[-1] == ""
lines = lines[:-1]
n = len(contour.coordinates)
problems = []
if len(lines) != n + 1:
    problems.append(f"file has {len(lines)} lines, expected 1 header + {n} rows")
try:
    parsed = np.loadtxt(path + ".txt", delimiter=";", skiprows=1, ndmin=2)
    if parsed.shape != contour.coordinates.shape or not np.all(
        np.abs(parsed - contour.coordinates) <= 0.5e-6 + 1e-12
    ):
        problems.append("rows after the first line do not parse to the coordinates")
except Exception as e:  # noqa
    problems.append(f"rows after the first line cannot be parsed: {type(e).__name__}: {e}")
if problems:
    print("C20 VIOLATED:", *problems, sep="\n  - ")
    print("first lines of the file:", lines[:4])
    sys.exit(1)
print("ok")
