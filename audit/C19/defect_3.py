"""C19 defect 3: HighestDensityContour with default limits is not repeatable.

The highest density contour is a deterministic grid computation, but when
`limits` is not given, _check_grid derives the upper grid limit of every
conditional dimension from model.marginal_icdf(...), i.e. from a fresh,
unseeded Monte-Carlo sample. Grid, cell size (deltas) and therefore the
coordinates differ from call to call.
"""
import numpy as np
from virocon import GlobalHierarchicalModel, HighestDensityContour
from virocon.predefined import get_DNVGL_Hs_Tz

dist_descriptions, _, _ = get_DNVGL_Hs_Tz()
model = GlobalHierarchicalModel(dist_descriptions)
hs = model.distributions[0]
hs.alpha, hs.beta, hs.gamma = 2.776, 1.471, 0.8888
dep = model.distributions[1].conditional_parameters
dep["mu"].parameters = dict(a=0.1, b=1.489, c=0.1901)
dep["sigma"].parameters = dict(a=0.04, b=0.1748, c=-0.2243)

alpha = 0.01
h1 = HighestDensityContour(model, alpha)
h2 = HighestDensityContour(model, alpha)

assert h1.limits == h2.limits, f"default limits differ: {h1.limits} vs {h2.limits}"
a, b = np.asarray(h1.coordinates), np.asarray(h2.coordinates)
assert a.shape == b.shape and np.array_equal(a, b), "coordinates differ"
print("ok")
