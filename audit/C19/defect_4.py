"""C19 defect 4: TransformedModel.empirical_cdf caches a sample in the model
and keeps using it after the model has been re-fitted.

Evaluating empirical_cdf stores a 1e6-point sample in tm._sample (hidden model
state written by an evaluation). A later fit does not invalidate it, so the
sequence evaluate - fit - evaluate returns the probabilities of the OLD
parameters, exactly equal to the values before the fit.
"""
import numpy as np
import os
import virocon
from virocon import GlobalHierarchicalModel, read_ec_benchmark_dataset
from virocon.jointmodels import TransformedModel
from virocon.predefined import get_Nonzero_EW_Hs_S

_datasets = os.path.join(os.path.dirname(os.path.dirname(virocon.__file__)), "datasets")
data_a = read_ec_benchmark_dataset(
    os.path.join(_datasets, "ec-benchmark_dataset_A_1year.txt")
).values
data_c = read_ec_benchmark_dataset(
    os.path.join(_datasets, "ec-benchmark_dataset_C_1year.txt")
).values

dist_descriptions, fit_descriptions, _, t = get_Nonzero_EW_Hs_S()
tm = TransformedModel(
    GlobalHierarchicalModel(dist_descriptions),
    t["transform"],
    t["inverse"],
    t["jacobian"],
)
x = np.array([[2.0, 6.0], [1.0, 5.0]])

tm.fit(data_a, fit_descriptions)
p_before = tm.empirical_cdf(x)  # evaluation, fills the hidden cache
tm.fit(data_c, fit_descriptions)  # parameters change substantially
p_after = tm.empirical_cdf(x)

# reference: the same fitted joint model wrapped in a fresh TransformedModel
fresh = TransformedModel(tm.model, t["transform"], t["inverse"], t["jacobian"])
p_ref = fresh.empirical_cdf(x)

print("before refit:", p_before, "after refit:", p_after, "fresh wrapper:", p_ref)
assert not np.array_equal(p_after, p_before), (
    "empirical_cdf after the re-fit is bit-identical to the value before the re-fit"
)
# 1e6 points: Monte-Carlo error ~ 5e-4, so 0.01 is generous
assert np.allclose(p_after, p_ref, atol=0.01), (
    f"empirical_cdf of the re-fitted model {p_after} does not describe the "
    f"current parameters {p_ref}"
)
print("ok")
