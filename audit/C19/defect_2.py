"""C19 defect 2: TransformedModel ignores its random_state for sampling.

TransformedModel(..., random_state=42) is documented as "Can be used to fix
random numbers", but TransformedModel.draw_sample(n) neither accepts a
random_state nor uses self.random_state. Everything built on it
(marginal_icdf -> first coordinate of an IFORM contour, the cached
.sample / empirical_cdf) is therefore different on every call although the
model was seeded.
"""
import numpy as np
from virocon import GlobalHierarchicalModel, IFORMContour
from virocon.jointmodels import TransformedModel
from virocon.predefined import get_Nonzero_EW_Hs_S


def make_seeded_model():
    dist_descriptions, _, _, t = get_Nonzero_EW_Hs_S()
    ghm = GlobalHierarchicalModel(dist_descriptions)
    d0 = ghm.distributions[0]
    d0.alpha, d0.beta, d0.delta = 0.9, 1.2, 1.5
    dep = ghm.distributions[1].conditional_parameters
    dep["alpha"].parameters = dict(a=0.05, b=0.5)
    dep["beta"].parameters = dict(a=3.0, b=0.5)
    return TransformedModel(
        ghm,
        t["transform"],
        t["inverse"],
        t["jacobian"],
        precision_factor=0.2,
        random_state=42,
    )


tm = make_seeded_model()
c1 = IFORMContour(tm, 0.05, n_points=8).coordinates
c2 = IFORMContour(tm, 0.05, n_points=8).coordinates
c3 = IFORMContour(make_seeded_model(), 0.05, n_points=8).coordinates

msgs = []
if not np.array_equal(c1, c2):
    msgs.append(
        "IFORMContour on the same seeded TransformedModel differs between calls "
        f"(max |diff| = {np.abs(c1 - c2).max():.4g}; first column differs: "
        f"{not np.array_equal(c1[:, 0], c2[:, 0])})"
    )
if not np.array_equal(c1, c3):
    msgs.append("IFORMContour on two identically seeded TransformedModels differs")

# the marginal icdf (deterministic for a seeded model) is not repeatable either
q1 = tm.marginal_icdf([0.5, 0.9], 0, precision_factor=0.2)
q2 = tm.marginal_icdf([0.5, 0.9], 0, precision_factor=0.2)
if not np.array_equal(q1, q2):
    msgs.append(f"marginal_icdf of the seeded model differs: {q1} vs {q2}")

assert not msgs, "; ".join(msgs)
print("ok")
