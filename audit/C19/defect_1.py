"""C19 defect 1: AndContour / OrContour computed from a SUPPLIED sample are not repeatable.

With a caller-supplied Monte-Carlo sample nothing random is left in the
algorithm, so the same (model, alpha, sample) must give the same coordinates.
Both classes however call model.marginal_icdf(1 - alpha, 1), which for a
conditional dimension draws a fresh, unseeded Monte-Carlo sample of the model.
That random number scales the search path, so every construction returns
different coordinates.
"""
import numpy as np
from virocon import GlobalHierarchicalModel, AndContour, OrContour
from virocon.predefined import get_DNVGL_Hs_Tz

dist_descriptions, _, _ = get_DNVGL_Hs_Tz()
model = GlobalHierarchicalModel(dist_descriptions)
# Parameters of the DNVGL sea state model (set directly, no fit necessary).
hs = model.distributions[0]
hs.alpha, hs.beta, hs.gamma = 2.776, 1.471, 0.8888
dep = model.distributions[1].conditional_parameters
dep["mu"].parameters = dict(a=0.1, b=1.489, c=0.1901)
dep["sigma"].parameters = dict(a=0.04, b=0.1748, c=-0.2243)

alpha = 0.01
sample = model.draw_sample(20000, random_state=3)
sample_before = sample.copy()

failures = []
for cls in (AndContour, OrContour):
    runs = [
        np.array(cls(model, alpha, sample=sample).coordinates, dtype=float)
        for _ in range(3)
    ]
    same = all(
        r.shape == runs[0].shape and np.array_equal(r, runs[0]) for r in runs[1:]
    )
    if not same:
        diff = max(
            np.abs(r - runs[0]).max() for r in runs[1:] if r.shape == runs[0].shape
        )
        failures.append(f"{cls.__name__}: repeated calls differ, max |diff| = {diff:.4g}")

assert np.array_equal(sample, sample_before)  # the sample itself is left alone
assert not failures, "; ".join(failures)
print("ok")
