"""C09 defect 3: when the same DependenceFunction instance is given for two parameters
of a conditional distribution, the function of the first parameter is silently NOT
fitted to its own (reference, estimate) pairs: both parameters end up with the fit of
the last one.  Nothing rejects the configuration (distributions.py has the comment
'TODO check that dependency functions are not duplicates')."""
import numpy as np
from virocon import (GlobalHierarchicalModel, WeibullDistribution, NormalDistribution,
                     DependenceFunction, WidthOfIntervalSlicer)

rng = np.random.default_rng(0)
n = 4000
hs = rng.weibull(1.5, n) * 2.0
tz = rng.normal(3.0 + 1.0 * hs, 1.0 + 0.1 * hs)
data = np.c_[hs, tz]


def lin(x, a, b):
    return a + b * x


linear = DependenceFunction(lin)            # "both parameters are linear in Hs"
dd = [
    {"distribution": WeibullDistribution(f_gamma=0),
     "intervals": WidthOfIntervalSlicer(0.5, min_n_points=50)},
    {"distribution": NormalDistribution(), "conditional_on": 0,
     "parameters": {"mu": linear, "sigma": linear}},
]
try:
    m = GlobalHierarchicalModel(dd)
except ValueError as e:                     # rejecting the duplicate would be fine, too
    print("rejected:", e)
    raise SystemExit(0)
m.fit(data)
cd = m.distributions[1]
x = np.asarray(cd.conditioning_values, float)
A = np.c_[np.ones_like(x), x]
for name in ("mu", "sigma"):
    y = np.array([p[name] for p in cd.parameters_per_interval])
    best, *_ = np.linalg.lstsq(A, y, rcond=None)
    got = np.array(list(cd.conditional_parameters[name].parameters.values()))
    print(name, "estimates per interval:", np.round(y, 3))
    print(name, "least squares line:", best, " model:", got)
for name in ("mu", "sigma"):
    y = np.array([p[name] for p in cd.parameters_per_interval])
    best, *_ = np.linalg.lstsq(A, y, rcond=None)
    got = np.array(list(cd.conditional_parameters[name].parameters.values()))
    assert np.allclose(got, best, rtol=1e-4), (
        f"dependence function of '{name}' is not fitted to the (reference, {name} estimate) "
        f"pairs: model has {got}, least squares fit of the pairs is {best}")
