"""C09 defect 1: with PointsPerIntervalSlicer and ties in the conditioning variable
(e.g. Hs recorded to 0.1 m) the joint fit depends on the order of the rows, and an
interval is not fitted to 'exactly the observations whose conditioning value falls in
the interval': observations with the same Hs are spread over two neighbouring intervals
according to their position in the data matrix."""
import numpy as np
from virocon import (GlobalHierarchicalModel, WeibullDistribution, NormalDistribution,
                     DependenceFunction, PointsPerIntervalSlicer)

rng = np.random.default_rng(1)
n = 1000
hs = np.round(rng.weibull(1.5, n) * 2 + 0.05, 1)        # resolution 0.1 m -> ties
tz = rng.normal(3 + 1.5 * np.sqrt(hs), 0.5 + 0.1 * hs)
data = np.c_[hs, tz]


def lin(x, a, b):
    return a + b * x


def fit(d):
    dd = [
        {"distribution": WeibullDistribution(f_gamma=0),
         "intervals": PointsPerIntervalSlicer(n_points=100)},
        # NormalDistribution: closed-form MLE, so no optimiser noise is involved
        {"distribution": NormalDistribution(), "conditional_on": 0,
         "parameters": {"mu": DependenceFunction(lin), "sigma": DependenceFunction(lin)}},
    ]
    m = GlobalHierarchicalModel(dd)
    m.fit(d)
    return m


m1 = fit(data)
perm = np.argsort(-tz, kind="stable")                     # same observations, other row order
m2 = fit(data[perm])

c1, c2 = m1.distributions[1], m2.distributions[1]
print("boundaries equal:", np.allclose(c1.conditioning_interval_boundaries,
                                       c2.conditioning_interval_boundaries))
worst = 0.0
for i, (p, q) in enumerate(zip(c1.parameters_per_interval, c2.parameters_per_interval)):
    print(i, c1.conditioning_interval_boundaries[i], p, q)
    worst = max(worst, abs(p["mu"] - q["mu"]), abs(p["sigma"] - q["sigma"]))
print("dependence functions, original order:", c1.conditional_parameters)
print("dependence functions, permuted rows :", c2.conditional_parameters)

# which observations were used for interval 0?  All rows with hs == upper boundary are
# 'in' the interval as much as any other, but only some of them were used.
lo, up = c1.conditioning_interval_boundaries[0]
print("interval 0 = [%g, %g]: %d rows used, %d rows have hs in [lo, up), %d rows in [lo, up]"
      % (lo, up, len(c1.data_intervals[0]), np.sum((hs >= lo) & (hs < up)),
         np.sum((hs >= lo) & (hs <= up))))

assert worst < 1e-9, (
    f"per-interval estimates changed by up to {worst:.3g} when only the order of the "
    "rows was changed")
for name in ("mu", "sigma"):
    a = np.array(list(c1.conditional_parameters[name].parameters.values()))
    b = np.array(list(c2.conditional_parameters[name].parameters.values()))
    assert np.allclose(a, b, rtol=1e-6), (name, a, b)
