"""C09 defect 2: a DependenceFunction that was given `constraints` is not fitted to
the (interval reference, estimate) pairs at all: the model silently keeps (nearly) the
start values, and the constraint itself is never passed to the optimiser."""
import numpy as np
from virocon import (GlobalHierarchicalModel, WeibullDistribution, NormalDistribution,
                     DependenceFunction, WidthOfIntervalSlicer)

rng = np.random.default_rng(3)
n = 5000
hs = rng.weibull(1.5, n) * 2.0
tz = rng.normal(20.0 + 6.0 * hs, 1.0)          # mean of Tz | Hs is 20 + 6 * hs
data = np.c_[hs, tz]


def lin(x, a, b):
    return a + b * x


def fit(constraints):
    dd = [
        {"distribution": WeibullDistribution(f_gamma=0),
         "intervals": WidthOfIntervalSlicer(0.5, min_n_points=50)},
        {"distribution": NormalDistribution(f_sigma=1.0), "conditional_on": 0,
         "parameters": {"mu": DependenceFunction(lin, constraints=constraints)}},
    ]
    m = GlobalHierarchicalModel(dd)
    m.fit(data)
    return m.distributions[1]


# a constraint that the least squares solution satisfies anyway: a >= 0
cons = {"type": "ineq", "fun": lambda p: p[0]}
cd = fit(cons)
x = np.asarray(cd.conditioning_values, float)
y = np.array([p["mu"] for p in cd.parameters_per_interval])
dep = cd.conditional_parameters["mu"]

A = np.c_[np.ones_like(x), x]
best, *_ = np.linalg.lstsq(A, y, rcond=None)           # true least squares line
sse_best = np.sum((A @ best - y) ** 2)
sse_model = np.sum((dep(x) - y) ** 2)
print("pairs x:", x, "\npairs y:", y)
print("least squares line  :", best, "SSE", sse_best)
print("fitted DependenceFunction:", dep.parameters, "SSE", sse_model)

# sanity: the same pairs without `constraints` are fitted properly
ref = fit(None).conditional_parameters["mu"]
print("without constraints :", ref.parameters)
assert np.allclose(list(ref.parameters.values()), best, rtol=1e-5)

# (a) the function must be fitted to the pairs
assert np.allclose(list(dep.parameters.values()), best, rtol=1e-3), (
    "DependenceFunction with constraints is not fitted to the (reference, estimate) "
    f"pairs: got {dep.parameters}, least squares solution is {best}"
)

# (b) and a constraint that binds must be respected: b <= 3
cd2 = fit({"type": "ineq", "fun": lambda p: 3.0 - p[1]})
b = cd2.conditional_parameters["mu"].parameters["b"]
y2 = np.array([p["mu"] for p in cd2.parameters_per_interval])
sse2 = np.sum((cd2.conditional_parameters["mu"](x) - y2) ** 2)
print("b <= 3 run:", cd2.conditional_parameters["mu"].parameters, "SSE", sse2)
assert b <= 3.0 + 1e-6
