"""C09 defect 5: the fit option `weights` given as an array (one weight per observation,
as documented in Distribution.fit) cannot be applied to a conditional dimension: the
full-length array is handed unchanged to every interval fit, which crashes with
ValueError('all keys need to be the same shape').  The same option works for the
unconditional dimension 0."""
import copy
import numpy as np
from virocon import (GlobalHierarchicalModel, ExponentiatedWeibullDistribution,
                     DependenceFunction, WidthOfIntervalSlicer)

rng = np.random.default_rng(0)
n = 3000
v = rng.weibull(2, n) * 10
hs = rng.weibull(1.5, n) * (0.5 + 0.2 * v)
data = np.c_[v, hs]
w = hs ** 2                                   # one weight per observation (row)


def lin(x, a, b):
    return a + b * x


slicer = WidthOfIntervalSlicer(2, min_n_points=50)
template = ExponentiatedWeibullDistribution(f_delta=5)
dd = [
    {"distribution": ExponentiatedWeibullDistribution(), "intervals": slicer},
    {"distribution": template, "conditional_on": 0,
     "parameters": {"alpha": DependenceFunction(lin), "beta": DependenceFunction(lin)}},
]
fd = [{"method": "wlsq", "weights": "quadratic"},      # dimension 0
      {"method": "wlsq", "weights": w}]                # dimension 1: per-row weights
m = GlobalHierarchicalModel(dd)
m.fit(data, fit_descriptions=fd)                       # ValueError today

# expected: every interval is fitted to its own observations with their own weights
masks, refs, bounds = slicer.slice_(v)
for mask, params in zip(masks, m.distributions[1].parameters_per_interval):
    alone = copy.deepcopy(template)
    alone.fit(hs[mask], "wlsq", w[mask])
    assert np.allclose(list(params.values()), list(alone.parameters.values()), rtol=1e-8)
print("ok")
