"""C09 defect 4: ConditionalDistribution.fit documents `method=None` as 'Defaults to the
distributions default' (i.e. the same as a stand-alone `template.fit(interval_data)`),
but with the default the call crashes with AttributeError: 'NoneType' object has no
attribute 'lower'.  The same happens through GlobalHierarchicalModel.fit for a
fit description {"method": None}."""
import copy
import numpy as np
from virocon import NormalDistribution, DependenceFunction
from virocon.distributions import ConditionalDistribution

rng = np.random.default_rng(1)


def lin(x, a, b):
    return a + b * x


template = NormalDistribution()
cd = ConditionalDistribution(
    template, {"mu": DependenceFunction(lin), "sigma": DependenceFunction(lin)})
refs = [1.0, 2.0, 3.0, 4.0]
bounds = [(0.5, 1.5), (1.5, 2.5), (2.5, 3.5), (3.5, 4.5)]
intervals = [rng.normal(2 * r, 1 + 0.2 * r, 200) for r in refs]

cd.fit(intervals, refs, bounds)            # documented defaults: method=None, weights=None

for interval, params in zip(intervals, cd.parameters_per_interval):
    alone = copy.deepcopy(template)
    alone.fit(interval)                    # stand-alone fit with the distribution's default
    assert np.allclose(list(params.values()), list(alone.parameters.values()))
print("ok", cd.conditional_parameters)
