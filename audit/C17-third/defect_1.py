"""C17: design conditions / curve intersection are silently wrong for polygons whose
coordinates are stored as unsigned or narrow signed integers (no conversion to float:
np.diff and the unary minus in _intersection.intersection wrap around)."""
import sys
import numpy as np
from virocon.utils import calculate_design_conditions
from virocon._intersection import intersection


class Poly:
    def __init__(self, coordinates):
        self.coordinates = coordinates


fails = []

# 1. the square (0,0)-(4,0)-(4,4)-(0,4): the top ordinate at x = 2 is 4 whatever the dtype
square = np.array([[0, 0], [4, 0], [4, 4], [0, 4]])
for dtype in (np.float64, np.int64, np.uint8, np.uint16, np.uint64):
    for swap in (False, True):
        dc = calculate_design_conditions(Poly(square.astype(dtype)), [2], swap_axis=swap)
        ok = dc.shape == (1, 2) and dc[0, 0] == 2 and abs(dc[0, 1] - 4) < 1e-12
        print(f"square {np.dtype(dtype).name:8s} swap={swap}: {dc.tolist()} {'ok' if ok else 'WRONG (expected [[2, 4]])'}")
        if not ok:
            fails.append(("square", dtype, swap))

# 2. a square of side 200 stored as int8 (all coordinates representable): top ordinate at x = 0.5 is 100
big = np.array([[-100, -100], [100, -100], [100, 100], [-100, 100]])
for dtype in (np.int64, np.int8):
    dc = calculate_design_conditions(Poly(big.astype(dtype)), [0.5])
    ok = dc.shape == (1, 2) and abs(dc[0, 1] - 100) < 1e-9
    print(f"big square {np.dtype(dtype).name}: {dc.tolist()} {'ok' if ok else 'WRONG (expected [[0.5, 100]])'}")
    if not ok:
        fails.append(("big", dtype))

# 3. the routine itself: the two diagonals of the square [0,2]^2 cross in (1, 1)
for dtype in (np.float64, np.int64, np.uint8, np.uint64):
    a = np.array([0, 2], dtype=dtype)
    b = np.array([2, 0], dtype=dtype)
    x, y = intersection(a, a, a, b)
    ok = len(x) == 1 and abs(x[0] - 1) < 1e-12 and abs(y[0] - 1) < 1e-12
    print(f"diagonals {np.dtype(dtype).name:8s}: x={x.tolist()} y={y.tolist()} {'ok' if ok else 'WRONG (expected one crossing (1, 1))'}")
    if not ok:
        fails.append(("diag", dtype))

if fails:
    print("FAILED:", fails)
    sys.exit(1)
print("all fine")
