"""C17 defect 3: an abscissa that coincides with the abscissa of a contour vertex makes
calculate_design_conditions raise AssertionError (the vertex crossing is reported once per
adjacent edge, so a convex contour yields 3-4 'intersections' and `assert len(x) <= 2` fires).
Happens with every HighestDensityContour (vertices sit on the user's grid) for round abscissae,
and even for an integer number of steps."""
import numpy as np
from types import SimpleNamespace
from virocon import (GlobalHierarchicalModel, WeibullDistribution, LogNormalDistribution,
                     DependenceFunction, HighestDensityContour)
from virocon.utils import calculate_design_conditions


def top_ordinate(coords, x0):
    X = np.append(coords[:, 0], coords[0, 0])
    Y = np.append(coords[:, 1], coords[0, 1])
    ys = []
    for k in range(len(X) - 1):
        if min(X[k], X[k + 1]) <= x0 <= max(X[k], X[k + 1]):
            if X[k] == X[k + 1]:
                ys += [Y[k], Y[k + 1]]
            else:
                t = (x0 - X[k]) / (X[k + 1] - X[k])
                ys.append(Y[k] + t * (Y[k + 1] - Y[k]))
    return max(ys) if ys else None


failures = []

# (a) minimal convex example: diamond, probe through its top and bottom vertices.
diamond = SimpleNamespace(coordinates=np.array([[0.0, 1.0], [1.0, 0.0], [2.0, 1.0], [1.0, 2.0]]))
try:
    r = calculate_design_conditions(diamond, steps=[1.0])
    assert r.tolist() == [[1.0, 2.0]], r
except AssertionError as e:
    failures.append(("diamond steps=[1.0]", repr(e)))
# triangle, probe through the apex only
tri = SimpleNamespace(coordinates=np.array([[0.0, 0.0], [2.0, 0.0], [1.0, 2.0]]))
try:
    r = calculate_design_conditions(tri, steps=[1.0])
    assert r.tolist() == [[1.0, 2.0]], r
except AssertionError as e:
    failures.append(("triangle steps=[1.0]", repr(e)))

# (b) HighestDensityContour of the sea-state model used in the library's test-suite.
def _power3(x, a=0.1000, b=1.489, c=0.1901):
    return a + b * x ** c

def _exp3(x, a=0.0400, b=0.1748, c=-0.2243):
    return a + b * np.exp(c * x)

bounds = [(0, None), (0, None), (None, None)]
model = GlobalHierarchicalModel([
    {"distribution": WeibullDistribution(alpha=2.776, beta=1.471, gamma=0.8888)},
    {"distribution": LogNormalDistribution(), "conditional_on": 0,
     "parameters": {"mu": DependenceFunction(_power3, bounds), "sigma": DependenceFunction(_exp3, bounds)}},
])
alpha = 1 / (25 * 365.25 * 24 / 3)
hdc = HighestDensityContour(model, alpha, limits=[(0, 20), (0, 20)], deltas=[0.1, 0.1])
for label, steps in [("steps=[2, 4, 6, 8, 10] (one design condition per 2 m of Hs)", [2, 4, 6, 8, 10]),
                     ("steps=25 (number of evenly spaced abscissae)", 25)]:
    try:
        r = calculate_design_conditions(hdc, steps=steps)
        for x0, y0 in r:
            assert abs(y0 - top_ordinate(hdc.coordinates, x0)) < 1e-6, (x0, y0)
        assert len(r) == (25 if steps == 25 else 5), len(r)
    except AssertionError as e:
        failures.append(("HDC " + label, repr(e)))

for f in failures:
    print("FAILED:", f)
assert not failures, failures
