"""C17 defect 4: when the abscissa equals the abscissa of the TOP vertex, round-off in the 4x4
solve puts the segment parameter just outside [0, 1] for both adjacent edges, the vertex
crossing is dropped, and the LOWER crossing is returned silently (error O(1), not round-off)."""
import numpy as np
from types import SimpleNamespace
from virocon import (GlobalHierarchicalModel, WeibullDistribution, LogNormalDistribution,
                     DependenceFunction, IFORMContour)
from virocon.utils import calculate_design_conditions

failures = []

# (a) convex quadrilateral with one-decimal coordinates; probe through its top vertex (1.0, 6.1).
quad = SimpleNamespace(coordinates=np.array([[0.7, 2.8], [3.0, 0.7], [3.3, 2.3], [1.0, 6.1]]))
r = calculate_design_conditions(quad, steps=[1.0])
print("quadrilateral, steps=[1.0] ->", r.tolist(), " expected [[1.0, 6.1]]")
if not (r.shape == (1, 2) and abs(r[0, 1] - 6.1) < 1e-9):
    failures.append(("quadrilateral steps=[1.0]", r.tolist()))

# (b) IFORM contour of the sea-state model of the library's test-suite (default 180 points);
#     the abscissa is the Hs value of one of the contour's own points.
def _power3(x, a=0.1000, b=1.489, c=0.1901):
    return a + b * x ** c

def _exp3(x, a=0.0400, b=0.1748, c=-0.2243):
    return a + b * np.exp(c * x)

bounds = [(0, None), (0, None), (None, None)]
model = GlobalHierarchicalModel([
    {"distribution": WeibullDistribution(alpha=2.776, beta=1.471, gamma=0.8888)},
    {"distribution": LogNormalDistribution(), "conditional_on": 0,
     "parameters": {"mu": DependenceFunction(_power3, bounds), "sigma": DependenceFunction(_exp3, bounds)}},
])
contour = IFORMContour(model, 1 / (25 * 365.25 * 24 / 3))
k = 73
xk, yk = contour.coordinates[k]
try:
    r = calculate_design_conditions(contour, steps=[xk])
except AssertionError as e:          # (defect 3 instead of defect 4 -- still a violation)
    r = None
    failures.append((f"IFORM vertex {k}", repr(e)))
if r is not None:
    print(f"IFORM contour, steps=[coordinates[{k},0]={xk!r}] ->", r.tolist(),
          f" but point ({xk}, {yk}) is on the contour")
    # the returned ordinate must be the largest one at xk, hence >= the vertex's own ordinate
    if not (r.shape == (1, 2) and r[0, 1] >= yk - 1e-9):
        failures.append((f"IFORM vertex {k}", r.tolist(), (xk, yk)))

assert not failures, failures
