"""C17 defect 1: contour whose ordinates are all negative -> probe line shorter than
the contour -> top ordinate missed (lower crossing returned silently) or abscissa omitted."""
import numpy as np
from types import SimpleNamespace
from virocon import (GlobalHierarchicalModel, WeibullDistribution, NormalDistribution,
                     DependenceFunction, IFORMContour, calculate_alpha)
from virocon.utils import calculate_design_conditions


def top_ordinate(coords, x0):
    """Largest ordinate of the closed polygon at abscissa x0 (direct edge interpolation)."""
    X = np.append(coords[:, 0], coords[0, 0])
    Y = np.append(coords[:, 1], coords[0, 1])
    ys = []
    for k in range(len(X) - 1):
        if min(X[k], X[k + 1]) <= x0 <= max(X[k], X[k + 1]) and X[k] != X[k + 1]:
            t = (x0 - X[k]) / (X[k + 1] - X[k])
            ys.append(Y[k] + t * (Y[k + 1] - Y[k]))
    return max(ys) if ys else None


# (a) minimal: axis-parallel square lying below the x axis; x=1 clearly crosses it.
sq = SimpleNamespace(coordinates=np.array([[0.0, -3.0], [2.0, -3.0], [2.0, -1.0], [0.0, -1.0]]))
dc_sq = calculate_design_conditions(sq, steps=[1.0])
print("square y in [-3,-1], steps=[1.0] ->", dc_sq.tolist(), "(expected [[1.0, -1.0]])")

# (b) realistic: IFORM contour, 2nd variable normal with negative (Hs-dependent) mean.
def _lin(x, a=-30.0, b=1.5):
    return a + b * x

lin = DependenceFunction(_lin, [(None, None), (None, None)])
model = GlobalHierarchicalModel([
    {"distribution": WeibullDistribution(alpha=2.776, beta=1.471, gamma=0.8888)},
    {"distribution": NormalDistribution(f_sigma=2.0), "conditional_on": 0, "parameters": {"mu": lin}},
])
contour = IFORMContour(model, calculate_alpha(3, 25))
dc = calculate_design_conditions(contour)  # default: 10 abscissae inside the contour's extent
bad = []
for x0, y0 in dc:
    top = top_ordinate(contour.coordinates, x0)
    print(f"x={x0:.4f}  returned={y0:.4f}  top ordinate on contour={top:.4f}")
    if abs(y0 - top) > 1e-6:
        bad.append((x0, y0, top))

assert dc_sq.shape == (1, 2) and abs(dc_sq[0, 1] - (-1.0)) < 1e-9, \
    f"square below the axis: abscissa 1.0 crosses the contour but result is {dc_sq.tolist()}"
assert len(dc) == 10, f"default abscissae all cross the contour, but only {len(dc)} returned"
assert not bad, f"design conditions that are not the top ordinate: {bad}"
