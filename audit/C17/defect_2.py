"""C17 defect 2: an abscissa that crosses the closed contour more than twice (non-convex
contour) raises AssertionError instead of returning the largest ordinate."""
import numpy as np
from types import SimpleNamespace
from virocon import (GlobalHierarchicalModel, WeibullDistribution, NormalDistribution,
                     LogNormalDistribution, DependenceFunction, IFORMContour, AndContour,
                     calculate_alpha)
from virocon.utils import calculate_design_conditions


def top_ordinate(coords, x0, xi=0, yi=1):
    X = np.append(coords[:, xi], coords[0, xi])
    Y = np.append(coords[:, yi], coords[0, yi])
    ys = []
    for k in range(len(X) - 1):
        if min(X[k], X[k + 1]) <= x0 <= max(X[k], X[k + 1]) and X[k] != X[k + 1]:
            t = (x0 - X[k]) / (X[k + 1] - X[k])
            ys.append(Y[k] + t * (Y[k + 1] - Y[k]))
    return max(ys) if ys else None


failures = []

# (a) minimal: C-shaped closed polygon, x=2 crosses it four times (y = 0, 1, 2, 3).
cshape = SimpleNamespace(coordinates=np.array(
    [[0, 0], [3, 0], [3, 1], [1, 1], [1, 2], [3, 2], [3, 3], [0, 3]], dtype=float))
try:
    r = calculate_design_conditions(cshape, steps=[2.0])
    assert r.tolist() == [[2.0, 3.0]], r
except AssertionError as e:
    failures.append(("C-shape steps=[2.0]", repr(e)))

# (b) deterministic banana-shaped IFORM contour (mean of 2nd variable is quadratic in the 1st),
#     probed along the 2nd variable (swap_axis=True), default abscissae.
def _quad(x, a=0.0, b=1.0):
    return a + b * x ** 2

quad = DependenceFunction(_quad, [(None, None), (None, None)])
banana = GlobalHierarchicalModel([
    {"distribution": NormalDistribution(mu=0.0, sigma=1.0)},
    {"distribution": NormalDistribution(f_sigma=0.3), "conditional_on": 0, "parameters": {"mu": quad}},
])
c_banana = IFORMContour(banana, 0.01)
try:
    r = calculate_design_conditions(c_banana, swap_axis=True)
    for x0, y0 in r:
        assert abs(y0 - top_ordinate(c_banana.coordinates, x0, 1, 0)) < 1e-6
    assert len(r) == 10
except AssertionError as e:
    failures.append(("banana IFORM contour, swap_axis=True, default steps", repr(e)))

# (c) library's own AndContour (closed via the origin, Monte-Carlo jagged) on the sea-state
#     model of the test-suite, all-default call as issued by plot_2D_contour(design_conditions=True).
def _power3(x, a=0.1000, b=1.489, c=0.1901):
    return a + b * x ** c

def _exp3(x, a=0.0400, b=0.1748, c=-0.2243):
    return a + b * np.exp(c * x)

bounds = [(0, None), (0, None), (None, None)]
seastate = GlobalHierarchicalModel([
    {"distribution": WeibullDistribution(alpha=2.776, beta=1.471, gamma=0.8888)},
    {"distribution": LogNormalDistribution(), "conditional_on": 0,
     "parameters": {"mu": DependenceFunction(_power3, bounds), "sigma": DependenceFunction(_exp3, bounds)}},
])
alpha = 1 / (25 * 365.25 * 24 / 3)
sample = seastate.draw_sample(int(100 / alpha), random_state=0)
c_and = AndContour(seastate, alpha, sample=sample)
try:
    r = calculate_design_conditions(c_and)
    for x0, y0 in r:
        assert abs(y0 - top_ordinate(c_and.coordinates, x0)) < 1e-6
except AssertionError as e:
    failures.append(("AndContour default call", repr(e)))

for f in failures:
    print("FAILED:", f)
assert not failures, failures
