"""C07 defect 1: VonMisesDistribution samples do not follow the distribution's own cdf
when mu != 0 (scipy wraps the rvs into [-pi, pi], the cdf/icdf live on [mu-pi, mu+pi])."""
import numpy as np
import scipy.stats as sts
from virocon import (VonMisesDistribution, WeibullDistribution, DependenceFunction,
                     GlobalHierarchicalModel)

# --- univariate -----------------------------------------------------------
dist = VonMisesDistribution(kappa=2, mu=3)
sample = dist.draw_sample(20000, random_state=1)
u = dist.cdf(sample)
print("sample range:", sample.min(), sample.max())
print("icdf(1e-6), icdf(1-1e-6):", dist.icdf(1e-6), dist.icdf(1 - 1e-6))
print("cdf(sample) range:", u.min(), u.max())
p = sts.kstest(sample, dist.cdf).pvalue
print("KS p-value sample vs. cdf:", p)

# --- joint: direction conditional on Hs -----------------------------------
def lin(x, a=1.0, b=0.5):
    return a + b * x

def pos(x, a=0.5, b=0.1):
    return a + b * x

model = GlobalHierarchicalModel([
    {"distribution": WeibullDistribution(alpha=2, beta=1.5, gamma=0)},
    {"distribution": VonMisesDistribution(), "conditional_on": 0,
     "parameters": {"kappa": DependenceFunction(pos), "mu": DependenceFunction(lin)}},
])
s = model.draw_sample(20000, random_state=7)
u1 = model.distributions[1].cdf(s[:, 1], given=s[:, 0])  # Rosenblatt, 2nd component
print("joint: conditional cdf of the sampled directions, range:", u1.min(), u1.max())
p_joint = sts.kstest(u1, "uniform").pvalue
print("joint KS p-value:", p_joint)

assert u.min() >= 0 and u.max() <= 1, "cdf of sampled values outside [0, 1]"
assert p > 1e-3, "univariate von Mises sample does not match its cdf"
assert u1.min() >= 0 and u1.max() <= 1, "conditional cdf of sampled values outside [0, 1]"
assert p_joint > 1e-3, "Rosenblatt transform of joint sample is not uniform/normal"
