"""C07 defect 3: samples of a TransformedModel cannot be reproduced by seed.
draw_sample() accepts no random_state, and the random_state given to the constructor
("Can be used to fix random numbers") is ignored by draw_sample()."""
import numpy as np
from virocon import GlobalHierarchicalModel, TransformedModel, get_Windmeier_EW_Hs_S

dist_descriptions, _, _, tr = get_Windmeier_EW_Hs_S()
ghm = GlobalHierarchicalModel(dist_descriptions)

def make(seed):
    return TransformedModel(ghm, tr["transform"], tr["inverse"], tr["jacobian"],
                            precision_factor=0.2, random_state=seed)

# the underlying model is reproducible by seed ...
assert np.array_equal(ghm.draw_sample(5, random_state=42), ghm.draw_sample(5, random_state=42))

reproducible = False
# ... way 1: seed passed to draw_sample (as for every other draw_sample in the package)
try:
    a = make(None).draw_sample(5, random_state=42)
    b = make(None).draw_sample(5, random_state=42)
    reproducible = np.array_equal(a, b)
    print("draw_sample(5, random_state=42) twice equal:", reproducible)
except TypeError as e:
    print("draw_sample(n, random_state=42) ->", type(e).__name__, e)

# ... way 2: seed passed to the constructor
if not reproducible:
    a = make(42).draw_sample(5)
    b = make(42).draw_sample(5)
    print("two identically seeded TransformedModel(random_state=42):\n", a, "\n", b)
    reproducible = np.array_equal(a, b)

assert reproducible, "TransformedModel sample is not reproducible by any seed"
