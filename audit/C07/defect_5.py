"""C07 defect 5: ScipyDistribution.draw_sample(n, <par>=None) crashes, although None means
'use the distribution's own value' for positional arguments of the same method and for the
keyword arguments of every other distribution family."""
import numpy as np
from virocon import ScipyDistribution, WeibullDistribution


class GammaDistribution(ScipyDistribution):
    scipy_dist_name = "gamma"


# the convention everywhere else: None -> own parameter value
w = WeibullDistribution(alpha=2, beta=1.5, gamma=0)
assert np.array_equal(w.draw_sample(5, alpha=None, beta=None, gamma=None, random_state=1),
                      w.draw_sample(5, random_state=1))

g = GammaDistribution(a=2.0, loc=0.0, scale=1.5)
reference = g.draw_sample(5, random_state=1)
# positional None already works for ScipyDistribution
assert np.array_equal(g.draw_sample(5, None, None, None, random_state=1), reference)
# keyword None does not
sample = g.draw_sample(5, a=None, loc=None, scale=None, random_state=1)  # TypeError today
assert np.array_equal(sample, reference)
