"""C07 defect 2: if every parameter of a conditional distribution evaluates to a scalar
(all parameters fixed, or dependence functions that return a constant), the joint sample's
column is ONE draw repeated n times instead of n draws from the conditional distribution."""
import numpy as np
import scipy.stats as sts
from virocon import (WeibullDistribution, NormalDistribution, DependenceFunction,
                     GlobalHierarchicalModel)

n = 2000

def const(x, a=2.0):  # parameter does not vary with the conditioning variable
    return a

# variant A: constant dependence function + remaining parameter fixed
model_a = GlobalHierarchicalModel([
    {"distribution": WeibullDistribution(alpha=2, beta=1.5, gamma=0)},
    {"distribution": NormalDistribution(f_sigma=1), "conditional_on": 0,
     "parameters": {"mu": DependenceFunction(const)}},
])
# variant B: all parameters fixed
model_b = GlobalHierarchicalModel([
    {"distribution": WeibullDistribution(alpha=2, beta=1.5, gamma=0)},
    {"distribution": NormalDistribution(f_mu=2, f_sigma=1), "conditional_on": 0,
     "parameters": {}},
])

failed = []
for name, model in [("const dependence function", model_a), ("all parameters fixed", model_b)]:
    s = model.draw_sample(n, random_state=1)
    assert s.shape == (n, 2)
    # the model itself says: X1 | X0 = x0 ~ N(2, 1) for every row
    pdf_says = model.distributions[1].pdf(np.array([1.0, 2.0, 3.0]), given=np.array([0.5, 1.0, 4.0]))
    n_unique = len(np.unique(s[:, 1]))
    u = model.distributions[1].cdf(s[:, 1], given=s[:, 0])  # Rosenblatt, 2nd component
    p = sts.kstest(u, "uniform").pvalue
    print(f"{name}: pdf at (1,2,3) = {pdf_says}; first rows of column 1 = {s[:4, 1]}; "
          f"distinct values = {n_unique} of {n}; KS p = {p}")
    if n_unique != n or p < 1e-3:
        failed.append(name)

assert not failed, f"conditional column is a single repeated draw for: {failed}"
