"""C07 defect 4: MultivariateModel.conditional_sample (rejection sampler, inherited by
GlobalHierarchicalModel and TransformedModel) silently truncates the conditional
distribution to the hard-coded window (1e-16, 100): no negative values, nothing above 100."""
import warnings
import numpy as np
import scipy.stats as sts
from virocon import (WeibullDistribution, NormalDistribution, DependenceFunction,
                     GlobalHierarchicalModel)

def make(mu_a, mu_b, sigma):
    def mu(x, a=mu_a, b=mu_b):
        return a + b * x
    def sig(x, a=sigma, b=0.0):
        return a + b * x
    return GlobalHierarchicalModel([
        {"distribution": WeibullDistribution(alpha=2, beta=1.5, gamma=0)},
        {"distribution": NormalDistribution(), "conditional_on": 0,
         "parameters": {"mu": DependenceFunction(mu), "sigma": DependenceFunction(sig)}},
    ])

failed = []
with warnings.catch_warnings(record=True) as caught:
    warnings.simplefilter("always")
    # (a) X1 | X0=2 ~ N(0.2, 1): 42 % of the mass is negative
    # (b) X1 | X0=2 ~ N(150.2, 20): 99 % of the mass is above 100
    for label, model in [("N(0.2,1)", make(0.0, 0.1, 1.0)), ("N(150.2,20)", make(150.0, 0.1, 20.0))]:
        given = 2.0
        s = model.conditional_sample(20000, 1, [given], random_state=1)
        exact = model.distributions[1]
        p = sts.kstest(s, lambda x: exact.cdf(x, given=given)).pvalue
        print(f"X1|X0=2 ~ {label}: len={len(s)} min={s.min():.4g} max={s.max():.4g} "
              f"mean={s.mean():.4g} (exact mean {exact.icdf(0.5, given=given):.4g}) KS p={p:.3g}")
        if p < 1e-3:
            failed.append(label)
print("warnings emitted:", [str(w.message) for w in caught])
assert not failed, f"conditional_sample does not follow the conditional distribution for {failed}"
