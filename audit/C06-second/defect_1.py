"""C06 defect 1: marginal_pdf / marginal_cdf of a conditional variable collapse to ~0
when the conditioning variable has a small coefficient of variation (narrow density
far from 0, e.g. air pressure in hPa, temperature in K): the quadrature over (0, inf)
never sees the peak of the joint density.  The joint cdf and the Monte-Carlo
marginal_icdf of the same model are right, so the marginals disagree with the joint
density and marginal_cdf(marginal_icdf(p)) != p."""
import sys
import numpy as np
from virocon import (GlobalHierarchicalModel, WeibullDistribution,
                     LogNormalDistribution, DependenceFunction)


def lin(x, a, b):
    return a + b * x


def dep(a, b):
    d = DependenceFunction(lin, [(0, None), (0, None)])
    d.parameters = {"a": a, "b": b}
    return d


# variable 0: air pressure in hPa, 3-parameter Weibull on [980, inf), mean ~1011, std ~11
# variable 1: log-normal whose mu depends (weakly) on variable 0
model = GlobalHierarchicalModel([
    {"distribution": WeibullDistribution(alpha=35, beta=3, gamma=980)},
    {"distribution": LogNormalDistribution(), "conditional_on": 0,
     "parameters": {"mu": dep(0.2, 0.3 / 1013), "sigma": dep(0.25, 0.0)}},
])

p = np.array([0.05, 0.5, 0.95])
x = model.marginal_icdf(p, 1, random_state=1)          # Monte-Carlo quantiles
F = model.marginal_cdf(x, 1)                           # should be ~p
f = model.marginal_pdf(x, 1)

# reference: variable 1 given v is log-normal -> mix over an (exact) grid of v
v = model.distributions[0].icdf((np.arange(20000) + 0.5) / 20000)
cond = model.distributions[1]
F_ref = np.array([cond.cdf(np.full_like(v, xi), given=v).mean() for xi in x])
f_ref = np.array([cond.pdf(np.full_like(v, xi), given=v).mean() for xi in x])
# the joint cdf with a huge first coordinate is the same marginal probability
F_joint = model.cdf(np.c_[np.full(3, 1100.0), x])

print("p                 ", p)
print("marginal_icdf(p)  ", x)
print("marginal_cdf(.)   ", F, "   reference", F_ref, "  joint cdf", F_joint)
print("marginal_pdf(.)   ", f, "   reference", f_ref)

ok = (np.allclose(F, p, atol=0.01) and np.allclose(F, F_joint, atol=0.01)
      and np.allclose(f, f_ref, rtol=0.02))
sys.exit(0 if ok else 1)
