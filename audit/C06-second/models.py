import numpy as np
from virocon import (GlobalHierarchicalModel, WeibullDistribution, LogNormalDistribution,
    ExponentiatedWeibullDistribution, DependenceFunction, GeneralizedGammaDistribution)

def dnvgl_hs_tz():
    def _power3(x, a, b, c): return a + b * x**c
    def _exp3(x, a, b, c): return a + b * np.exp(c * x)
    bounds = [(0, None), (0, None), (None, None)]
    power3 = DependenceFunction(_power3, bounds)
    exp3 = DependenceFunction(_exp3, bounds)
    power3.parameters = {"a": 0.7, "b": 1.27, "c": 0.131}   # typical
    exp3.parameters = {"a": 0.1, "b": 0.22, "c": -0.29}  # hmm
    d0 = {"distribution": WeibullDistribution(alpha=2.776, beta=1.471, gamma=0.8888)}
    d1 = {"distribution": LogNormalDistribution(), "conditional_on": 0,
          "parameters": {"mu": power3, "sigma": exp3}}
    return GlobalHierarchicalModel([d0, d1])

def omae_v_hs():
    def _logistics4(x, a=1, b=1, c=-1, d=1):
        return a + b / (1 + np.exp(c * (x - d)))
    def _alpha3(x, a, b, c, d_of_x):
        return (a + b * x**c) / 2.0445 ** (1 / d_of_x(x))
    beta_dep = DependenceFunction(_logistics4, [(0, None), (0, None), (None, 0), (0, None)])
    alpha_dep = DependenceFunction(_alpha3, [(0, None), (0, None), (None, None)], d_of_x=beta_dep)
    beta_dep.parameters = {"a": 0.582, "b": 1.90, "c": -0.248, "d": 8.49}
    alpha_dep.parameters = {"a": 0.394, "b": 0.0178, "c": 1.88}
    d0 = {"distribution": ExponentiatedWeibullDistribution(alpha=10.0, beta=2.42, delta=0.761)}
    d1 = {"distribution": ExponentiatedWeibullDistribution(f_delta=5), "conditional_on": 0,
          "parameters": {"alpha": alpha_dep, "beta": beta_dep}}
    return GlobalHierarchicalModel([d0, d1])

def omae_hs_tz():
    def _asymdecrease3(x, a, b, c): return a + b / (1 + c * x)
    def _lnsquare2(x, a, b, c): return np.log(a + b * np.sqrt(np.divide(x, 9.81)))
    bounds = [(0, None), (0, None), (None, None)]
    sigma_dep = DependenceFunction(_asymdecrease3, bounds=bounds)
    mu_dep = DependenceFunction(_lnsquare2, bounds=bounds)
    sigma_dep.parameters = {"a": 0.001, "b": 0.233, "c": 0.285}
    mu_dep.parameters = {"a": 3.62, "b": 5.77, "c": None}
    mu_dep.parameters = {"a": 3.62, "b": 5.77, "c": 0}
    d0 = {"distribution": ExponentiatedWeibullDistribution(alpha=0.207, beta=0.684, delta=7.79)}
    d1 = {"distribution": LogNormalDistribution(), "conditional_on": 0,
          "parameters": {"sigma": sigma_dep, "mu": mu_dep}}
    return GlobalHierarchicalModel([d0, d1])
