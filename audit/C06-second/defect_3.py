"""C06 defect 3: for a conditional exponentiated Weibull variable with delta < 1 whose
shape beta grows with the conditioning variable, the joint pdf is NaN at tail points
(0 * inf) and therefore marginal_pdf / marginal_cdf, which integrate the conditioning
variable over (0, inf), are NaN in the bulk - while the joint cdf over finite limits
(model.cdf([[60, 0.5]]) = 0.64541) and marginal_icdf are right."""
import sys
import numpy as np
from virocon import (GlobalHierarchicalModel, WeibullDistribution,
                     ExponentiatedWeibullDistribution, DependenceFunction)


def lin(x, a, b):
    return a + b * x


def dep(a, b):
    d = DependenceFunction(lin, [(0, None), (0, None)])
    d.parameters = {"a": a, "b": b}
    return d


model = GlobalHierarchicalModel([
    {"distribution": WeibullDistribution(alpha=2, beta=1.8)},
    {"distribution": ExponentiatedWeibullDistribution(f_delta=0.5), "conditional_on": 0,
     "parameters": {"alpha": dep(0.5, 0.3), "beta": dep(0.8, 0.05)}},
])

tail = np.array([[3744.0, 0.5], [1000.0, 0.5], [2.0, 0.5]])
f_tail = model.pdf(tail)
print("pdf at", tail.tolist(), "->", f_tail)

x = np.array([0.5])
f = model.marginal_pdf(x, 1)
F = model.marginal_cdf(x, 1)
# reference: mixture of the conditional law over exact quantiles of variable 0
v = model.distributions[0].icdf((np.arange(20000) + 0.5) / 20000)
cond = model.distributions[1]
f_ref = cond.pdf(np.full_like(v, x[0]), given=v).mean()
F_ref = cond.cdf(np.full_like(v, x[0]), given=v).mean()
print("marginal_pdf(0.5) =", f, " reference", f_ref)
print("marginal_cdf(0.5) =", F, " reference", F_ref)

ok = (np.all(np.isfinite(f_tail)) and np.all(f_tail >= 0)
      and np.allclose(f, f_ref, rtol=0.02) and np.allclose(F, F_ref, atol=0.005))
sys.exit(0 if ok else 1)
