"""C06 defect 4 (borderline scope): where the density of the conditioning variable is
exactly 0 (a point on / below the lower edge of its support) the joint pdf is NaN
instead of 0, because the dependence functions are evaluated there (x**c, sqrt, log of
a non-positive number) and 0 * nan = nan.  The joint cdf of such a point is NaN too
instead of 0."""
import sys
import numpy as np
from virocon import (GlobalHierarchicalModel, WeibullDistribution,
                     LogNormalDistribution, DependenceFunction)


def _power3(x, a, b, c):
    return a + b * x**c


def _exp3(x, a, b, c):
    return a + b * np.exp(c * x)


def _loglin(x, a, b):          # median of T proportional to a power of Hs
    return a + b * np.log(x)


def dep(func, **pars):
    d = DependenceFunction(func)
    d.parameters = pars
    return d


# DNV-GL Hs-Tz structure (virocon.predefined.get_DNVGL_Hs_Tz) with typical parameters
dnvgl = GlobalHierarchicalModel([
    {"distribution": WeibullDistribution(alpha=2.776, beta=1.471, gamma=0.8888)},
    {"distribution": LogNormalDistribution(), "conditional_on": 0,
     "parameters": {"mu": dep(_power3, a=0.1, b=1.489, c=0.1901),
                    "sigma": dep(_exp3, a=0.04, b=0.1748, c=-0.2243)}},
])
# same structure, mu = a + b ln(hs)
loglin = GlobalHierarchicalModel([
    {"distribution": WeibullDistribution(alpha=2.0, beta=1.5)},
    {"distribution": LogNormalDistribution(), "conditional_on": 0,
     "parameters": {"mu": dep(_loglin, a=1.8, b=0.3),
                    "sigma": dep(_exp3, a=0.04, b=0.1748, c=-0.2243)}},
])

f1 = dnvgl.pdf([[-0.5, 6.0], [0.5, 6.0], [3.0, 6.0]])     # hs below the support
f2 = loglin.pdf([[0.0, 6.0], [3.0, 6.0]])                  # hs on the edge of the support
F1 = dnvgl.cdf([[-0.5, 6.0]])
print("DNVGL  pdf([-0.5, 6], [0.5, 6], [3, 6]) =", f1)
print("loglin pdf([0, 6], [3, 6])             =", f2)
print("DNVGL  cdf([-0.5, 6])                  =", F1)

ok = (np.all(np.isfinite(f1)) and np.all(f1 >= 0) and f1[0] == 0
      and np.all(np.isfinite(f2)) and f2[0] == 0
      and np.all(np.isfinite(F1)) and abs(F1[0]) < 1e-12)
sys.exit(0 if ok else 1)
