"""C06 defect 2: marginal_pdf of an unconditional exponentiated Weibull variable
rejects a plain list of points (TypeError), although marginal_cdf / marginal_icdf of
the same variable, marginal_pdf of the conditional variable and model.pdf all accept
lists.  Model: the predefined OMAE2020 V-Hs structure with fixed parameters."""
import sys
import numpy as np
from virocon import (GlobalHierarchicalModel, ExponentiatedWeibullDistribution,
                     LogNormalDistribution, DependenceFunction)


def lin(x, a, b):
    return a + b * x


def dep(a, b):
    d = DependenceFunction(lin, [(0, None), (0, None)])
    d.parameters = {"a": a, "b": b}
    return d


model = GlobalHierarchicalModel([
    {"distribution": ExponentiatedWeibullDistribution(alpha=0.207, beta=0.684, delta=7.79)},
    {"distribution": LogNormalDistribution(), "conditional_on": 0,
     "parameters": {"mu": dep(1.2, 0.2), "sigma": dep(0.2, 0.0)}},
])

pts = [1.0, 2.5]
print("marginal_cdf (list, dim 0):", model.marginal_cdf(pts, 0))
print("marginal_pdf (list, dim 1):", model.marginal_pdf([5.0, 7.0], 1))
print("marginal_pdf (array, dim 0):", model.marginal_pdf(np.array(pts), 0))
try:
    f = model.marginal_pdf(pts, 0)
except Exception as e:  # TypeError today
    print("marginal_pdf (list, dim 0) raised", type(e).__name__, ":", e)
    sys.exit(1)
print("marginal_pdf (list, dim 0):", f)
sys.exit(0 if np.allclose(f, model.marginal_pdf(np.array(pts), 0)) else 1)
