"""C10 defect 5: empty data vector -> WidthOfIntervalSlicer and NumberOfIntervalsSlicer
(default value_range) raise ValueError from np.max / min instead of the promised
RuntimeError ("fewer than min_n_intervals remain"). PointsPerIntervalSlicer, and the
same two slicers with an explicit value_range, do raise RuntimeError.
"""
import numpy as np
from virocon import (
    WidthOfIntervalSlicer,
    NumberOfIntervalsSlicer,
    PointsPerIntervalSlicer,
)

empty = np.array([], dtype=float)
slicers = {
    "PointsPerIntervalSlicer(3)": PointsPerIntervalSlicer(3),
    "WidthOfIntervalSlicer(1, value_range=(0, 3))": WidthOfIntervalSlicer(1, value_range=(0, 3)),
    "NumberOfIntervalsSlicer(3, value_range=(0, 3))": NumberOfIntervalsSlicer(3, value_range=(0, 3)),
    "WidthOfIntervalSlicer(1)": WidthOfIntervalSlicer(1),
    "NumberOfIntervalsSlicer(3)": NumberOfIntervalsSlicer(3),
}
wrong = []
for label, s in slicers.items():
    try:
        s.slice_(empty)
        wrong.append((label, "no exception"))
    except RuntimeError as e:
        print(label, "-> RuntimeError (ok)")
    except Exception as e:  # noqa
        print(label, "->", type(e).__name__, e)
        wrong.append((label, type(e).__name__, str(e)))

assert not wrong, f"expected RuntimeError for empty data, got: {wrong}"
