"""C10 defect 2: WidthOfIntervalSlicer raises IndexError (not RuntimeError) when the
data lie entirely below the covered range, i.e. when zero intervals remain.

np.arange(data_min, data_max + width, width) is empty as soon as
max(data) <= data_min - width, and interval_references[-1] then fails.
"""
import numpy as np
from virocon import WidthOfIntervalSlicer

cases = {
    "all-negative data, default range (lower limit 0)": (
        WidthOfIntervalSlicer(0.5),
        np.array([-3.0, -2.0, -1.5, -1.0]),
    ),
    "value_range lower limit above all data": (
        WidthOfIntervalSlicer(0.5, value_range=(5, None), min_n_points=1),
        np.array([1.0, 2.0, 3.0]),
    ),
    "value_range upper < lower": (
        WidthOfIntervalSlicer(1, value_range=(5, 3), min_n_points=1),
        np.array([1.0, 2.0, 3.0, 4.0, 5.0, 6.0]),
    ),
}
# control: data only slightly below the range -> the promised RuntimeError
try:
    WidthOfIntervalSlicer(0.5).slice_(np.array([-3.0, -2.0, -0.2]))
    raise AssertionError("control case should raise RuntimeError")
except RuntimeError as e:
    print("control: RuntimeError:", e)

wrong = []
for label, (slicer, data) in cases.items():
    try:
        res = slicer.slice_(data)
        wrong.append((label, "no exception", res))
    except RuntimeError as e:
        print(label, "-> RuntimeError (ok):", e)
    except Exception as e:  # noqa
        print(label, "->", type(e).__name__, e)
        wrong.append((label, type(e).__name__, str(e)))

assert not wrong, f"expected RuntimeError (fewer than min_n_intervals remain), got: {wrong}"
