"""C10 defect 1: WidthOfIntervalSlicer loses the observation that sits exactly on
the lower limit of a non-zero value_range (it belongs to NO interval).

The lower edge of the first interval is rebuilt as (start + 0.5*width) - 0.5*width,
which is not start in floating point (e.g. (0.3 + 0.5) - 0.5 = 0.30000000000000004).
"""
import numpy as np
from virocon import WidthOfIntervalSlicer

data = np.array([0.3, 0.7, 1.5, 2.9, 3.1])  # min(data) == 0.3 == lower limit of the range

failures = []
for width in (1, 0.5, 2):
    slicer = WidthOfIntervalSlicer(
        width, value_range=(0.3, None), min_n_points=0, min_n_intervals=1
    )
    slices, refs, bounds = slicer.slice_(data)
    membership = np.sum(slices, axis=0)  # number of intervals each observation is in
    print(f"width={width}: membership per observation = {membership}, first boundary = {bounds[0]}")
    if not np.all(membership == 1):
        failures.append((width, membership.tolist(), bounds[0]))

# same thing with the very natural value_range=(data.min(), data.max())
slicer = WidthOfIntervalSlicer(
    1.0, value_range=(data.min(), data.max()), min_n_points=0, min_n_intervals=1
)
slices, refs, bounds = slicer.slice_(data)
membership = np.sum(slices, axis=0)
print("value_range=(min, max):", membership)
if not np.all(membership == 1):
    failures.append(("minmax", membership.tolist(), bounds[0]))

# with min_n_points=1 the point is silently absent from every returned interval
slices, _, _ = WidthOfIntervalSlicer(
    1, value_range=(0.3, None), min_n_points=1, min_n_intervals=1
).slice_(data)
print("observations assigned:", int(np.sum(slices)), "of", len(data))

assert not failures, (
    "observation equal to the lower limit of value_range belongs to no interval: "
    f"{failures}"
)
