"""C10 defect 4: WidthOfIntervalSlicer with small-integer dtype data and an integer
width: np.max(data) + width is computed in the data's dtype and wraps around, so the
intervals stop far below max(data); most observations belong to NO interval (silently),
or the slicer crashes with IndexError.
"""
import numpy as np
from virocon import WidthOfIntervalSlicer

problems = []

data = np.array([10, 50, 100, 150, 200, 250, 251, 252], dtype=np.uint8)
slices, refs, bounds = WidthOfIntervalSlicer(20, min_n_points=0, min_n_intervals=1).slice_(data)
membership = np.sum(slices, axis=0)
print("uint8 :", len(slices), "interval(s)", bounds, "membership", membership)
f_slices, _, _ = WidthOfIntervalSlicer(20, min_n_points=0, min_n_intervals=1).slice_(data.astype(float))
print("float :", len(f_slices), "intervals, membership", np.sum(f_slices, axis=0))
if not np.all(membership == 1):
    problems.append(("uint8", membership.tolist()))

data16 = np.array([100, 5000, 20000, 21000, 30000, 32000], dtype=np.int16)
try:
    slices, refs, bounds = WidthOfIntervalSlicer(1000, min_n_points=0, min_n_intervals=1).slice_(data16)
    membership = np.sum(slices, axis=0)
    if not np.all(membership == 1):
        problems.append(("int16", membership.tolist()))
except Exception as e:  # noqa
    print("int16 :", type(e).__name__, e)
    problems.append(("int16", type(e).__name__, str(e)))

assert not problems, f"observations in [0, max(data)] not in exactly one interval: {problems}"
