"""C10 defect 3: PointsPerIntervalSlicer reports boundaries that do not contain the
interval's members (and are inverted / overlapping) for small integer dtypes.

(np.max(interval) + np.min(next_interval)) / 2 adds two numpy integer scalars of the
data's dtype; the sum wraps around for int8 / uint8 / int16 ... data.
"""
import numpy as np
from virocon import PointsPerIntervalSlicer

problems = []
for data in (
    np.array([10, 50, 100, 150, 200, 250, 251, 252], dtype=np.uint8),
    np.array([100, 5000, 20000, 21000, 30000, 32000], dtype=np.int16),
    np.array([10, 50, 100, 110, 120, 125, 126, 127], dtype=np.int8),
):
    slices, refs, bounds = PointsPerIntervalSlicer(2, min_n_points=1).slice_(data)
    print(data.dtype, [(float(a), float(b)) for a, b in bounds])
    # reference result computed on the same values as float64
    _, _, fbounds = PointsPerIntervalSlicer(2, min_n_points=1).slice_(data.astype(float))
    for m, (lo, hi) in zip(slices, bounds):
        x = data[m].astype(float)
        if not (lo <= x.min() and x.max() <= hi):
            problems.append((str(data.dtype), "members outside boundary", x.tolist(), (float(lo), float(hi))))
    for (l1, u1), (l2, u2) in zip(bounds[:-1], bounds[1:]):
        if u1 > l2 or l1 > u1:
            problems.append((str(data.dtype), "inverted/overlapping", (float(l1), float(u1)), (float(l2), float(u2))))
    if [(float(a), float(b)) for a, b in bounds] != [(float(a), float(b)) for a, b in fbounds]:
        problems.append((str(data.dtype), "differs from float64 result", fbounds))

assert not problems, f"boundaries wrong for integer dtype data: {problems}"
