"""C13 defect 1: p**(1/delta) underflows to 0 for small delta -> log10(0) = -inf.

For delta < ln(p_1)/ln(tiny) (0.0124 for n=5000, 0.0057 for n=30) the first
plotting positions give p**(1/delta) == 0.0, so log10(-log1p(-0.0)) = -inf:
  * a fixed delta below that barrier returns alpha = beta = nan,
  * a free delta cannot pass the barrier: fmin stops right at it and returns a
    delta that is not a local minimiser of the weighted x-space quantile error.
Exit status 0 only if the library behaves as property C13 says.
"""
import sys
import warnings
import numpy as np
from virocon import ExponentiatedWeibullDistribution as EW

warnings.simplefilter("ignore")


def ln_L(p, delta):
    """ln(-ln(1 - p**(1/delta))), evaluated without underflow/cancellation."""
    lq = np.log(p) / delta  # ln q, q = p**(1/delta)
    q = np.exp(np.maximum(lq, -700.0))
    small = np.log(-np.log1p(-q))
    big = np.log(-np.log(-np.expm1(np.minimum(lq, -1e-300))))
    # -ln(1-q) = q (1 + q/2 + ...): for q < e^-36 ln(-ln(1-q)) == ln q in double
    return np.where(lq < -36.0, lq, np.where(lq < -1.0, small, big))


def reference(x_sorted, w_sorted, delta):
    """Weighted regression of log10 x on log10(-ln(1-p^(1/delta))) + x-space error."""
    n = len(x_sorted)
    p = (np.arange(1, n + 1) - 0.5) / n
    m = x_sorted > 0
    xs, ws = x_sorted[m], w_sorted[m]
    q = ln_L(p[m], delta) / np.log(10.0)
    y = np.log10(xs)
    ww = ws / ws.sum()
    qb, yb = (ww * q).sum(), (ww * y).sum()
    b = ((ww * q * y).sum() - qb * yb) / ((ww * q * q).sum() - qb * qb)
    a = yb - b * qb
    err = np.sum(ws * (xs - 10 ** (a + b * q)) ** 2)
    return 10**a, 1 / b, err


failures = []

# ---------------------------------------------------------------- part A
# 5000 exact quantiles of EW(alpha=2, beta=50, delta=0.01) at p_i = (i-0.5)/n:
# the weighted quantile error is exactly 0 at delta = 0.01, alpha = 2, beta = 50.
n = 5000
p = (np.arange(1, n + 1) - 0.5) / n
x_exact = 2.0 * np.exp(ln_L(p, 0.01) / 50.0)
assert np.all(np.isfinite(x_exact)) and np.all(x_exact > 0)
rng = np.random.default_rng(0)
x_a = rng.permutation(x_exact)

for wspec in (None, "linear", "quadratic", "cubic"):
    d = EW(f_delta=0.01)
    d.fit(x_a, method="wlsq", weights=wspec)
    print(f"A fixed delta=0.01 weights={wspec}: alpha={d.alpha} beta={d.beta}")
    if not (np.isclose(d.alpha, 2.0, rtol=1e-6) and np.isclose(d.beta, 50.0, rtol=1e-6)):
        failures.append(f"A: f_delta=0.01, weights={wspec}: alpha={d.alpha}, beta={d.beta}, expected 2, 50")

# free delta on the same data: the criterion has the value 0 at delta = 0.01
d = EW()
d.fit(x_a, method="lsq")
xs = np.sort(x_a)
e_hat = reference(xs, np.ones(n), float(d.delta))[2]
e_lo = reference(xs, np.ones(n), 0.95 * float(d.delta))[2]
e_hi = reference(xs, np.ones(n), 1.05 * float(d.delta))[2]
print(f"A free delta: delta={d.delta} alpha={d.alpha} beta={d.beta}; "
      f"error(0.95 d)={e_lo:.4g} error(d)={e_hat:.4g} error(1.05 d)={e_hi:.4g}")
if not (e_hat <= e_lo + 1e-3 * e_hat + 1e-12 and e_hat <= e_hi + 1e-3 * e_hat + 1e-12):
    failures.append(f"A: free delta={d.delta} is not a local minimiser: "
                    f"error {e_lo:.4g} / {e_hat:.4g} / {e_hi:.4g} at 0.95 d / d / 1.05 d")

# ---------------------------------------------------------------- part B
# ordinary random samples that drive the free delta into the barrier
cases = [
    ("uniform(0,1), n=5000", np.random.default_rng(1).uniform(0, 1, 5000), "linear"),
    ("uniform(0,1), n=100", np.random.default_rng(0).uniform(0, 1, 100), None),
    ("half-normal, n=30", np.abs(np.random.default_rng(17).normal(0, 1, 30)), "quadratic"),
    ("exponential, n=30", np.random.default_rng(5).exponential(1.0, 30), "linear"),
]
for name, x, wspec in cases:
    xs = np.sort(x)
    w = {None: np.ones(len(xs)), "linear": xs, "quadratic": xs**2}[wspec]
    d = EW()
    d.fit(x, method="wlsq", weights=wspec)
    dl = float(d.delta)
    e_hat = reference(xs, w, dl)[2]
    e_lo = reference(xs, w, 0.8 * dl)[2]
    e_hi = reference(xs, w, 1.25 * dl)[2]
    barrier = np.log(0.5 / len(xs)) / np.log(5e-324)
    print(f"B {name}, weights={wspec}: delta={dl:.6g} (underflow barrier {barrier:.6g}) "
          f"alpha={d.alpha:.5g} beta={d.beta:.5g}; error at 0.8 d / d / 1.25 d = "
          f"{e_lo:.6g} / {e_hat:.6g} / {e_hi:.6g}")
    if not (np.isfinite(e_hat) and e_hat <= e_lo * (1 + 1e-3) and e_hat <= e_hi * (1 + 1e-3)):
        failures.append(f"B: {name}, weights={wspec}: delta={dl} is not a local minimiser "
                        f"({e_lo:.6g} / {e_hat:.6g} / {e_hi:.6g})")

if failures:
    print("\nDEFECT CONFIRMED:")
    for f in failures:
        print("  -", f)
    sys.exit(1)
print("OK")
