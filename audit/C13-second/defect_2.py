"""C13 defect 2: keyword weights are computed in the integer dtype of the data.

weights='cubic' (x**3 / sum(x**3)) on int64 data (numpy's DEFAULT integer dtype,
not a 'small' one) wraps around silently:
  * values >= 1e5 with n = 5000: sum(x**3) wraps to a NEGATIVE number, all
    weights become negative; _estimate_alpha_beta renormalises them but
    _wlsq_error does not, so the free delta MAXIMISES the quantile error;
  * values >= 2.1e6: x**3 itself wraps, individual weights are garbage, also
    the fixed-delta regression is wrong.
The same sample as float64 gives the correct weighted quantile regression.
Exit status 0 only if integer and float data give the same fit.
"""
import sys
import warnings
import numpy as np
import scipy.stats as sts
from virocon import ExponentiatedWeibullDistribution as EW

warnings.simplefilter("ignore")


def fit(x, weights, **kw):
    d = EW(**kw)
    d.fit(x, method="wlsq", weights=weights)
    return np.array([d.alpha, d.beta, d.delta], dtype=float)


failures = []

# (a) free delta, values ~1e5 (e.g. a load in N, a pressure in Pa), n = 5000
rng = np.random.default_rng(0)
x = np.round(sts.exponweib.rvs(2, 1.5, scale=1e5, size=5000, random_state=rng)).astype(np.int64)
x = x[x > 0]
print("a) n =", len(x), "max =", x.max(), " max**3 fits int64:", float(x.max()) ** 3 < 2**63,
      " sum(x**3) as int64 =", np.sum(x**3))
r_int = fit(x, "cubic")
r_flt = fit(x.astype(float), "cubic")
print("   int64  data: alpha, beta, delta =", r_int)
print("   float64 data: alpha, beta, delta =", r_flt)
if not np.allclose(r_int, r_flt, rtol=1e-6):
    failures.append(f"a) free delta, int64 data ~1e5, weights='cubic': {r_int} instead of {r_flt}")

# (b) fixed delta, values ~3e6, n = 1000
rng = np.random.default_rng(3)
x = np.round(sts.exponweib.rvs(2, 1.5, scale=3e6, size=1000, random_state=rng)).astype(np.int64)
x = x[x > 0]
r_int = fit(x, "cubic", f_delta=2)
r_flt = fit(x.astype(float), "cubic", f_delta=2)
print("b) n =", len(x), "max =", x.max(), " negative 'weights':", int(np.sum(x**3 < 0)))
print("   int64  data: alpha, beta, delta =", r_int)
print("   float64 data: alpha, beta, delta =", r_flt)
if not np.allclose(r_int, r_flt, rtol=1e-6):
    failures.append(f"b) f_delta=2, int64 data ~3e6, weights='cubic': {r_int} instead of {r_flt}")

if failures:
    print("\nDEFECT CONFIRMED:")
    for f in failures:
        print("  -", f)
    sys.exit(1)
print("OK")
