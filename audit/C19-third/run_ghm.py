import sys, os, tempfile, warnings, copy
sys.path.insert(0, os.path.dirname(__file__))
warnings.simplefilter("ignore")
import matplotlib
matplotlib.use("Agg")
import matplotlib.pyplot as plt
import numpy as np
import pandas as pd
import virocon
from virocon import *
from harness import snap, diff, same

print(virocon.__file__)
D = "/tmp/w8_C19/datasets/"
dataA = read_ec_benchmark_dataset(D + "ec-benchmark_dataset_A_1year.txt")
dataD = read_ec_benchmark_dataset(D + "ec-benchmark_dataset_D_1year.txt")
dataC = read_ec_benchmark_dataset(D + "ec-benchmark_dataset_C_1year.txt")

problems = []


def check(name, model, fn, args=(), kwargs=None, deterministic=True, extra_state=()):
    kwargs = kwargs or {}
    s_model = snap(model)
    s_args = snap((args, kwargs, extra_state))
    try:
        r1 = fn(*args, **kwargs)
    except Exception as e:
        print(f"   [{name}] raised {type(e).__name__}: {e}")
        r1 = None
    d = diff(s_model, snap(model))
    if d:
        problems.append((name, "MODEL CHANGED", d[:5]))
        print("!!", name, "MODEL CHANGED", d[:5])
    d = diff(s_args, snap((args, kwargs, extra_state)))
    if d:
        problems.append((name, "ARGS CHANGED", d[:5]))
        print("!!", name, "ARGS CHANGED", d[:5])
    if deterministic and r1 is not None:
        r2 = fn(*args, **kwargs)
        rr1 = getattr(r1, "coordinates", r1)
        rr2 = getattr(r2, "coordinates", r2)
        try:
            ok = same(rr1, rr2)
        except Exception as e:
            ok = None
        if ok is False:
            problems.append((name, "NOT REPEATABLE"))
            print("!!", name, "NOT REPEATABLE")
    plt.close("all")
    return r1


def run_ghm(tag, model, data, semantics, three_d=False):
    print("==", tag)
    n_dim = model.n_dim
    data_arr = np.asarray(data, dtype=float)
    rng = np.random.default_rng(0)
    pts = data_arr[rng.choice(len(data_arr), 7)]
    pts_int = np.round(pts).astype(int) + 1
    check(tag + ".pdf", model, model.pdf, (pts,))
    check(tag + ".pdf(int)", model, model.pdf, (pts_int,))
    check(tag + ".pdf(list)", model, model.pdf, (pts.tolist(),))
    check(tag + ".pdf(1pt)", model, model.pdf, (pts[0],))
    if not three_d:
        check(tag + ".cdf", model, model.cdf, (pts[:2],))
    for dim in range(n_dim):
        check(tag + f".marginal_pdf{dim}", model, model.marginal_pdf, (pts[:2, dim], dim)) if not (three_d and dim == 2) else None
        if not three_d:
            check(tag + f".marginal_cdf{dim}", model, model.marginal_cdf, (pts[:2, dim], dim))
        p = np.array([0.1, 0.5, 0.99])
        check(tag + f".marginal_icdf{dim}", model, model.marginal_icdf, (p, dim), {"random_state": 0})
        check(tag + f".marginal_icdf{dim}list", model, model.marginal_icdf, ([0.1, 0.5], dim), {"random_state": 3})
        check(tag + f".conditional_cdf{dim}", model, model.conditional_cdf, (pts[:, dim], dim, pts), {"random_state": 0})
        check(tag + f".conditional_icdf{dim}", model, model.conditional_icdf, (np.linspace(0.1, 0.9, 7), dim, pts), {"random_state": 0})
        given = np.delete(pts[0], dim)
        if not three_d:
            check(tag + f".conditional_sample{dim}", model, model.conditional_sample, (1000, dim, given), {"random_state": 0})
    check(tag + ".draw_sample", model, model.draw_sample, (1000,), {"random_state": 0})
    check(tag + ".draw_sample7", model, model.draw_sample, (1000,), {"random_state": 7})
    g = np.random.default_rng(5)
    check(tag + ".draw_sample(gen)", model, model.draw_sample, (10,), {"random_state": g}, deterministic=False)
    # distributions directly
    for i, dist in enumerate(model.distributions):
        x = pts[:, i].copy()
        if model.conditional_on[i] is None:
            for m in ("pdf", "cdf"):
                check(tag + f".dist{i}.{m}", model, getattr(dist, m), (x,))
                check(tag + f".dist{i}.{m}(int)", model, getattr(dist, m), (pts_int[:, i],))
            check(tag + f".dist{i}.icdf", model, dist.icdf, (np.linspace(0.1, 0.9, 7),))
            check(tag + f".dist{i}.draw", model, dist.draw_sample, (10,), {"random_state": 1})
        else:
            giv = pts[:, model.conditional_on[i]].copy()
            for m in ("pdf", "cdf"):
                check(tag + f".dist{i}.{m}", model, getattr(dist, m), (x, giv))
                check(tag + f".dist{i}.{m}(int)", model, getattr(dist, m), (pts_int[:, i], pts_int[:, model.conditional_on[i]]))
                check(tag + f".dist{i}.{m}(scalar)", model, getattr(dist, m), (x, 2))
            check(tag + f".dist{i}.icdf", model, dist.icdf, (np.linspace(0.1, 0.9, 7), giv))
            check(tag + f".dist{i}.draw", model, dist.draw_sample, (1, giv), {"random_state": 1})
            check(tag + f".dist{i}.draw(scalar given)", model, dist.draw_sample, (5, 2.0), {"random_state": 1})
            for pn, df in dist.conditional_parameters.items():
                check(tag + f".dist{i}.dep[{pn}]", model, df, (giv,))
                check(tag + f".dist{i}.dep[{pn}]int", model, df, (np.array([1, 2, 3]),))
    alpha = 1e-3
    c = check(tag + ".IFORM", model, IFORMContour, (model, alpha), {"n_points": 30})
    check(tag + ".ISORM", model, ISORMContour, (model, alpha), {"n_points": 30})
    upper = [float(np.max(data_arr[:, d]) * 2) for d in range(n_dim)]
    limits = [(0, u) for u in upper]
    deltas = [u / (40 if three_d else 150) for u in upper]
    h = check(tag + ".HDC", model, HighestDensityContour, (model, 0.05 if three_d else alpha, limits, deltas))
    check(tag + ".HDC(delta scalar)", model, HighestDensityContour, (model, 0.05, limits, np.array(deltas)))
    if not three_d:
        sample = model.draw_sample(20000, random_state=1)
        sample_df = pd.DataFrame(sample)
        ds = check(tag + ".DS", model, DirectSamplingContour, (model, alpha), {"sample": sample})
        check(tag + ".DS(df)", model, DirectSamplingContour, (model, alpha), {"sample": sample_df})
        check(tag + ".And", model, AndContour, (model, 0.01), {"sample": sample}, deterministic=False)
        check(tag + ".Or", model, OrContour, (model, 0.01), {"sample": sample}, deterministic=False)
        for cont, cn in ((c, "iform"), (h, "hdc"), (ds, "ds")):
            if cont is None:
                continue
            check(tag + f".design[{cn}]", model, calculate_design_conditions, (cont,), extra_state=(cont,))
            steps = [1.0, 2.0, 3.0]
            check(tag + f".design[{cn}]steps", model, calculate_design_conditions, (cont,), {"steps": steps, "swap_axis": True}, extra_state=(cont,))
            check(tag + f".plot2D[{cn}]", model, plot_2D_contour, (cont,), {"sample": data, "design_conditions": True, "semantics": semantics}, deterministic=False, extra_state=(cont,))
            dc = calculate_design_conditions(cont)
            check(tag + f".plot2D[{cn}]dc", model, plot_2D_contour, (cont,), {"sample": data_arr, "design_conditions": dc, "swap_axis": True}, deterministic=False, extra_state=(cont,))
            with tempfile.TemporaryDirectory() as td:
                check(tag + f".save[{cn}]", model, save_contour_coordinates, (cont, os.path.join(td, "c")), {"semantics": semantics}, deterministic=False, extra_state=(cont,))
        check(tag + ".isodensity", model, plot_2D_isodensity, (model, data), {"semantics": semantics, "n_grid_steps": 40}, deterministic=False)
        check(tag + ".isodensity2", model, plot_2D_isodensity, (model, data_arr), {"limits": [(0, 5), (0, 10)], "levels": [0.001, 0.01], "swap_axis": True, "n_grid_steps": 40}, deterministic=False)
    check(tag + ".plot_dep", model, plot_dependence_functions, (model,), {"semantics": semantics}, deterministic=False)
    check(tag + ".plot_hist", model, plot_histograms_of_interval_distributions, (model, data), {"semantics": semantics}, deterministic=False)
    check(tag + ".plot_mq", model, plot_marginal_quantiles, (model, data), {"semantics": semantics}, deterministic=False)
    check(tag + ".repr", model, repr, (model,))


which = sys.argv[1:] or ["1", "2", "3", "4", "7"]
if "1" in which:
    dd, fd, sem = get_DNVGL_Hs_Tz()
    m = GlobalHierarchicalModel(dd); m.fit(dataA, fd)
    run_ghm("DNVGL_Hs_Tz", m, dataA, sem)
if "2" in which:
    cols = dataD.columns.tolist(); d2 = dataD[cols[-1:] + cols[:1]]
    dd, fd, sem = get_DNVGL_Hs_U()
    m = GlobalHierarchicalModel(dd); m.fit(d2, fd)
    run_ghm("DNVGL_Hs_U", m, d2, sem)
if "3" in which:
    dd, fd, sem = get_OMAE2020_Hs_Tz()
    m = GlobalHierarchicalModel(dd); m.fit(dataA, fd)
    run_ghm("OMAE_Hs_Tz", m, dataA, sem)
if "4" in which:
    dd, fd, sem = get_OMAE2020_V_Hs()
    m = GlobalHierarchicalModel(dd); m.fit(dataD, fd)
    run_ghm("OMAE_V_Hs", m, dataD, sem)
if "7" in which:
    data3 = pd.read_csv(D + "coastDat2_oneyear.csv", sep=";", skipinitialspace=True)
    data3.index = pd.to_datetime(data3.pop(data3.columns[0]), format="%Y-%m-%d-%H")

    def _power3(x, a, b, c):
        return a + b * x**c

    def _exp3(x, a, b, c):
        return a + b * np.exp(c * x)

    def _alpha3(x, a, b, c, d_of_x):
        return (a + b * x**c) / 2.0445 ** (1 / d_of_x(x))

    def _logistics4(x, a=1, b=1, c=-1, d=1):
        return a + b / (1 + np.exp(c * (x - d)))

    bounds = [(0, None), (0, None), (None, None)]
    logistics_bounds = [(0, None), (0, None), (None, 0), (0, None)]
    power3 = DependenceFunction(_power3, bounds, latex="$a + b * x^c$")
    exp3 = DependenceFunction(_exp3, bounds, latex="$a + b * \\exp(c * x)$")
    logistics4 = DependenceFunction(_logistics4, logistics_bounds, weights=lambda x, y: y)
    alpha3 = DependenceFunction(_alpha3, bounds, d_of_x=logistics4, weights=lambda x, y: y)
    dd = [
        {"distribution": ExponentiatedWeibullDistribution(), "intervals": WidthOfIntervalSlicer(2, min_n_points=50)},
        {"distribution": ExponentiatedWeibullDistribution(f_delta=5), "intervals": WidthOfIntervalSlicer(0.5), "conditional_on": 0, "parameters": {"alpha": alpha3, "beta": logistics4}},
        {"distribution": LogNormalDistribution(), "conditional_on": 1, "parameters": {"mu": power3, "sigma": exp3}},
    ]
    m = GlobalHierarchicalModel(dd); m.fit(data3)
    sem = {"names": ["Wind speed", "Significant wave height", "Zero-up-crossing period"], "symbols": ["V", "H_s", "T_z"], "units": ["m/s", "m", "s"]}
    run_ghm("3D", m, data3, sem, three_d=True)

print("PROBLEMS:", len(problems))
for p in problems:
    print(p)
