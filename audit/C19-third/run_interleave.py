import sys, os, warnings, random
sys.path.insert(0, os.path.dirname(__file__))
warnings.simplefilter("ignore")
import matplotlib
matplotlib.use("Agg")
import matplotlib.pyplot as plt
import numpy as np
import pandas as pd
from virocon import *
from harness import snap, diff, same

D = "/tmp/w8_C19/datasets/"
dataA = read_ec_benchmark_dataset(D + "ec-benchmark_dataset_A_1year.txt")
dataB = read_ec_benchmark_dataset(D + "ec-benchmark_dataset_B_1year.txt")
dataC = read_ec_benchmark_dataset(D + "ec-benchmark_dataset_C_1year.txt")
dataD = read_ec_benchmark_dataset(D + "ec-benchmark_dataset_D_1year.txt")

dd, fd, sem1 = get_DNVGL_Hs_Tz(); m1 = GlobalHierarchicalModel(dd); m1.fit(dataA, fd)
dd, fd, sem2 = get_OMAE2020_V_Hs(); m2 = GlobalHierarchicalModel(dd); m2.fit(dataD, fd)
dd, fd, sem3, tr = get_Windmeier_EW_Hs_S(); m3 = GlobalHierarchicalModel(dd)
tm = TransformedModel(m3, tr["transform"], tr["inverse"], tr["jacobian"], precision_factor=0.1, random_state=42)
tm.fit(np.asarray(dataC), fd)

ptsA = np.asarray(dataA)[::1500][:5].copy()
ptsD = np.asarray(dataD)[::1500][:5].copy()
ptsC = np.asarray(dataC)[::1500][:5].copy()
sampleA = m1.draw_sample(5000, random_state=11)
sampleD = m2.draw_sample(5000, random_state=12)
ptsA0, ptsD0, ptsC0, sA0, sD0 = ptsA.copy(), ptsD.copy(), ptsC.copy(), sampleA.copy(), sampleD.copy()

ops = {
    "m1.pdf": lambda: m1.pdf(ptsA),
    "m1.cdf": lambda: m1.cdf(ptsA[:1]),
    "m1.mpdf1": lambda: m1.marginal_pdf(ptsA[:2, 1], 1),
    "m1.micdf1": lambda: m1.marginal_icdf([0.5, 0.99], 1, random_state=0),
    "m1.draw": lambda: m1.draw_sample(50, random_state=0),
    "m1.csample": lambda: m1.conditional_sample(50, 1, [2.0], random_state=4),
    "m1.iform": lambda: IFORMContour(m1, 1e-3, 20).coordinates,
    "m1.isorm": lambda: ISORMContour(m1, 1e-3, 20).coordinates,
    "m1.hdc": lambda: HighestDensityContour(m1, 1e-2, [(0, 8), (0, 20)], 0.1).coordinates,
    "m1.ds": lambda: DirectSamplingContour(m1, 1e-2, sample=sampleA).coordinates,
    "m1.design": lambda: calculate_design_conditions(IFORMContour(m1, 1e-3, 20), steps=5),
    "m2.pdf": lambda: m2.pdf(ptsD),
    "m2.draw": lambda: m2.draw_sample(50, random_state=0),
    "m2.iform": lambda: IFORMContour(m2, 1e-3, 20).coordinates,
    "m2.hdc": lambda: HighestDensityContour(m2, 1e-2, [(0, 40), (0, 15)], [0.4, 0.15]).coordinates,
    "m2.ds": lambda: DirectSamplingContour(m2, 1e-2, sample=sampleD).coordinates,
    "m2.ccdf": lambda: m2.conditional_cdf(ptsD[:, 1], 1, ptsD),
    "m2.cicdf": lambda: m2.conditional_icdf(np.linspace(0.1, 0.9, 5), 1, ptsD),
    "tm.pdf": lambda: tm.pdf(ptsC),
    "tm.ecdf": lambda: tm.empirical_cdf(ptsC),
    "tm.draw": lambda: tm.draw_sample(50, random_state=0),
    "tm.iform": lambda: IFORMContour(tm, 1e-2, 8).coordinates,
    "tm.micdf": lambda: tm.marginal_icdf([0.5], 1, random_state=3),
    "tm.cicdf": lambda: tm.conditional_icdf([0.5], 1, ptsC[:1, :1], random_state=3),
}
base = {k: f() for k, f in ops.items()}
state0 = snap((m1, m2, tm))


def fit_other():
    g, d = random.choice([(get_DNVGL_Hs_Tz, dataB), (get_OMAE2020_Hs_Tz, dataB), (get_OMAE2020_V_Hs, dataD.iloc[:4000]), (get_DNVGL_Hs_Tz, dataA)])
    dd, fd, _ = g()
    GlobalHierarchicalModel(dd).fit(d, fd)


def fit_other_tm():
    dd, fd, _, tr = random.choice([get_Windmeier_EW_Hs_S, get_Nonzero_EW_Hs_S])()
    t = TransformedModel(GlobalHierarchicalModel(dd), tr["transform"], tr["inverse"], tr["jacobian"], random_state=42)
    t.fit(np.asarray(dataC)[:6000], fd)


noise = {
    "fit_other": fit_other,
    "fit_other_tm": fit_other_tm,
    "unseeded_draw": lambda: (m1.draw_sample(10), m2.draw_sample(10), tm.draw_sample(10)),
    "np.seed": lambda: np.random.seed(random.randint(0, 100)),
    "plot": lambda: (plot_2D_contour(IFORMContour(m1, 1e-3, 20), sample=dataA, design_conditions=True), plot_dependence_functions(m2), plot_2D_isodensity(m1, dataA, n_grid_steps=20), plt.close("all")),
    "and_or": lambda: (AndContour(m1, 0.05, sample=sampleA), OrContour(m2, 0.05, sample=sampleD)),
}

random.seed(int(sys.argv[1]) if len(sys.argv) > 1 else 0)
bad = 0
n_seq = int(sys.argv[2]) if len(sys.argv) > 2 else 25
for s in range(n_seq):
    seq = [random.choice(list(ops) + list(noise) * 2) for _ in range(6)]
    for name in seq:
        if name in noise:
            noise[name]()
        else:
            r = ops[name]()
            if not same(r, base[name]):
                bad += 1
                print("!! result differs from baseline", name, "in", seq)
        d = diff(state0, snap((m1, m2, tm)))
        if d:
            bad += 1
            print("!! state changed after", name, "in", seq, d[:3])
            state0 = snap((m1, m2, tm))
    for a, b in ((ptsA, ptsA0), (ptsD, ptsD0), (ptsC, ptsC0), (sampleA, sA0), (sampleD, sD0)):
        if not np.array_equal(a, b):
            bad += 1
            print("!! caller array changed in", seq)
print("bad:", bad)
