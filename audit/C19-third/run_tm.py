import sys, os, tempfile, warnings
sys.path.insert(0, os.path.dirname(__file__))
warnings.simplefilter("ignore")
import matplotlib
matplotlib.use("Agg")
import matplotlib.pyplot as plt
import numpy as np
import pandas as pd
import virocon
from virocon import *
from harness import snap, diff, same
from run_ghm import check, problems, dataC  # noqa (run_ghm with argv 'none' runs nothing)

hs = dataC["significant wave height (m)"]
tz = dataC["zero-up-crossing period (s)"]


def run_tm(tag, getter, seed):
    print("==", tag)
    dd, fd, sem, tr = getter()
    model = GlobalHierarchicalModel(dd)
    tm = TransformedModel(model, tr["transform"], tr["inverse"], tr["jacobian"], precision_factor=0.1, random_state=seed)
    data = np.c_[hs.values, tz.values]
    check(tag + ".fit", tm, lambda: tm.fit(data, fd), deterministic=False, extra_state=(data, fd))
    # prime memo
    tm.empirical_cdf([[2, 6]])
    rng = np.random.default_rng(0)
    pts = data[rng.choice(len(data), 6)]
    check(tag + ".pdf", tm, tm.pdf, (pts,))
    check(tag + ".pdf(list)", tm, tm.pdf, (pts.tolist(),))
    check(tag + ".pdf(int)", tm, tm.pdf, (np.array([[2, 6], [3, 7]]),))
    check(tag + ".cdf", tm, tm.cdf, (pts[:1],))
    check(tag + ".ecdf", tm, tm.empirical_cdf, (pts,))
    check(tag + ".ecdf(sample)", tm, tm.empirical_cdf, (pts, data))
    check(tag + ".draw", tm, tm.draw_sample, (1000,), {"random_state": 0})
    for dim in (0, 1):
        check(tag + f".micdf{dim}", tm, tm.marginal_icdf, (np.array([0.1, 0.9]), dim), {"random_state": 0})
        check(tag + f".ccdf{dim}", tm, tm.conditional_cdf, (pts[:3, dim], dim, np.delete(pts[:3], dim, axis=1)), {"random_state": 0})
        check(tag + f".cicdf{dim}", tm, tm.conditional_icdf, (np.array([0.2, 0.5, 0.8]), dim, np.delete(pts[:3], dim, axis=1)), {"random_state": 0})
        check(tag + f".csample{dim}", tm, tm.conditional_sample, (500, dim, np.delete(pts[0], dim)), {"random_state": 0})
    c = check(tag + ".IFORM", tm, IFORMContour, (tm, 1e-2), {"n_points": 12})
    sample = tm.draw_sample(20000, random_state=1)
    ds = check(tag + ".DS", tm, DirectSamplingContour, (tm, 1e-2), {"sample": sample})
    check(tag + ".And", tm, AndContour, (tm, 1e-2), {"sample": sample}, deterministic=False)
    check(tag + ".Or", tm, OrContour, (tm, 1e-2), {"sample": sample}, deterministic=False)
    for cont, cn in ((c, "iform"), (ds, "ds")):
        check(tag + f".design[{cn}]", tm, calculate_design_conditions, (cont,), extra_state=(cont,))
        check(tag + f".plot2D[{cn}]", tm, plot_2D_contour, (cont,), {"sample": data, "design_conditions": True, "semantics": sem}, deterministic=False, extra_state=(cont,))
        with tempfile.TemporaryDirectory() as td:
            check(tag + f".save[{cn}]", tm, save_contour_coordinates, (cont, os.path.join(td, "c.csv")), {"semantics": sem}, deterministic=False, extra_state=(cont,))
    check(tag + ".isodensity", tm, plot_2D_isodensity, (tm, data), {"semantics": sem, "n_grid_steps": 30, "limits": [(0.1, 8), (1, 15)]}, deterministic=False)
    check(tag + ".repr", tm, repr, (tm,))
    return tm


run_tm("Windmeier", get_Windmeier_EW_Hs_S, 42)
run_tm("Nonzero", get_Nonzero_EW_Hs_S, 0)
print("PROBLEMS:", len(problems))
for p in problems:
    print(p)
