"""Common helpers: deep snapshot of object state, comparison."""
import functools
import types
import numpy as np
import pandas as pd


def snap(obj, _seen=None, depth=0):
    """Deep, comparable snapshot of mutable state reachable from obj."""
    if _seen is None:
        _seen = {}
    if depth > 12:
        return ("deep",)
    if obj is None or isinstance(obj, (bool, int, float, str, complex, bytes)):
        return ("v", type(obj).__name__, repr(obj))
    if isinstance(obj, np.generic):
        return ("npv", obj.dtype.str, repr(obj.item()))
    oid = id(obj)
    if oid in _seen:
        return ("ref", _seen[oid])
    _seen[oid] = len(_seen)
    if isinstance(obj, np.ndarray):
        return ("arr", obj.dtype.str, obj.shape, obj.tobytes() if obj.dtype != object else repr(obj.tolist()))
    if isinstance(obj, (pd.DataFrame, pd.Series)):
        return ("pd", snap(obj.values, _seen, depth + 1))
    if isinstance(obj, dict):
        return ("dict", tuple((repr(k), snap(v, _seen, depth + 1)) for k, v in obj.items()))
    if isinstance(obj, (list, tuple)):
        return (type(obj).__name__, tuple(snap(v, _seen, depth + 1) for v in obj))
    if isinstance(obj, (set, frozenset)):
        return ("set", len(obj))
    if isinstance(obj, functools.partial):
        return ("partial", snap(obj.func, _seen, depth + 1), snap(obj.args, _seen, depth + 1), snap(obj.keywords, _seen, depth + 1))
    if isinstance(obj, (types.FunctionType, types.BuiltinFunctionType, types.MethodType, type, types.ModuleType)):
        return ("callable", getattr(obj, "__qualname__", repr(obj)))
    if isinstance(obj, np.random.Generator):
        return ("gen", repr(obj.bit_generator.state))
    mod = type(obj).__module__ or ""
    if mod.startswith("scipy") or mod.startswith("matplotlib"):
        return ("ext", type(obj).__name__)
    if hasattr(obj, "__dict__"):
        return ("obj", type(obj).__name__, tuple((k, snap(v, _seen, depth + 1)) for k, v in sorted(vars(obj).items())))
    return ("other", repr(obj))


def diff(a, b, path=""):
    """Return list of paths where snapshots differ."""
    out = []
    if type(a) != type(b) or (isinstance(a, tuple) and len(a) != len(b)):
        return [path + f": {str(a)[:120]} != {str(b)[:120]}"]
    if isinstance(a, tuple):
        for i, (x, y) in enumerate(zip(a, b)):
            label = ""
            if isinstance(x, tuple) and len(x) == 2 and isinstance(x[0], str):
                label = x[0]
            out += diff(x, y, path + f"/{label or i}")
        return out
    if a != b:
        return [path + f": {str(a)[:120]} != {str(b)[:120]}"]
    return out


def same(r1, r2):
    """Exact equality of results (nan == nan)."""
    if isinstance(r1, (str, dict)):
        return r1 == r2
    if isinstance(r1, (list, tuple)):
        return len(r1) == len(r2) and all(same(a, b) for a, b in zip(r1, r2))
    a1 = np.asarray(r1)
    a2 = np.asarray(r2)
    if a1.shape != a2.shape:
        return False
    if a1.dtype == object:
        return all(same(a, b) for a, b in zip(a1.ravel(), a2.ravel()))
    if a1.dtype.kind not in "fc":
        return np.array_equal(a1, a2)
    return np.array_equal(a1, a2, equal_nan=True)
