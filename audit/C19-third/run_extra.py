import sys, os, warnings
sys.path.insert(0, os.path.dirname(__file__))
warnings.simplefilter("ignore")
import matplotlib; matplotlib.use("Agg")
import numpy as np, pandas as pd
from virocon import *
sys.argv = [sys.argv[0], "none"]
from run_ghm import check, problems
rng = np.random.default_rng(3)
n = 6000
x0 = rng.weibull(1.5, n) * 2 + 0.05
x1 = rng.lognormal(0.2 + 0.3 * np.sqrt(x0), 0.3)
x2 = rng.normal(1 + 0.5 * x0, 1.0)
data = np.c_[x0, x1, x2]
def lin(x, a=1.0, b=0.5): return a + b * x
def pos(x, a=0.5, b=0.1): return a + b * x
for slicer in (PointsPerIntervalSlicer(800), NumberOfIntervalsSlicer(6, min_n_points=30), WidthOfIntervalSlicer(1.0, reference="left", right_open=False, value_range=(0, None))):
    dd = [
        {"distribution": WeibullDistribution(), "intervals": slicer},
        {"distribution": LogNormalDistribution(), "conditional_on": 0, "parameters": {"mu": DependenceFunction(lin, bounds=[(None, None), (0, None)]), "sigma": DependenceFunction(pos, bounds=[(0.01, None), (0, None)], constraints={"type": "ineq", "fun": lambda c: c[0]})}},
        {"distribution": NormalDistribution(), "conditional_on": 0, "parameters": {"mu": DependenceFunction(lin), "sigma": DependenceFunction(pos, bounds=[(0.01, None), (0, None)])}},
    ]
    m = GlobalHierarchicalModel(dd); m.fit(data)
    tag = type(slicer).__name__
    pts = data[:5].copy()
    check(tag + ".pdf", m, m.pdf, (pts,))
    check(tag + ".mpdf2", m, m.marginal_pdf, (pts[:2, 2], 2))
    check(tag + ".micdf2", m, m.marginal_icdf, ([0.5, 0.9], -1), {"random_state": 0})
    check(tag + ".draw", m, m.draw_sample, (100,), {"random_state": 0})
    check(tag + ".iform", m, IFORMContour, (m, 1e-2, 15))
    check(tag + ".isorm", m, ISORMContour, (m, 1e-2, 15))
    check(tag + ".hdc", m, HighestDensityContour, (m, 0.1, [(0, 8), (0, 10), (-3, 9)], [0.2, 0.25, 0.3]))
    check(tag + ".hist", m, plot_histograms_of_interval_distributions, (m, data), deterministic=False)
    check(tag + ".dep", m, plot_dependence_functions, (m,), deterministic=False)
# unconditional 2-D model: everything deterministic incl. default HDC limits, And/Or, marginal quantiles
m = GlobalHierarchicalModel([{"distribution": WeibullDistribution(2, 1.5, 0)}, {"distribution": LogNormalDistribution(0.5, 0.3)}])
s = m.draw_sample(20000, random_state=2)
check("indep.hdc_default", m, HighestDensityContour, (m, 0.01))
check("indep.and", m, AndContour, (m, 0.01), {"sample": s})
check("indep.or", m, OrContour, (m, 0.01), {"sample": s})
check("indep.mq", m, plot_marginal_quantiles, (m, s), deterministic=False)
print("PROBLEMS", problems)
