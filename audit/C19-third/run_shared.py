import sys, os, warnings, types, functools
sys.path.insert(0, os.path.dirname(__file__))
warnings.simplefilter("ignore")
import numpy as np
import scipy.stats as sts
import virocon
from virocon import *
from virocon.distributions import ConditionalDistribution, LogNormalNormFitDistribution, ScipyDistribution
from harness import snap, diff, same

IMMUT = (type(None), bool, int, float, str, complex, bytes, np.generic)


def reach(obj, acc=None, path="root"):
    """ids of mutable objects reachable, incl. closures, defaults, partials."""
    if acc is None:
        acc = {}
    if isinstance(obj, IMMUT) or isinstance(obj, (type, types.ModuleType, types.BuiltinFunctionType)):
        return acc
    if id(obj) in acc:
        return acc
    if isinstance(obj, tuple):
        for i, v in enumerate(obj):
            reach(v, acc, path + f"[{i}]")
        return acc
    acc[id(obj)] = (path, type(obj).__name__)
    if isinstance(obj, dict):
        for k, v in obj.items():
            reach(v, acc, path + f"[{k!r}]")
    elif isinstance(obj, (list, set)):
        for i, v in enumerate(obj):
            reach(v, acc, path + f"[{i}]")
    elif isinstance(obj, functools.partial):
        reach(obj.func, acc, path + ".func"); reach(obj.args, acc, path + ".args"); reach(obj.keywords, acc, path + ".kw")
    elif isinstance(obj, types.FunctionType):
        if obj.__module__ and not obj.__module__.startswith("virocon"):
            del acc[id(obj)]
            return acc
        for i, c in enumerate(obj.__closure__ or ()):
            try:
                reach(c.cell_contents, acc, path + f".closure{i}")
            except ValueError:
                pass
        reach(obj.__defaults__, acc, path + ".defaults")
        reach(obj.__kwdefaults__, acc, path + ".kwdefaults")
        reach(obj.__dict__, acc, path + ".__dict__")
    elif isinstance(obj, np.ndarray):
        pass
    elif hasattr(obj, "__dict__"):
        mod = type(obj).__module__ or ""
        if mod.startswith("scipy"):
            return acc
        reach(vars(obj), acc, path + ".__dict__")
    return acc


getters = [get_DNVGL_Hs_Tz, get_DNVGL_Hs_U, get_OMAE2020_Hs_Tz, get_OMAE2020_V_Hs, get_Windmeier_EW_Hs_S, get_Nonzero_EW_Hs_S]
bad = 0
results = {}
for g in getters:
    results[g.__name__] = [g() for _ in range(3)]
allr = [(n, i, r) for n, rs in results.items() for i, r in enumerate(rs)]
for a in range(len(allr)):
    for b in range(a + 1, len(allr)):
        ra = reach(allr[a][2]); rb = reach(allr[b][2])
        common = set(ra) & set(rb)
        if common:
            bad += 1
            print("SHARED", allr[a][:2], allr[b][:2], [(ra[c], rb[c]) for c in list(common)[:5]])
# also models built from them
ma = GlobalHierarchicalModel(get_OMAE2020_V_Hs()[0]); mb = GlobalHierarchicalModel(get_OMAE2020_V_Hs()[0])
common = set(reach(ma)) & set(reach(mb))
print("models common:", common)
print("shared pairs:", bad)

# ---- fitting one never changes another
D = "/tmp/w8_C19/datasets/"
dataA = read_ec_benchmark_dataset(D + "ec-benchmark_dataset_A_1year.txt")
dataB = read_ec_benchmark_dataset(D + "ec-benchmark_dataset_B_1year.txt")
dataD = read_ec_benchmark_dataset(D + "ec-benchmark_dataset_D_1year.txt")
for g, d1, d2 in ((get_DNVGL_Hs_Tz, dataA, dataB), (get_OMAE2020_Hs_Tz, dataA, dataB), (get_OMAE2020_V_Hs, dataD, dataD.iloc[:5000])):
    dd, fd, _ = g()
    m1 = GlobalHierarchicalModel(dd); m1.fit(d1, fd)
    s1 = snap((m1, dd, fd))
    x = np.asarray(d1)[:5]
    p1 = m1.pdf(x)
    dd2, fd2, _ = g()
    s_unfitted = snap((dd2, fd2))
    m2 = GlobalHierarchicalModel(dd2)
    c = IFORMContour(m1, 1e-3, n_points=20)
    m2.fit(d2, fd2)
    d = diff(s1, snap((m1, dd, fd)))
    print(g.__name__, "m1 changed by fitting m2:", d[:3], "pdf same:", same(p1, m1.pdf(x)), "contour same:", same(c.coordinates, IFORMContour(m1, 1e-3, n_points=20).coordinates))
    dd3, fd3, _ = g()
    print("   fresh description equals an earlier fresh one:", diff(s_unfitted, snap((dd3, fd3)))[:3])

# ---- template untouched by ConditionalDistribution.fit
def lin(x, a=1.0, b=0.5):
    return a + b * x


class MyNorm(ScipyDistribution):
    scipy_dist_name = "norm"


class MyGamma(ScipyDistribution):
    scipy_dist = sts.gamma


rng = np.random.default_rng(1)
intervals = [np.abs(rng.normal(3 + i, 1, 200)) + 0.1 for i in range(4)]
cv = [1.0, 2.0, 3.0, 4.0]
bnd = [(0.5 * i, 0.5 * i + 1) for i in range(4)]
cases = [
    (WeibullDistribution(f_gamma=0), ["alpha", "beta"], None),
    (WeibullDistribution(alpha=2, beta=3, gamma=0.01), ["alpha", "beta", "gamma"], None),
    (LogNormalDistribution(), ["mu", "sigma"], None),
    (LogNormalDistribution(f_sigma=0.3), ["mu"], None),
    (NormalDistribution(), ["mu", "sigma"], None),
    (LogNormalNormFitDistribution(), ["mu_norm", "sigma_norm"], None),
    (ExponentiatedWeibullDistribution(), ["alpha", "beta", "delta"], None),
    (ExponentiatedWeibullDistribution(f_delta=5), ["alpha", "beta"], "wlsq"),
    (ExponentiatedWeibullDistribution(), ["alpha", "beta", "delta"], "lsq"),
    (GeneralizedGammaDistribution(f_c=1), ["m", "lambda_"], None),
    (VonMisesDistribution(f_mu=0.5), ["kappa"], None),
    (MyNorm(), ["loc", "scale"], None),
    (MyGamma(f_loc=0), ["a", "scale"], None),
]
for tmpl, pars, method in cases:
    cd = ConditionalDistribution(tmpl, {p: DependenceFunction(lin) for p in pars})
    s0 = snap(tmpl); r0 = repr(tmpl)
    data_before = snap(intervals)
    try:
        if isinstance(tmpl, VonMisesDistribution):
            iv = [np.mod(x, 2) for x in intervals]
        else:
            iv = intervals
        cd.fit(iv, cv, bnd, method=method, weights="quadratic" if method == "wlsq" else None)
    except Exception as e:
        print("   fit raised", type(tmpl).__name__, type(e).__name__, e)
    d = diff(s0, snap(tmpl))
    print(type(tmpl).__name__, pars, method, "template changed:", d[:3], "| same object kept:", cd.distribution is tmpl, "| data changed:", diff(data_before, snap(intervals))[:1])
    # refit
    try:
        cd.fit(iv, cv, bnd, method=method)
    except Exception as e:
        pass
    d = diff(s0, snap(tmpl))
    if d:
        print("   after refit changed:", d[:3])
