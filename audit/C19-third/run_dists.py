import sys, os, warnings, itertools
sys.path.insert(0, os.path.dirname(__file__))
warnings.simplefilter("ignore")
import numpy as np
import pandas as pd
import scipy.stats as sts
from virocon import *
from virocon.distributions import ConditionalDistribution, LogNormalNormFitDistribution, ScipyDistribution
from harness import snap, diff, same


class MyNorm(ScipyDistribution):
    scipy_dist_name = "norm"


class MyWeib(ScipyDistribution):
    scipy_dist = sts.weibull_min


dists = [
    WeibullDistribution(2, 1.5, 0.1), WeibullDistribution(f_alpha=2, f_beta=3, f_gamma=0),
    LogNormalDistribution(0.3, 0.4), LogNormalDistribution(f_mu=1),
    NormalDistribution(1, 2), LogNormalNormFitDistribution(3, 1),
    ExponentiatedWeibullDistribution(1.2, 1.1, 2.0), ExponentiatedWeibullDistribution(f_delta=5),
    GeneralizedGammaDistribution(1.2, 1.1, 2.0), VonMisesDistribution(2, 0.3), MyNorm(1, 2), MyWeib(1.5, 0, 2),
]
xs = [0.7, 2, [0.5, 1.5, 2.5], np.array([0.5, 1.5, 2.5]), np.array([0, 1, 2, 3]), np.array([-1.0, 0.0, 1.0]), pd.Series([0.5, 1.5]), np.array([[0.5, 1.0], [1.5, 2.0]]), np.array([], dtype=float)]
ps = [0.3, [0.1, 0.9], np.array([0.1, 0.5, 0.9]), np.array([0.0, 1.0]), 0, 1]
n_bad = 0


def chk(name, obj, fn, args, kwargs):
    global n_bad
    s0 = snap(obj); a0 = snap((args, kwargs))
    try:
        r1 = fn(*args, **kwargs)
    except Exception as e:
        r1 = e
    if diff(s0, snap(obj)):
        n_bad += 1; print("!! state changed", name, diff(s0, snap(obj))[:3])
    if diff(a0, snap((args, kwargs))):
        n_bad += 1; print("!! args changed", name, diff(a0, snap((args, kwargs)))[:3])
    if not isinstance(r1, Exception):
        r2 = fn(*args, **kwargs)
        if not same(r1, r2):
            n_bad += 1; print("!! not repeatable", name)
    return r1


for d in dists:
    nm = type(d).__name__
    pnames = list(d.parameters)
    for x in xs:
        for m in ("pdf", "cdf"):
            chk(f"{nm}.{m}({x!r})", d, getattr(d, m), (x,), {})
            # explicit parameters: arrays broadcast with x
            if np.ndim(x) == 1 and len(x) == 3:
                kw = {pnames[0]: np.array([1.0, 2.0, 3.0])}
                if isinstance(d, LogNormalNormFitDistribution):
                    kw[pnames[1]] = np.array([1.0, 1.0, 1.0])
                chk(f"{nm}.{m}(x, {kw})", d, getattr(d, m), (x,), kw)
                kw2 = {k: None for k in pnames}
                chk(f"{nm}.{m}(x, None...)", d, getattr(d, m), (x,), kw2)
    for p in ps:
        chk(f"{nm}.icdf({p!r})", d, d.icdf, (p,), {})
    for seed in (0, 1, np.int64(5)):
        chk(f"{nm}.draw({seed!r})", d, d.draw_sample, (5,), {"random_state": seed})
        chk(f"{nm}.draw0({seed!r})", d, d.draw_sample, (0,), {"random_state": seed})
    chk(f"{nm}.repr", d, repr, (d,), {})
    chk(f"{nm}.parameters", d, lambda: d.parameters, (), {})


# conditional distributions (unfitted + given variants)
def lin(x, a=1.0, b=0.5):
    return a + b * x


def const(x, a=1.3):
    return a + 0 * x


givens = [2, 2.0, [1, 2, 3], np.array([1, 2, 3]), np.array([1.0, 2.0, 3.0]), pd.Series([1.0, 2.0, 3.0]), np.float64(2.0), np.array(2.0)]
cds = [
    ConditionalDistribution(WeibullDistribution(f_gamma=0), {"alpha": DependenceFunction(lin), "beta": DependenceFunction(const)}),
    ConditionalDistribution(LogNormalDistribution(), {"mu": DependenceFunction(lin), "sigma": DependenceFunction(const)}),
    ConditionalDistribution(ExponentiatedWeibullDistribution(f_delta=5), {"alpha": DependenceFunction(lin), "beta": DependenceFunction(lin)}),
    ConditionalDistribution(LogNormalNormFitDistribution(), {"mu_norm": DependenceFunction(lin), "sigma_norm": DependenceFunction(const)}),
    ConditionalDistribution(MyNorm(), {"loc": DependenceFunction(lin), "scale": DependenceFunction(const)}),
    ConditionalDistribution(VonMisesDistribution(f_kappa=2), {"mu": DependenceFunction(lin)}),
    ConditionalDistribution(GeneralizedGammaDistribution(f_c=1, f_m=2), {"lambda_": DependenceFunction(lin)}),
]
for cd in cds:
    nm = "Cond" + cd.distribution_class.__name__
    for g in givens:
        x = np.array([0.5, 1.5, 2.5])
        for m in ("pdf", "cdf"):
            chk(f"{nm}.{m}(given={g!r})", cd, getattr(cd, m), (x, g), {})
            chk(f"{nm}.{m}(list,given={g!r})", cd, getattr(cd, m), ([1, 2, 3],), {"given": g})
        chk(f"{nm}.icdf(given={g!r})", cd, cd.icdf, (np.array([0.1, 0.5, 0.9]), g), {})
        chk(f"{nm}.draw(given={g!r})", cd, cd.draw_sample, (1, g), {"random_state": 0})
        chk(f"{nm}.draw4(given={g!r})", cd, cd.draw_sample, (4, g), {"random_state": 3})
    chk(f"{nm}.repr", cd, repr, (cd,), {})
    for pn, df in cd.conditional_parameters.items():
        for g in givens:
            chk(f"{nm}.dep {pn}", cd, df, (g,), {})
            chk(f"{nm}.dep {pn} explicit", cd, df, (g, *[2.0] * len(df.parameters)), {})
print("bad:", n_bad)
