"""C16 defect 3: conditional_icdf / conditional_cdf of a TransformedModel return
uninitialised memory when fewer conditioning values than probabilities (points)
are passed.

Both methods allocate the result with np.empty_like and fill it in a
zip(p, given) loop; the length check is commented out ("# assert len(p) ==
len(given)").  Asking for three quantiles of tz given ONE Hs value,
conditional_icdf([0.1, 0.5, 0.9], 1, [[3.0]]), therefore returns one quantile
followed by whatever was in memory (e.g. 4.9e-324), silently.  The same call
with the conditioning value repeated three times returns the three quantiles.

Exit status 0 iff the call either raises an error or returns three quantiles
that follow the conditional distribution (DKW bound, error probability 1e-12).
"""
import sys
import warnings

import numpy as np

from virocon import (
    GlobalHierarchicalModel,
    TransformedModel,
    get_Nonzero_EW_Hs_S,
    read_ec_benchmark_dataset,
    variable_transform,
)

warnings.simplefilter("ignore")

import os
import virocon

root = os.path.dirname(os.path.dirname(virocon.__file__))
data = read_ec_benchmark_dataset(
    os.path.join(root, "datasets", "ec-benchmark_dataset_C_1year.txt")
)
hs = data.iloc[:, 0].to_numpy()
tz = data.iloc[:, 1].to_numpy()
_, s = variable_transform.hs_tz_to_hs_s(hs, tz)

dist_descriptions, fit_descriptions, _, tr = get_Nonzero_EW_Hs_S()
model = GlobalHierarchicalModel(dist_descriptions)
model.fit(np.c_[hs, s], fit_descriptions)
t_model = TransformedModel(
    model, tr["transform"], tr["inverse"], tr["jacobian"], random_state=1
)

factor = variable_transform.factor
s_dist = model.distributions[1]


def exact_cdf_tz_given_hs(tz, hs):
    return 1 - s_dist.cdf(np.atleast_1d(factor * hs / tz**2), given=np.atleast_1d(hs))[0]


# fill the allocator's free lists with a recognisable pattern (not required, the
# result is garbage either way; it only makes the garbage visible)
junk = [np.full(3, 1.2345e300) for _ in range(1000)]
del junk

p = [0.1, 0.5, 0.9]
ok = True
try:
    x = t_model.conditional_icdf(p, 1, [[3.0]], random_state=1)
except (ValueError, TypeError, IndexError) as e:
    print("conditional_icdf rejected the call:", repr(e))
else:
    ref = t_model.conditional_icdf(p, 1, [[3.0]] * 3, random_state=1)
    print("conditional_icdf(p, 1, [[3.0]])      =", x)
    print("conditional_icdf(p, 1, [[3.0]] * 3)  =", ref)
    eps = np.sqrt(np.log(2 / 1e-12) / (2 * 100_000))
    for p_i, x_i in zip(p, x):
        F = exact_cdf_tz_given_hs(x_i, 3.0) if np.isfinite(x_i) and x_i > 0 else np.nan
        if not abs(F - p_i) <= eps:
            print(f"  quantile for p = {p_i}: {x_i!r} has exact conditional cdf {F}")
            ok = False

try:
    c = t_model.conditional_cdf([6.0, 6.6, 7.6], 1, [[3.0]], random_state=1)
except (ValueError, TypeError, IndexError) as e:
    print("conditional_cdf rejected the call:", repr(e))
else:
    ref = t_model.conditional_cdf([6.0, 6.6, 7.6], 1, [[3.0]] * 3, random_state=1)
    print("conditional_cdf(x, 1, [[3.0]])       =", c)
    print("conditional_cdf(x, 1, [[3.0]] * 3)   =", ref)
    if not np.allclose(c, ref, atol=0.03, equal_nan=False):
        ok = False

if not ok:
    print("DEFECT: entries beyond len(given) are uninitialised memory")
    sys.exit(1)
print("ok")
sys.exit(0)
