"""C16 defect 2: the search for the sampling window ends INSIDE (or below) the bulk
of a narrow conditional density, so the Monte-Carlo conditional median / cdf are
grossly wrong for ordinary (bulk) conditioning values.

conditional_sample looks for the upper end of its window only at the points
100 * 0.7**k and keeps the first one whose joint density is >= 1e-7.  For a
narrow conditional that point can lie in the lower tail of the conditional
density: everything above it (here up to ~100 % of the probability mass) is
discarded and the "median" returned is a far lower-tail value.  (The known
issue is that this window cuts the upper *tail*; here it removes the bulk for
conditioning values at the 60-80 % quantiles of Hs, and it happens although the
peak density is 6 orders of magnitude above the 1e-7 threshold.)

Model: Windmeier structure, Hs ~ Weibull(alpha=2, beta=1.5), steepness | Hs
exponentiated Weibull with alpha = 0.06 (1 - exp(-0.5 hs)), beta = 5 + 3 hs.

Exit status 0 iff the conditional median and the conditional cdf agree with the
exact conditional distribution within the DKW bound (error probability 1e-12).
"""
import sys
import warnings

import numpy as np

from virocon import (
    GlobalHierarchicalModel,
    TransformedModel,
    get_Windmeier_EW_Hs_S,
    variable_transform,
)

warnings.simplefilter("ignore")

dist_descriptions, _, _, tr = get_Windmeier_EW_Hs_S()
model = GlobalHierarchicalModel(dist_descriptions)
hs_dist = model.distributions[0]
hs_dist.alpha, hs_dist.beta, hs_dist.delta = 2.0, 1.5, 1.0
s_dist = model.distributions[1]
s_dist.conditional_parameters["alpha"].parameters = {"a": 0.06, "b": 0.5}
s_dist.conditional_parameters["beta"].parameters = {"a": 5.0, "b": 3.0}
t_model = TransformedModel(
    model, tr["transform"], tr["inverse"], tr["jacobian"], random_state=1
)

factor = variable_transform.factor


def exact_cdf_tz_given_hs(tz, hs):
    # tz = sqrt(factor * hs / s) decreases in s
    s = factor * hs / tz**2
    return 1 - s_dist.cdf(np.atleast_1d(s), given=np.atleast_1d(hs))[0]


def exact_icdf_tz_given_hs(p, hs):
    s = s_dist.icdf(np.atleast_1d(1 - p), given=np.atleast_1d(hs))[0]
    return np.sqrt(factor * hs / s)


n = 100_000  # sample size used by conditional_icdf for p = 0.5 and by conditional_cdf
eps = np.sqrt(np.log(2 / 1e-12) / (2 * n))
bad = 0
for q in (0.5, 0.6, 0.7, 0.8):
    hs = hs_dist.icdf(q)
    given = np.array([[hs]])
    med_exact = exact_icdf_tz_given_hs(0.5, hs)
    med_mc = t_model.conditional_icdf(np.array([0.5]), 1, given, random_state=1)[0]
    F_of_med = exact_cdf_tz_given_hs(med_mc, hs) if np.isfinite(med_mc) else np.nan
    cdf_mc = t_model.conditional_cdf(np.array([med_exact]), 1, given, random_state=1)[0]
    smp = t_model.conditional_sample(n, 1, given[0], random_state=1)
    print(
        f"hs = {hs:.3f} ({q:.0%} quantile of Hs): exact median tz = {med_exact:.4f}, "
        f"conditional_icdf(0.5) = {med_mc:.4f} [exact cdf there = {F_of_med:.4f}], "
        f"conditional_cdf(exact median) = {cdf_mc:.4f}, largest sampled tz = {smp.max():.4f}"
    )
    if not (abs(F_of_med - 0.5) <= eps) or not (abs(cdf_mc - 0.5) <= eps):
        bad += 1

print(f"allowed deviation in probability: {eps:.4f}")
if bad:
    print(f"DEFECT: {bad} of 4 bulk conditioning values give a wrong conditional median / cdf")
    sys.exit(1)
print("ok")
sys.exit(0)
