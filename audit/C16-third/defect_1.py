"""C16 defect 1: TransformedModel.cdf does not integrate the push-forward density.

The cdf is scipy.integrate.nquad over the box [0, x_1] x [0, x_2] with default
settings.  For a model whose mass sits in a small part of that box the
quadrature steps over it: cdf([99, 99]) of a proper Hs-steepness model of the
Windmeier structure is 5e-12 although all of the model's own samples lie in the
box (empirical cdf 1.0) - the pdf "integrates" to 0 instead of 1.

Exit status 0 iff |cdf - empirical cdf| is within the Hoeffding/DKW bound at
error probability 1e-12.
"""
import sys
import warnings

import numpy as np

from virocon import GlobalHierarchicalModel, TransformedModel, get_Windmeier_EW_Hs_S

warnings.simplefilter("ignore")

dist_descriptions, _, _, tr = get_Windmeier_EW_Hs_S()
model = GlobalHierarchicalModel(dist_descriptions)
# a model "of the same structure" with explicit parameters
hs_dist = model.distributions[0]
hs_dist.alpha, hs_dist.beta, hs_dist.delta = 5.0, 15.0, 1.0
s_dist = model.distributions[1]
s_dist.conditional_parameters["alpha"].parameters = {"a": 0.08, "b": 1.0}
s_dist.conditional_parameters["beta"].parameters = {"a": 40.0, "b": 2.0}

t_model = TransformedModel(
    model, tr["transform"], tr["inverse"], tr["jacobian"], random_state=1
)

n = 1_000_000
sample = t_model.draw_sample(n, random_state=1)
print("sample: hs in [%.3f, %.3f], tz in [%.3f, %.3f]"
      % (sample[:, 0].min(), sample[:, 0].max(), sample[:, 1].min(), sample[:, 1].max()))

# the density itself is fine: a plain Riemann sum over the region of the sample is 1
hs = np.linspace(1.0, 7.0, 601)
tz = np.linspace(3.5, 8.0, 901)
H, T = np.meshgrid(hs, tz)
f = t_model.pdf(np.c_[H.ravel(), T.ravel()])
print("Riemann sum of pdf over [1,7]x[3.5,8]:", f.sum() * (hs[1] - hs[0]) * (tz[1] - tz[0]))

x = [99.0, 99.0]
cdf = t_model.cdf(x)[0]
ecdf = t_model.empirical_cdf(x, sample=sample)[0]
eps = np.sqrt(np.log(2 / 1e-12) / (2 * n))
print(f"cdf({x}) = {cdf!r}, empirical cdf = {ecdf!r}, allowed difference {eps:.4f}")

if abs(cdf - ecdf) > eps:
    print("DEFECT: cdf differs from the empirical cdf of the model's own sample")
    sys.exit(1)
print("ok")
sys.exit(0)
