"""C08: a vectorised call whose conditioning values are a plain Python list
(array_like, as the docstrings of ConditionalDistribution.pdf/cdf/icdf/draw_sample
promise) does not give the numbers of the one-at-a-time evaluation: it raises
TypeError, because `given` is handed to the dependence functions unconverted.
Uses only the library's own predefined model (DNVGL Hs-Tz, OMAE2020 Hs-Tz)."""
import sys
import numpy as np
from virocon import GlobalHierarchicalModel, get_DNVGL_Hs_Tz, get_OMAE2020_Hs_Tz

failures = []
for getter in (get_DNVGL_Hs_Tz, get_OMAE2020_Hs_Tz):
    dist_descriptions, _, _ = getter()
    model = GlobalHierarchicalModel(dist_descriptions)
    cd = model.distributions[1]  # ConditionalDistribution Tz | Hs

    x = [5.0, 7.0, 9.0]
    p = [0.1, 0.5, 0.9]
    g = [1.0, 2.5, 4.0]  # conditioning values as a list (array_like)

    for meth, arg in (("pdf", x), ("cdf", x), ("icdf", p)):
        one_at_a_time = np.array(
            [getattr(cd, meth)(a_i, g_i) for a_i, g_i in zip(arg, g)]
        )
        as_array = getattr(cd, meth)(np.array(arg), np.array(g))
        assert np.allclose(one_at_a_time, as_array, rtol=1e-12, atol=0)
        try:
            as_list = getattr(cd, meth)(np.array(arg), g)
        except Exception as e:  # noqa
            failures.append(f"{getter.__name__} {meth}(x, given=list): {type(e).__name__}: {e}")
            continue
        if not np.allclose(as_list, one_at_a_time, rtol=1e-12, atol=0):
            failures.append(f"{getter.__name__} {meth}(x, given=list): {as_list} != {one_at_a_time}")

    try:
        s_list = cd.draw_sample(4, g, random_state=0)
        s_arr = cd.draw_sample(4, np.array(g), random_state=0)
        if np.shape(s_list) != np.shape(s_arr) or not np.allclose(s_list, s_arr):
            failures.append(f"{getter.__name__} draw_sample(given=list) differs from given=array")
    except Exception as e:  # noqa
        failures.append(f"{getter.__name__} draw_sample(4, given=list): {type(e).__name__}: {e}")

for f in failures:
    print("VIOLATION:", f)
sys.exit(1 if failures else 0)
