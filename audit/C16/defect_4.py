"""C16 defect 4: MultivariateModel.conditional_cdf (the Monte-Carlo conditional cdf used
for TransformedModel) allocates its result with np.empty_like(x).  When the evaluation
points x are integers (list of ints / integer array), the probabilities are stored in
an integer array and truncated to 0 (or 1); for a float x the same call is correct.

Run:  cd /tmp/w4_C16 && PYTHONPATH=/tmp/w4_C16 /venv/bin/python -W ignore _audit/defect_4.py
"""
import os
import warnings
import numpy as np

import virocon
from virocon import (
    GlobalHierarchicalModel,
    TransformedModel,
    get_Windmeier_EW_Hs_S,
    read_ec_benchmark_dataset,
    variable_transform,
)

warnings.simplefilter("ignore")
root = os.path.dirname(os.path.dirname(os.path.abspath(virocon.__file__)))
data = read_ec_benchmark_dataset(
    os.path.join(root, "datasets", "ec-benchmark_dataset_C_1year.txt")
)
hs = data.iloc[:, 0].to_numpy()
tz = data.iloc[:, 1].to_numpy()
_, s = variable_transform.hs_tz_to_hs_s(hs, tz)
dist_descriptions, fit_descriptions, semantics, tr = get_Windmeier_EW_Hs_S()
base = GlobalHierarchicalModel(dist_descriptions)
base.fit(np.c_[hs, s], fit_descriptions)
t_model = TransformedModel(
    base, tr["transform"], tr["inverse"], tr["jacobian"], random_state=42
)
f = variable_transform.factor

given = np.array([[1.0], [3.0]])  # Hs = 1 m and Hs = 3 m
x_float = np.array([5.0, 8.0])  # Tz = 5 s and Tz = 8 s
x_int = np.array([5, 8])

exact = 1 - base.distributions[1].cdf(f * given[:, 0] / x_float**2, given=given[:, 0])
p_float = t_model.conditional_cdf(x_float, 1, given, random_state=42)
p_int = t_model.conditional_cdf(x_int, 1, given, random_state=42)
p_list = t_model.conditional_cdf([5, 8], 1, given, random_state=42)
print("exact P(Tz<=x | Hs)       :", exact)
print("conditional_cdf, float x  :", p_float)
print("conditional_cdf, int x    :", p_int, p_int.dtype)
print("conditional_cdf, list[int]:", p_list)

assert np.allclose(p_float, exact, atol=0.01)
assert np.allclose(p_int, exact, atol=0.01), "integer x -> probabilities truncated to int"
assert np.allclose(p_list, exact, atol=0.01)
