"""C16 defect 3: TransformedModel caches a 1e6-point sample in self._sample and never
invalidates it.  After the model is (re-)fitted, empirical_cdf still answers with the
sample of the OLD parameters, so it no longer is the empirical cdf of the model's own
samples and disagrees with cdf() far beyond Monte-Carlo error.

Run:  cd /tmp/w4_C16 && PYTHONPATH=/tmp/w4_C16 /venv/bin/python -W ignore _audit/defect_3.py
"""
import os
import warnings
import numpy as np

import virocon
from virocon import (
    GlobalHierarchicalModel,
    TransformedModel,
    get_Windmeier_EW_Hs_S,
    read_ec_benchmark_dataset,
)

warnings.simplefilter("ignore")
root = os.path.dirname(os.path.dirname(os.path.abspath(virocon.__file__)))


def load(letter):
    d = read_ec_benchmark_dataset(
        os.path.join(root, "datasets", f"ec-benchmark_dataset_{letter}_1year.txt")
    )
    return d.to_numpy()  # columns: Hs, Tz


dist_descriptions, fit_descriptions, semantics, tr = get_Windmeier_EW_Hs_S()
t_model = TransformedModel(
    GlobalHierarchicalModel(dist_descriptions),
    tr["transform"],
    tr["inverse"],
    tr["jacobian"],
    random_state=42,
)

pts = np.array([[1.0, 5.0], [3.0, 8.0]])

# evaluate - fit - evaluate
t_model.fit(load("A"), fit_descriptions)  # TransformedModel.fit transforms Hs-Tz data itself
emp_A = t_model.empirical_cdf(pts)
cdf_A = t_model.cdf(pts)
print("after fit on dataset A: cdf", cdf_A, "empirical_cdf", emp_A)
assert np.allclose(emp_A, cdf_A, atol=3e-3)  # fine the first time

t_model.fit(load("C"), fit_descriptions)  # re-fit to a different data set
emp_C = t_model.empirical_cdf(pts)
cdf_C = t_model.cdf(pts)
own = t_model.empirical_cdf(pts, sample=t_model.draw_sample(1_000_000))
print("after re-fit on dataset C: cdf", cdf_C, "empirical_cdf", emp_C)
print("empirical cdf of a fresh sample of the re-fitted model:", own)

assert np.allclose(own, cdf_C, atol=3e-3)  # push-forward itself is fine
assert np.allclose(emp_C, cdf_C, atol=3e-3), (
    "empirical_cdf() still uses the sample drawn before the re-fit: "
    f"{emp_C} vs cdf {cdf_C}"
)
