"""C16 defect 5: IFORMContour's TransformedModel branch is only valid for 2 variables.
For n_dim >= 3 it conditions coordinate i on ALL other coordinates
(`given = coordinates[:, np.arange(n_dim) != i]`), including those with index > i that
have not been computed yet and still hold whatever np.empty_like left in memory.
The contour of a 3-D TransformedModel (here: identity transformation, so the exact
answer is simply the base model's IFORM contour) is therefore garbage / depends on
uninitialised memory.

To make the demonstration deterministic, np.empty_like is wrapped so that freshly
allocated float arrays are pre-filled with a sentinel instead of random memory; code
that writes every element before reading it is unaffected by that.

Run:  cd /tmp/w4_C16 && PYTHONPATH=/tmp/w4_C16 /venv/bin/python -W ignore _audit/defect_5.py
"""
import warnings
import numpy as np

from virocon import (
    GlobalHierarchicalModel,
    TransformedModel,
    IFORMContour,
    WeibullDistribution,
    LogNormalDistribution,
    DependenceFunction,
)

warnings.simplefilter("ignore")


def _mu(x, a=0.8, b=0.15):
    return a + b * x


def _sigma(x, a=0.25):
    return a + 0.0 * x


def _alpha(x, a=1.0, b=0.5):
    return a + b * x


def _beta(x, a=2.0):
    return a + 0.0 * x


def make_base():
    mu_dep = DependenceFunction(_mu)
    sig_dep = DependenceFunction(_sigma)
    alpha_dep = DependenceFunction(_alpha)
    beta_dep = DependenceFunction(_beta)
    dd = [
        {"distribution": WeibullDistribution(alpha=2.0, beta=1.5, gamma=0.0)},
        {
            "distribution": LogNormalDistribution(),
            "conditional_on": 0,
            "parameters": {"mu": mu_dep, "sigma": sig_dep},
        },
        {
            "distribution": WeibullDistribution(f_gamma=0.0),
            "conditional_on": 1,
            "parameters": {"alpha": alpha_dep, "beta": beta_dep},
        },
    ]
    return GlobalHierarchicalModel(dd)


base = make_base()


def identity(x):
    return np.asarray(x, dtype=float)


def jacobian(x):
    return np.ones(len(x))


t_model = TransformedModel(base, identity, identity, jacobian, random_state=3)

alpha = 0.01
n_points = 6
exact = IFORMContour(base, alpha, n_points=n_points).coordinates

# record what IFORMContour hands to conditional_icdf
calls = []
orig = t_model.conditional_icdf


def recording_conditional_icdf(p, dim, given, **kw):
    calls.append((dim, np.array(given, copy=True)))
    return orig(p, dim, given, **kw)


t_model.conditional_icdf = recording_conditional_icdf

SENTINEL = 0.4321  # a harmless-looking value, so that sampling does not even fail
_orig_empty_like = np.empty_like


def poisoned_empty_like(*a, **k):
    out = _orig_empty_like(*a, **k)
    if out.dtype.kind == "f":
        out.fill(SENTINEL)
    return out


np.empty_like = poisoned_empty_like
try:
    got = IFORMContour(t_model, alpha, n_points=n_points).coordinates
finally:
    np.empty_like = _orig_empty_like

np.set_printoptions(precision=4, suppress=True)
print("exact (base model, identity transformation):\n", exact)
print("IFORMContour(TransformedModel):\n", got)
for dim, given in calls:
    print(
        f"conditional_icdf(dim={dim}) got given of shape {given.shape}; "
        f"contains never-computed values: {bool((given == SENTINEL).any())}"
    )

print("max relative deviation from exact contour:", np.abs(got / exact - 1).max())
assert not any((g == SENTINEL).any() for _, g in calls), (
    "coordinate 1 was conditioned on coordinate 2, which had not been computed yet"
)
assert np.allclose(got, exact, rtol=0.05, atol=0.03), "3-D transformed contour is wrong"
