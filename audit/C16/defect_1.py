"""C16 defect 1: MultivariateModel.conditional_sample truncates the upper tail of the
conditional density (sometimes cutting away half of the distribution, sometimes all
of it), so Monte-Carlo conditional samples / cdf / quantiles and the IFORM contour of
a TransformedModel are systematically wrong.

Run:  cd /tmp/w4_C16 && PYTHONPATH=/tmp/w4_C16 /venv/bin/python -W ignore _audit/defect_1.py
"""
import os
import warnings
import numpy as np

import virocon
from virocon import (
    GlobalHierarchicalModel,
    TransformedModel,
    IFORMContour,
    get_Nonzero_EW_Hs_S,
    read_ec_benchmark_dataset,
    variable_transform,
)

warnings.simplefilter("ignore")
root = os.path.dirname(os.path.dirname(os.path.abspath(virocon.__file__)))
data = read_ec_benchmark_dataset(
    os.path.join(root, "datasets", "ec-benchmark_dataset_A_1year.txt")
)
hs = data.iloc[:, 0].to_numpy()
tz = data.iloc[:, 1].to_numpy()
_, s = variable_transform.hs_tz_to_hs_s(hs, tz)

dist_descriptions, fit_descriptions, semantics, tr = get_Nonzero_EW_Hs_S()
base = GlobalHierarchicalModel(dist_descriptions)
base.fit(np.c_[hs, s], fit_descriptions)
t_model = TransformedModel(
    base, tr["transform"], tr["inverse"], tr["jacobian"], random_state=42
)
f = variable_transform.factor


def exact_cond_cdf_tz(tz_val, hs_val):
    """P(Tz <= tz | Hs = hs) of the push-forward: tz decreases with s."""
    s_val = f * hs_val / tz_val**2
    return 1 - base.distributions[1].cdf(
        np.atleast_1d(s_val), given=np.atleast_1d(hs_val)
    )


def exact_cond_icdf_tz(p, hs_val):
    s_val = base.distributions[1].icdf(np.atleast_1d(1 - p), given=np.atleast_1d(hs_val))
    return np.sqrt(f * hs_val / s_val)


problems = []

# (a) conditional sample / quantiles given Hs = 8 m (about the 1-year Hs of dataset A)
sample = t_model.conditional_sample(100_000, 1, 8.0, random_state=1)
ps = np.array([0.5, 0.9, 0.99])
exact_q = exact_cond_icdf_tz(ps, np.full(3, 8.0))
mc_q = np.quantile(sample, ps)
print("Tz | Hs=8: exact quantiles", exact_q, " MC quantiles", mc_q, " sample max", sample.max())
print("   exact P(Tz > sample.max() | Hs=8) =", 1 - exact_cond_cdf_tz(sample.max(), 8.0)[0])
if not np.allclose(mc_q, exact_q, rtol=0.01):
    problems.append("conditional_sample quantiles given Hs=8 are off (upper tail cut)")

# (b) conditional_icdf / conditional_cdf
med = t_model.conditional_icdf(np.array([0.5]), 1, np.array([[8.0]]), random_state=42)
print("conditional_icdf(0.5 | Hs=8) =", med, "exact", exact_q[0])
if abs(med[0] - exact_q[0]) > 0.05:
    problems.append("conditional_icdf median given Hs=8 is wrong")

x = np.array([50.0])
cdf13 = t_model.conditional_cdf(x, 1, np.full((1, 1), 13.0), random_state=42)
exact13 = exact_cond_cdf_tz(x, np.full(1, 13.0))
print("conditional_cdf(. | Hs=13) =", cdf13, "exact", exact13)
if not np.allclose(cdf13, exact13, atol=0.01):
    problems.append("conditional_cdf given Hs=13 is wrong (returns 0 at Tz=50 s, exact value 1)")

# (c) IFORM contour, 1-year return period, 1-h sea states, 2 points (max-Hs and min-Hs point; both have p2 = 0.5).
alpha = 1 / (365.25 * 24)
contour = IFORMContour(t_model, alpha, n_points=2)
c = contour.coordinates
p = __import__("scipy.stats").stats.norm.cdf(contour.sphere_points)
# The Tz coordinate of every contour point must be the p2-quantile of Tz | Hs = hs_c.
# (compare at the contour's own Hs so that MC noise in Hs does not matter)
achieved = np.array([exact_cond_cdf_tz(c[i, 1], c[i, 0])[0] for i in range(len(c))])
print("contour", c)
print("target p2", p[:, 1], "achieved exact cdf at contour point", achieved)
# point 0 is the max-Hs point, where p2 = 0.5; MC error of a median from 1e5 points ~0.002
if abs(achieved[0] - 0.5) > 0.02:
    problems.append(
        f"IFORM contour: Tz at the max-Hs point is the {achieved[0]:.3f}-quantile instead of the median"
    )

print()
for pr in problems:
    print("VIOLATION:", pr)
assert not problems, problems
