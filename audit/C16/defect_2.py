"""C16 defect 2: the IFORM contour of a TransformedModel is NOT reproduced when the
model's random_state is set, because the first coordinate comes from
marginal_icdf -> TransformedModel.draw_sample, which ignores random_state.

Run:  cd /tmp/w4_C16 && PYTHONPATH=/tmp/w4_C16 /venv/bin/python -W ignore _audit/defect_2.py
"""
import os
import warnings
import numpy as np

import virocon
from virocon import (
    GlobalHierarchicalModel,
    TransformedModel,
    IFORMContour,
    get_Windmeier_EW_Hs_S,
    read_ec_benchmark_dataset,
    variable_transform,
)

warnings.simplefilter("ignore")
root = os.path.dirname(os.path.dirname(os.path.abspath(virocon.__file__)))
data = read_ec_benchmark_dataset(
    os.path.join(root, "datasets", "ec-benchmark_dataset_C_1year.txt")
)
hs = data.iloc[:, 0].to_numpy()
tz = data.iloc[:, 1].to_numpy()
_, s = variable_transform.hs_tz_to_hs_s(hs, tz)
dist_descriptions, fit_descriptions, semantics, tr = get_Windmeier_EW_Hs_S()
base = GlobalHierarchicalModel(dist_descriptions)
base.fit(np.c_[hs, s], fit_descriptions)


def make():
    # exactly the construction used in tests/test_predefined.py
    return TransformedModel(
        base,
        tr["transform"],
        tr["inverse"],
        tr["jacobian"],
        precision_factor=0.2,
        random_state=42,
    )


alpha = 1 / (1 * 365.25 * 24)
t_model = make()
c1 = IFORMContour(t_model, alpha, n_points=2).coordinates
c2 = IFORMContour(t_model, alpha, n_points=2).coordinates  # same object, 2nd call
c3 = IFORMContour(make(), alpha, n_points=2).coordinates  # fresh object, same seed
print("run 1\n", c1)
print("run 2 (same model object)\n", c2)
print("run 3 (fresh model, random_state=42)\n", c3)
print("max |run1 - run2| per coordinate:", np.abs(c1 - c2).max(axis=0))
print("max |run1 - run3| per coordinate:", np.abs(c1 - c3).max(axis=0))

# the samples themselves cannot be seeded either
try:
    s1 = make().draw_sample(5, random_state=42)
    s2 = make().draw_sample(5, random_state=42)
    print("draw_sample(5, random_state=42) reproducible:", np.array_equal(s1, s2))
except TypeError as e:  # informational only
    print("draw_sample(random_state=...) ->", type(e).__name__, e)

assert np.array_equal(c1, c2), "contour not reproduced on 2nd call although random_state=42"
assert np.array_equal(c1, c3), "contour not reproduced by a fresh model with random_state=42"
