"""C01 defect 3: for models with three or more variables a contour with
n_points = 1 (or 0) cannot be computed: IndexError from NSphere.

The property promises exactly n_points points for every model.  For two
variables IFORMContour/ISORMContour(model, alpha, n_points=1) returns the one
point on the positive first axis, for n_dim >= 3 the same call crashes with
  IndexError: too many indices for array: array is 1-dimensional, but 2 were indexed
because NSphere builds `combs = np.array([... combinations(range(n), 2)])`,
which is an empty 1-D float array for n < 2, and then indexes combs[:, 0].
"""
import numpy as np
import scipy.stats as sts
from virocon import (GlobalHierarchicalModel, WeibullDistribution,
                     LogNormalDistribution, DependenceFunction,
                     IFORMContour, ISORMContour)


def mu(x, a=0.1, b=0.3, c=0.5):
    return a + b * x ** c


def sigma(x, a=0.2, b=0.1, c=-0.2):
    return a + b * np.exp(c * x)


descs = [
    {"distribution": WeibullDistribution(alpha=2.0, beta=1.5, gamma=0.3)},
    {"distribution": LogNormalDistribution(), "conditional_on": 0,
     "parameters": {"mu": DependenceFunction(mu), "sigma": DependenceFunction(sigma)}},
    {"distribution": WeibullDistribution(alpha=3.0, beta=2.0, gamma=0.0)},
]
model2 = GlobalHierarchicalModel(descs[:2])
model3 = GlobalHierarchicalModel(descs)


def to_u(model, coords):
    u = np.empty_like(coords)
    for i, (d, c) in enumerate(zip(model.distributions, model.conditional_on)):
        p = d.cdf(coords[:, i]) if c is None else d.cdf(coords[:, i], given=coords[:, c])
        u[:, i] = sts.norm.ppf(p)
    return u


alpha = 0.01
for cls, beta_of in ((IFORMContour, lambda n: sts.norm.ppf(1 - alpha)),
                     (ISORMContour, lambda n: np.sqrt(sts.chi2.ppf(1 - alpha, n)))):
    for model in (model2, model3):
        for n_points in (2, 1):
            contour = cls(model, alpha, n_points=n_points)   # IndexError for 3-D, n_points=1
            coords = contour.coordinates
            assert coords.shape == (n_points, model.n_dim), coords.shape
            r = np.linalg.norm(to_u(model, coords), axis=1)
            assert np.allclose(r, beta_of(model.n_dim), rtol=1e-9), r
            print(cls.__name__, model.n_dim, "variables, n_points =", n_points, "ok")
print("OK")
