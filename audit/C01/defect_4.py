"""C01 defect 4: IFORMContour rejects every subclass of GlobalHierarchicalModel.

IFORMContour decides what to do by comparing type(model).__name__ with the
strings "GlobalHierarchicalModel" / "TransformedModel".  An instance of a
(trivial) subclass of GlobalHierarchicalModel is a hierarchical joint model
with exactly the same distributions / conditional_on interface, and
ISORMContour, HighestDensityContour etc. accept it, but IFORMContour raises
  TypeError: Type of model was MyModel but among (...)
so no IFORM contour exists for it.
"""
import numpy as np
import scipy.stats as sts
from virocon import (GlobalHierarchicalModel, WeibullDistribution,
                     LogNormalDistribution, DependenceFunction,
                     IFORMContour, ISORMContour)


class MyModel(GlobalHierarchicalModel):
    """A hierarchical model with some user-added convenience."""

    def describe(self):
        return f"{self.n_dim} variables"


def mu(x, a=0.1, b=0.3, c=0.5):
    return a + b * x ** c


def sigma(x, a=0.2, b=0.1, c=-0.2):
    return a + b * np.exp(c * x)


def descs():
    return [
        {"distribution": WeibullDistribution(alpha=2.0, beta=1.5, gamma=0.3)},
        {"distribution": LogNormalDistribution(), "conditional_on": 0,
         "parameters": {"mu": DependenceFunction(mu), "sigma": DependenceFunction(sigma)}},
    ]


alpha, n_points = 0.01, 16
reference = GlobalHierarchicalModel(descs())
model = MyModel(descs())

iso = ISORMContour(model, alpha, n_points)          # works
assert np.allclose(iso.coordinates, ISORMContour(reference, alpha, n_points).coordinates)
print("ISORMContour accepts the subclass")

ifo = IFORMContour(model, alpha, n_points)           # TypeError today
assert np.allclose(ifo.coordinates, IFORMContour(reference, alpha, n_points).coordinates)
u0 = sts.norm.ppf(model.distributions[0].cdf(ifo.coordinates[:, 0]))
u1 = sts.norm.ppf(model.distributions[1].cdf(ifo.coordinates[:, 1], given=ifo.coordinates[:, 0]))
assert np.allclose(np.hypot(u0, u1), sts.norm.ppf(1 - alpha))
print("OK")
