"""C01 defect 5: a dependence structure in which a dependence function takes
another dependence function as a parameter that is NOT its last positional
parameter cannot be evaluated -> no IFORM/ISORM contour.

DependenceFunction(func, <name>=other_dep) binds `other_dep` with
functools.partial(func, <name>=other_dep) and later calls
    self.func(x, *self.parameters.values())
i.e. passes the remaining free parameters POSITIONALLY.  If the bound
parameter is not the last one, the positional values run into it:
  TypeError: alpha_dep() got multiple values for argument 'shape_of_x'
The same function with the bound parameter moved to the end works (that is
what the predefined OMAE2020 V-Hs model does), so the result depends on the
order in which the user happened to declare the parameters.
"""
import numpy as np
import scipy.stats as sts
from virocon import (GlobalHierarchicalModel, WeibullDistribution,
                     DependenceFunction, IFORMContour, ISORMContour)


def beta_dep(x, a=1.5, b=0.1):
    return a + b * x


def alpha_dep_last(x, a, c, shape_of_x):
    return a + c * x / shape_of_x(x)


def alpha_dep_middle(x, a, shape_of_x, c):       # same maths, other declaration order
    return a + c * x / shape_of_x(x)


def build(func):
    shape = DependenceFunction(beta_dep)
    scale = DependenceFunction(func, shape_of_x=shape)
    return GlobalHierarchicalModel([
        {"distribution": WeibullDistribution(alpha=2.0, beta=1.5, gamma=0.0)},
        {"distribution": WeibullDistribution(f_gamma=0.0), "conditional_on": 0,
         "parameters": {"alpha": scale, "beta": shape}},
    ])


def radius(model, contour):
    c = contour.coordinates
    u0 = sts.norm.ppf(model.distributions[0].cdf(c[:, 0]))
    u1 = sts.norm.ppf(model.distributions[1].cdf(c[:, 1], given=c[:, 0]))
    return np.hypot(u0, u1)


alpha, n_points = 0.01, 12
m_last = build(alpha_dep_last)
ref_iform = IFORMContour(m_last, alpha, n_points)
assert np.allclose(radius(m_last, ref_iform), ref_iform.beta)
print("dependent parameter declared last: ok")

m_mid = build(alpha_dep_middle)
iform = IFORMContour(m_mid, alpha, n_points)       # TypeError today
isorm = ISORMContour(m_mid, alpha, n_points)
assert np.allclose(iform.coordinates, ref_iform.coordinates)
assert np.allclose(radius(m_mid, iform), sts.norm.ppf(1 - alpha))
assert np.allclose(radius(m_mid, isorm), np.sqrt(sts.chi2.ppf(1 - alpha, 2)))
print("OK")
