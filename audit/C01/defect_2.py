"""C01 defect 2: IFORMContour of a 3-variable TransformedModel reads
uninitialised memory as conditioning values.

IFORMContour explicitly accepts TransformedModel.  In that branch the i-th
coordinate is computed with
    given = coordinates[:, np.arange(n_dim) != i]
i.e. conditioned on ALL other columns, including columns > i that have not been
computed yet (coordinates = np.empty_like(p) -> arbitrary memory).  For
n_dim >= 3 the second variable is therefore conditioned on garbage for the
third variable: the contour is not the inverse-Rosenblatt image of the
beta-sphere, it is not reproducible, and points collapse to 0 whenever the
garbage has zero density.

Reference: a TransformedModel with identity transform has exactly the same
joint distribution as the wrapped GlobalHierarchicalModel, so its IFORM
contour must agree with the exact one up to Monte-Carlo noise.
"""
import warnings
import numpy as np
from virocon import (GlobalHierarchicalModel, TransformedModel, WeibullDistribution,
                     LogNormalDistribution, DependenceFunction, IFORMContour)

warnings.simplefilter("ignore")


def mu(x, a=0.1, b=0.3, c=0.5):
    return a + b * x ** c


def sigma(x, a=0.2, b=0.1, c=-0.2):
    return a + b * np.exp(c * x)


def scale(x, a=1.0, b=1.0):
    return a + b * x


def shape(x, a=2.0, b=0.2):
    return a + b * x


ghm = GlobalHierarchicalModel([
    {"distribution": WeibullDistribution(alpha=2.0, beta=1.5, gamma=0.0)},
    {"distribution": LogNormalDistribution(), "conditional_on": 0,
     "parameters": {"mu": DependenceFunction(mu), "sigma": DependenceFunction(sigma)}},
    # third variable depends on the SECOND one
    {"distribution": WeibullDistribution(f_gamma=0.0), "conditional_on": 1,
     "parameters": {"alpha": DependenceFunction(scale), "beta": DependenceFunction(shape)}},
])


def identity(x):
    return x


def jacobian(x):
    return np.ones(len(x))


t_model = TransformedModel(ghm, identity, identity, jacobian,
                           precision_factor=0.2, random_state=42)

alpha, n_points = 0.05, 3
exact = IFORMContour(ghm, alpha, n_points).coordinates
try:
    mc = IFORMContour(t_model, alpha, n_points).coordinates
except NotImplementedError as e:
    # an explicit refusal of n_dim > 2 TransformedModels is an acceptable fix
    print("rejected with NotImplementedError:", e)
    raise SystemExit(0)
print("exact (GlobalHierarchicalModel):\n", exact)
print("TransformedModel(identity):\n", mc)
rel = np.abs(mc - exact) / np.abs(exact)
print("relative deviation:\n", rel)
# Monte-Carlo noise for these sample sizes is ~1 %; allow 10 %.
assert np.all(np.isfinite(mc)), "non-finite contour coordinates"
assert np.all(rel < 0.10), (
    "3-D TransformedModel IFORM contour is not the inverse-Rosenblatt image: "
    f"max relative deviation {rel.max():.3f}")
print("OK")
