"""C01 defect 1: IFORMContour with alpha > 0.5 (and alpha == 0.5).

The property quantifies over every alpha in (0, 1).  For alpha > 0.5 the
library computes beta = Phi^-1(1 - alpha) < 0 and multiplies the unit circle
by this *negative* number.  The resulting contour
  * starts on the NEGATIVE first axis (first point is (beta, 0) in U space),
  * has as largest first-variable value the marginal alpha-quantile, not the
    marginal (1 - alpha)-quantile,
and for alpha == 0.5 all n_points points collapse into one single point
(no distinct directions).  No error or warning is raised.
"""
import numpy as np
import scipy.stats as sts
from virocon import (GlobalHierarchicalModel, WeibullDistribution,
                     LogNormalDistribution, DependenceFunction, IFORMContour)


def mu(x, a=0.1, b=0.3, c=0.5):
    return a + b * x ** c


def sigma(x, a=0.2, b=0.1, c=-0.2):
    return a + b * np.exp(c * x)


model = GlobalHierarchicalModel([
    {"distribution": WeibullDistribution(alpha=2.0, beta=1.5, gamma=0.3)},
    {"distribution": LogNormalDistribution(), "conditional_on": 0,
     "parameters": {"mu": DependenceFunction(mu),
                    "sigma": DependenceFunction(sigma)}},
])


def to_u(coords):
    u0 = sts.norm.ppf(model.distributions[0].cdf(coords[:, 0]))
    u1 = sts.norm.ppf(model.distributions[1].cdf(coords[:, 1], given=coords[:, 0]))
    return np.stack((u0, u1), axis=1)


problems = []
n_points = 8
for alpha in (0.3, 0.5, 0.7, 0.9):
    try:
        contour = IFORMContour(model, alpha, n_points=n_points)
    except ValueError as e:
        # An explicit refusal (the suggested fix) is acceptable: the property
        # cannot be met by any origin-centred circle when alpha >= 0.5.
        print(f"alpha={alpha}: rejected with ValueError: {e}")
        continue
    coords = contour.coordinates
    u = to_u(coords)
    q = model.distributions[0].icdf(1 - alpha)
    largest = coords[:, 0].max()
    n_distinct = len(np.unique(np.round(coords, 10), axis=0))
    first_angle = np.arctan2(u[0, 1], u[0, 0])
    print(f"alpha={alpha}: beta={contour.beta:+.4f}  first U point={u[0]}  "
          f"max x0={largest:.6f}  marginal (1-alpha)-quantile={q:.6f}  "
          f"distinct points={n_distinct}")
    if n_distinct != n_points:
        problems.append(f"alpha={alpha}: only {n_distinct} distinct points of {n_points}")
    if alpha != 0.5 and not (abs(first_angle) < 1e-9 and u[0, 0] > 0):
        problems.append(f"alpha={alpha}: first point is not on the positive first axis "
                        f"(U={u[0]})")
    if not np.isclose(largest, q, rtol=1e-9, atol=1e-12):
        problems.append(f"alpha={alpha}: largest first-variable value {largest} != "
                        f"marginal (1-alpha)-quantile {q}")

assert not problems, "\n".join(problems)
print("OK")
