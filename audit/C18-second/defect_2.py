"""C18 defect 2: TransformedModel.fit accepts data of the wrong dimension.

GlobalHierarchicalModel.fit rejects data whose number of columns differs from the number of
model variables.  TransformedModel.fit hands the data to the user transform first and only the
*transformed* array is checked.  The library's own transformations (predefined.get_Windmeier_EW_Hs_S,
get_Nonzero_EW_Hs_S) read columns 0 and 1 and drop everything else, so a 3-column data set is fitted
as if it were 2-dimensional.
"""
import sys
import numpy as np
from virocon import GlobalHierarchicalModel, TransformedModel
from virocon.predefined import get_Windmeier_EW_Hs_S

rng = np.random.default_rng(1)
n = 3000
hs = 2 * rng.weibull(1.5, n) + 0.05
tz = np.exp(1.2 + 0.1 * hs + 0.2 * rng.standard_normal(n))
v = 10 * rng.weibull(2.0, n)
data_3_columns = np.c_[hs, tz, v]  # three variables for a two-variable model

dist_descriptions, fit_descriptions, semantics, tr = get_Windmeier_EW_Hs_S()
model = GlobalHierarchicalModel(dist_descriptions)
t_model = TransformedModel(model, tr["transform"], tr["inverse"], tr["jacobian"])
assert t_model.n_dim == 2

# The wrapped model itself rejects such data.
try:
    GlobalHierarchicalModel(get_Windmeier_EW_Hs_S()[0]).fit(data_3_columns, get_Windmeier_EW_Hs_S()[1])
    print("unexpected: GlobalHierarchicalModel.fit accepted 3 columns")
    sys.exit(2)
except ValueError as e:
    print("GlobalHierarchicalModel.fit rejects:", str(e)[:80], "...")

try:
    t_model.fit(data_3_columns, fit_descriptions)
except Exception as e:
    print(f"TransformedModel.fit rejected the data with {type(e).__name__}: ok")
    sys.exit(0)

print("VIOLATION: TransformedModel.fit accepted data with 3 columns for a 2-dimensional model "
      "and produced a fit:")
print("  ", model.distributions[0])
sys.exit(1)
