"""C18 defect 3: a 'parameters' entry without 'conditional_on' is silently dropped.

The parameter bookkeeping (unknown parameter names, a parameter both fixed and dependent, a
parameter neither fixed nor dependent) is only done by ConditionalDistribution.__init__, which is
only reached when the key 'conditional_on' is present.  A description that carries 'parameters'
but no 'conditional_on' is taken as an unconditional variable: the dependence functions, unknown
parameter names and fixed/dependent clashes are ignored and an independent model is returned.
"""
import sys
import numpy as np
from virocon import (
    GlobalHierarchicalModel,
    WeibullDistribution,
    LogNormalDistribution,
    DependenceFunction,
)


def dep():
    return DependenceFunction(lambda x, a=1.0, b=0.1: a + b * x)


cases = {
    "unknown parameter name 'bogus'": lambda cond: {
        "distribution": LogNormalDistribution(),
        **cond,
        "parameters": {"mu": dep(), "sigma": dep(), "bogus": dep()},
    },
    "mu both fixed (f_mu=1) and dependent": lambda cond: {
        "distribution": LogNormalDistribution(f_mu=1),
        **cond,
        "parameters": {"mu": dep(), "sigma": dep()},
    },
}

failures = []
for label, make in cases.items():
    # sanity: with 'conditional_on' the very same description is rejected
    try:
        GlobalHierarchicalModel(
            [{"distribution": WeibullDistribution()}, make({"conditional_on": 0})]
        )
        print("unexpected: accepted even with conditional_on:", label)
        sys.exit(2)
    except ValueError:
        pass
    try:
        m = GlobalHierarchicalModel([{"distribution": WeibullDistribution()}, make({})])
    except Exception as e:
        print(f"{label}: rejected with {type(e).__name__}: ok")
    else:
        # the model is fully usable and simply independent
        f = m.pdf([[1.0, 2.0]])
        failures.append(
            f"{label}: accepted, conditional_on={m.conditional_on}, "
            f"distributions[1]={m.distributions[1]!r}, pdf([[1, 2]])={f}"
        )

for msg in failures:
    print("VIOLATION:", msg)
sys.exit(1 if failures else 0)
