"""C18 defect 4: an unknown 'reference' keyword of WidthOfIntervalSlicer / NumberOfIntervalsSlicer
is not rejected where it is supplied (and possibly never).

PointsPerIntervalSlicer validates its reference in __init__.  The two value slicers store it
unchecked; the keyword is only looked at inside _slice().  The slicer and the model description are
therefore accepted, and when no variable is conditional on the slicer's variable (e.g. the slicer
belongs to the last variable) the whole fit runs through and the bogus keyword is never reported.
WidthOfIntervalSlicer._slice additionally returns before the check when the value range is empty.
"""
import sys
import numpy as np
from virocon import (
    GlobalHierarchicalModel,
    WeibullDistribution,
    LogNormalDistribution,
    DependenceFunction,
    WidthOfIntervalSlicer,
    NumberOfIntervalsSlicer,
    PointsPerIntervalSlicer,
)

# sanity: the sibling slicer rejects at construction
try:
    PointsPerIntervalSlicer(100, reference="bogus")
    print("unexpected: PointsPerIntervalSlicer accepted a str reference")
    sys.exit(2)
except TypeError:
    pass

failures = []
slicers = {}
for name, make in {
    "WidthOfIntervalSlicer": lambda: WidthOfIntervalSlicer(0.5, reference="bogus"),
    "NumberOfIntervalsSlicer": lambda: NumberOfIntervalsSlicer(5, reference="bogus"),
}.items():
    try:
        slicers[name] = make()
    except Exception as e:
        print(f"{name}(reference='bogus') rejected with {type(e).__name__}: ok")
    else:
        failures.append(f"{name}(reference='bogus') was constructed without an exception")

# A complete fit with such a slicer in the description yields a result.
rng = np.random.default_rng(1)
hs = 2 * rng.weibull(1.5, 3000)
tz = np.exp(1.2 + 0.1 * hs + 0.2 * rng.standard_normal(3000))
data = np.c_[hs, tz]
for name, slicer in slicers.items():
    dist_descriptions = [
        {"distribution": WeibullDistribution()},
        {
            "distribution": LogNormalDistribution(),
            "conditional_on": 0,
            "parameters": {
                "mu": DependenceFunction(lambda x, a=1.0, b=0.1: a + b * x),
                "sigma": DependenceFunction(lambda x, a=0.2: a + 0 * x),
            },
            "intervals": slicer,
        },
    ]
    try:
        model = GlobalHierarchicalModel(dist_descriptions)
        model.fit(data)
    except Exception as e:
        print(f"model with {name}(reference='bogus') rejected with {type(e).__name__}: ok")
    else:
        failures.append(
            f"GlobalHierarchicalModel built and fitted with {name}(reference='bogus') "
            f"in its description: {model.distributions[1]!r}"[:300]
        )

for msg in failures:
    print("VIOLATION:", msg)
sys.exit(1 if failures else 0)
