"""C18 defect 1: TransformedModel.pdf evaluates non-finite points instead of rejecting them.

GlobalHierarchicalModel.pdf/cdf, TransformedModel.cdf and TransformedModel.empirical_cdf all
reject points containing inf/nan (np.asarray_chkfinite).  TransformedModel.pdf has no such check:
it only fails if the *transformed* point happens to be non-finite.  With the library's own
Hs-Tz <-> Hs-steepness transformation (predefined.get_Windmeier_EW_Hs_S) a point with Tz = +-inf
is mapped to steepness 0, so a density (0.0 / -0.0) is returned.
"""
import sys
import numpy as np
from virocon import GlobalHierarchicalModel, TransformedModel
from virocon.predefined import get_Windmeier_EW_Hs_S

dist_descriptions, fit_descriptions, semantics, tr = get_Windmeier_EW_Hs_S()
model = GlobalHierarchicalModel(dist_descriptions)
# usable parameter values (no fit needed): marginal EW, dependence functions keep their defaults
model.distributions[0].alpha = 1.0
model.distributions[0].beta = 1.2
model.distributions[0].delta = 2.0
t_model = TransformedModel(
    model, tr["transform"], tr["inverse"], tr["jacobian"], precision_factor=0.2, random_state=1
)

finite = t_model.pdf(np.array([[1.0, 5.0]]))
assert np.isfinite(finite).all() and finite[0] > 0, finite  # sanity: the model works

failures = []
for bad in ([1.0, np.inf], [1.0, -np.inf]):
    x = np.array([bad])
    # the sibling methods reject the very same point
    for name in ("cdf",):
        try:
            getattr(t_model, name)(x)
            failures.append(f"{name}({bad}) did not raise either")
        except ValueError:
            pass
    try:
        t_model.empirical_cdf(x, sample=np.ones((10, 2)))
        failures.append(f"empirical_cdf({bad}) did not raise either")
    except ValueError:
        pass
    try:
        f = t_model.pdf(x)
    except Exception as e:  # any exception is a rejection
        print(f"pdf({bad}) rejected with {type(e).__name__}: ok")
    else:
        failures.append(f"TransformedModel.pdf({bad}) returned {f!r} instead of raising")

for msg in failures:
    print("VIOLATION:", msg)
sys.exit(1 if failures else 0)
