"""C17: a contour edge that is collinear with the vertical probe line is ignored.

calculate_design_conditions must return, for every requested abscissa, the
LARGEST ordinate of the contour polygon at that abscissa.  An edge of the
polygon that is itself vertical and sits exactly at the requested abscissa
makes the 4x4 system in _intersection.intersection singular; the pair is
silently dropped.  When the top end of such an edge is only attached to other
vertical edges (a one-cell-wide tip, as HighestDensityContour produces on its
regular grid), the top of the polygon at this abscissa is never seen and a
lower ordinate is returned.
"""
import sys
import warnings

import numpy as np

warnings.filterwarnings("ignore")

from virocon import (
    GlobalHierarchicalModel,
    HighestDensityContour,
    calculate_alpha,
    get_OMAE2020_Hs_Tz,
    read_ec_benchmark_dataset,
)
from virocon.utils import calculate_design_conditions


def polygon_top(coords, x):
    """Largest ordinate of the closed polygon at abscissa x (None: no crossing)."""
    P = np.vstack([coords, coords[:1]])
    ys = []
    for (xa, ya), (xb, yb) in zip(P[:-1], P[1:]):
        if min(xa, xb) <= x <= max(xa, xb):
            if xa == xb:
                ys += [ya, yb]
            else:
                ys.append(ya + (x - xa) / (xb - xa) * (yb - ya))
    return max(ys) if ys else None


class _Contour:
    def __init__(self, coordinates):
        self.coordinates = np.asarray(coordinates, dtype=float)


failures = []

# 1) hand-made polygon with a vertical tip at x = 1 that reaches y = 3
poly = _Contour([[0, 0], [2, 0], [2, 1], [1, 1], [1, 3], [1, 2], [0, 2]])
dc = calculate_design_conditions(poly, steps=[0.5, 1.0, 1.5])
print("polygon design conditions:", dc.tolist())
for x, y in dc:
    top = polygon_top(poly.coordinates, x)
    if abs(y - top) > 1e-9:
        failures.append(f"polygon: x={x}: returned {y}, top of polygon is {top}")

# 2) a real library contour: HDC of the OMAE2020 sea state model, 50 years,
#    abscissae on the 0.5 m grid the contour was computed on
data = read_ec_benchmark_dataset()
dist_descriptions, fit_descriptions, _ = get_OMAE2020_Hs_Tz()
model = GlobalHierarchicalModel(dist_descriptions)
model.fit(data, fit_descriptions)
alpha = calculate_alpha(1, 50)
contour = HighestDensityContour(
    model, alpha, limits=[(0, 24), (0, 24)], deltas=[0.5, 0.5]
)
coords = contour.coordinates
steps = [0.5, 1.0, 1.5, 2.0]
assert coords[:, 0].min() < 0.5 < coords[:, 0].max()  # 0.5 is not an extreme
dc = calculate_design_conditions(contour, steps=steps)
print("HDC design conditions:", dc.tolist())
for x, y in dc:
    top = polygon_top(coords, x)
    if abs(y - top) > 1e-9:
        failures.append(f"HDC: x={x}: returned {y}, top of contour polygon is {top}")

if failures:
    print("VIOLATION (C17): design condition is not the largest ordinate:")
    for f in failures:
        print("  ", f)
    sys.exit(1)
print("ok")
sys.exit(0)
