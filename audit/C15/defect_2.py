"""C15 defect 2: points are lost on ISOTROPIC grids as well, and the line-sorting
utility is not a permutation of its input.

(a) HDC of two independent exponential variables, square 0.1 x 0.1 cells:
    4 of 932 boundary cells are returned.
(b) HDC of a narrow normal x normal model, square 0.3 x 0.3 cells: 4 of 15.
(c) sort_points_to_form_continuous_line() called directly on planar point sets.
Exits non-zero on the unmodified library.
"""
import itertools
import warnings

import numpy as np

warnings.simplefilter("ignore")


def boundary_cells(contour):
    """Independent brute-force computation of the boundary cells of the
    highest density region of ``contour`` (region cells with at least one of
    their 3^n-1 neighbours outside the region or outside the grid).
    Returns (region, boundary_mask, points[N, n_dim])."""
    cc = contour.cell_center_coordinates
    p = np.array(contour.cell_averaged_joint_pdf(cc), dtype=float)
    for d in contour.deltas:
        p = p * d
    flat = p.ravel()
    order = np.argsort(flat, kind="mergesort")[::-1]
    cs = np.cumsum(flat[order])
    if cs[-1] < 1 - contour.alpha:
        region = np.ones(p.shape, bool)
    else:
        region = np.zeros(p.size, bool)
        region[order[cs <= 1 - contour.alpha]] = True
        region = region.reshape(p.shape)
    n = region.ndim
    pad = np.pad(region, 1, constant_values=False)
    interior = np.ones(region.shape, bool)
    for off in itertools.product((-1, 0, 1), repeat=n):
        sl = tuple(slice(1 + o, 1 + o + s) for o, s in zip(off, region.shape))
        interior &= pad[sl]
    boundary = region & ~interior
    idx = np.nonzero(boundary)
    pts = np.stack([cc[d][idx[d]] for d in range(n)], axis=1)
    return region, boundary, pts


def as_sorted_list(a):
    return sorted(map(tuple, np.asarray(a, dtype=float).tolist()))

from virocon import (
    GlobalHierarchicalModel,
    HighestDensityContour,
    NormalDistribution,
    WeibullDistribution,
    sort_points_to_form_continuous_line,
)

failures = []


def check_contour(name, contour):
    region, boundary, expected = boundary_cells(contour)
    got = contour.coordinates
    ok = (
        isinstance(got, np.ndarray)
        and got.ndim == 2
        and as_sorted_list(got) == as_sorted_list(expected)
    )
    print(f"{name}: deltas={list(contour.deltas)} boundary cells={len(expected)} "
          f"returned={np.shape(got)} -> {'ok' if ok else 'POINTS LOST'}")
    if not ok:
        failures.append(name)
    return expected


def check_sorter(name, x, y):
    for opt in (False, True):
        xx, yy = sort_points_to_form_continuous_line(x, y, search_for_optimal_start=opt)
        ok = as_sorted_list(np.c_[xx, yy]) == as_sorted_list(np.c_[x, y])
        print(f"sorter {name} optimal_start={opt}: in={len(x)} out={len(xx)} "
              f"-> {'ok' if ok else 'NOT A PERMUTATION'}")
        if not ok:
            failures.append(f"sorter {name} {opt}")


# (a) exponential x exponential, isotropic grid
expo = GlobalHierarchicalModel([
    {"distribution": WeibullDistribution(alpha=2, beta=1, gamma=0)},
    {"distribution": WeibullDistribution(alpha=2, beta=1, gamma=0)},
])
pts_a = check_contour(
    "(a) expo", HighestDensityContour(expo, 1e-4, limits=[(0, 30), (0, 30)], deltas=0.1))

# (b) narrow normal, isotropic grid
nn = GlobalHierarchicalModel([
    {"distribution": NormalDistribution(5, 1)},
    {"distribution": NormalDistribution(5, 0.3)},
])
pts_b = check_contour(
    "(b) narrow normal", HighestDensityContour(nn, 0.5, limits=[(0, 10), (0, 10)], deltas=0.3))

# (c) the utility itself
check_sorter("boundary cells of (a)", pts_a[:, 0], pts_a[:, 1])
# a closed curve sampled with uneven spacing: 2 x 6 points on a flat rectangle outline
x = np.array([0.0, 0.1, 0.2, 5.0, 5.1, 5.2, 5.2, 5.1, 5.0, 0.2, 0.1, 0.0])
y = np.array([0.0, 0.0, 0.0, 0.0, 0.0, 0.0, 1.0, 1.0, 1.0, 1.0, 1.0, 1.0])
check_sorter("uneven rectangle outline", x, y)
rng = np.random.default_rng(0)
check_sorter("20 random points", rng.random(20), rng.random(20))

assert not failures, f"points lost / not a permutation: {failures}"
print("OK")
