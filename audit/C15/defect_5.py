"""C15 defect 5: when not even the most probable cell fits into 1 - alpha (coarse
grid and/or large alpha) the enclosed region is empty, so the contour has no
boundary cells and the coordinates should be empty. Instead
HighestDensityContour crashes with
"IndexError: index -1 is out of bounds for axis 0 with size 0"
in cumsum_biggest_until (summed_flat_inds[-1] on an empty selection).
Exits non-zero on the unmodified library.
"""
import itertools
import warnings

import numpy as np

warnings.simplefilter("ignore")


def boundary_cells(contour):
    """Independent brute-force computation of the boundary cells of the
    highest density region of ``contour`` (region cells with at least one of
    their 3^n-1 neighbours outside the region or outside the grid).
    Returns (region, boundary_mask, points[N, n_dim])."""
    cc = contour.cell_center_coordinates
    p = np.array(contour.cell_averaged_joint_pdf(cc), dtype=float)
    for d in contour.deltas:
        p = p * d
    flat = p.ravel()
    order = np.argsort(flat, kind="mergesort")[::-1]
    cs = np.cumsum(flat[order])
    if cs[-1] < 1 - contour.alpha:
        region = np.ones(p.shape, bool)
    else:
        region = np.zeros(p.size, bool)
        region[order[cs <= 1 - contour.alpha]] = True
        region = region.reshape(p.shape)
    n = region.ndim
    pad = np.pad(region, 1, constant_values=False)
    interior = np.ones(region.shape, bool)
    for off in itertools.product((-1, 0, 1), repeat=n):
        sl = tuple(slice(1 + o, 1 + o + s) for o, s in zip(off, region.shape))
        interior &= pad[sl]
    boundary = region & ~interior
    idx = np.nonzero(boundary)
    pts = np.stack([cc[d][idx[d]] for d in range(n)], axis=1)
    return region, boundary, pts


def as_sorted_list(a):
    return sorted(map(tuple, np.asarray(a, dtype=float).tolist()))

from virocon import (
    GlobalHierarchicalModel,
    HighestDensityContour,
    NormalDistribution,
)

model = GlobalHierarchicalModel([
    {"distribution": NormalDistribution(5, 1)},
    {"distribution": NormalDistribution(5, 1)},
])
for alpha, delta in [(0.9, 1.0), (0.97, 0.5)]:
    contour = HighestDensityContour(
        model, alpha, limits=[(0, 10), (0, 10)], deltas=delta)
    got = contour.coordinates
    print(alpha, delta, "returned:", np.shape(got))
    assert np.size(got) == 0  # empty region -> no boundary cells
# the static helper on its own: nothing can be summed without exceeding 0.05
fields, last = HighestDensityContour.cumsum_biggest_until(
    np.array([[0.1, 0.2], [0.3, 0.4]]), 0.05)
assert not np.asarray(fields).any()
print("OK")
