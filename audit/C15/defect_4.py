"""C15 defect 4: when the enclosed region is so small that it has only one or two
boundary cells, HighestDensityContour does not return them but crashes with a
ValueError raised by sklearn.neighbors inside the line-sorting utility
("Expected n_neighbors < n_samples_fit"). The sorter itself also fails for
1- and 2-point inputs although those are trivially sortable planar point sets.
Exits non-zero on the unmodified library.
"""
import itertools
import warnings

import numpy as np

warnings.simplefilter("ignore")


def boundary_cells(contour):
    """Independent brute-force computation of the boundary cells of the
    highest density region of ``contour`` (region cells with at least one of
    their 3^n-1 neighbours outside the region or outside the grid).
    Returns (region, boundary_mask, points[N, n_dim])."""
    cc = contour.cell_center_coordinates
    p = np.array(contour.cell_averaged_joint_pdf(cc), dtype=float)
    for d in contour.deltas:
        p = p * d
    flat = p.ravel()
    order = np.argsort(flat, kind="mergesort")[::-1]
    cs = np.cumsum(flat[order])
    if cs[-1] < 1 - contour.alpha:
        region = np.ones(p.shape, bool)
    else:
        region = np.zeros(p.size, bool)
        region[order[cs <= 1 - contour.alpha]] = True
        region = region.reshape(p.shape)
    n = region.ndim
    pad = np.pad(region, 1, constant_values=False)
    interior = np.ones(region.shape, bool)
    for off in itertools.product((-1, 0, 1), repeat=n):
        sl = tuple(slice(1 + o, 1 + o + s) for o, s in zip(off, region.shape))
        interior &= pad[sl]
    boundary = region & ~interior
    idx = np.nonzero(boundary)
    pts = np.stack([cc[d][idx[d]] for d in range(n)], axis=1)
    return region, boundary, pts


def as_sorted_list(a):
    return sorted(map(tuple, np.asarray(a, dtype=float).tolist()))

from virocon import (
    GlobalHierarchicalModel,
    HighestDensityContour,
    NormalDistribution,
    sort_points_to_form_continuous_line,
)

model = GlobalHierarchicalModel([
    {"distribution": NormalDistribution(5, 1)},
    {"distribution": NormalDistribution(5, 1)},
])

# (alpha, delta): region of 1 cell and region of 2 cells
for alpha, delta in [(0.85, 1.0), (0.7, 1.0), (0.95, 0.5), (0.9, 0.5)]:
    contour = HighestDensityContour(
        model, alpha, limits=[(0, 10), (0, 10)], deltas=delta)
    region, boundary, expected = boundary_cells(contour)
    got = contour.coordinates
    print(alpha, delta, "region cells:", int(region.sum()), "returned:", np.shape(got))
    assert isinstance(got, np.ndarray) and got.shape == expected.shape
    assert as_sorted_list(got) == as_sorted_list(expected)
# sorter on 1 and 2 points
for x, y in [(np.array([1.0]), np.array([2.0])),
             (np.array([1.0, 2.0]), np.array([2.0, 2.0]))]:
    xx, yy = sort_points_to_form_continuous_line(x, y, search_for_optimal_start=True)
    assert as_sorted_list(np.c_[xx, yy]) == as_sorted_list(np.c_[x, y])
print("OK")
