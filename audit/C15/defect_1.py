"""C15 defect 1: with the DEFAULT grid (cell size = 0.25 % of each variable range,
hence anisotropic) a 2-D highest density contour loses almost all of its
boundary cells: 3 points are returned instead of ~1480.

Model: DNVGL Hs-Tz model with the parameters obtained by fitting it to the
EC benchmark dataset A (hard coded below, so no fit / data file is needed).
Exits non-zero on the unmodified library.
"""
import itertools
import warnings

import numpy as np

warnings.simplefilter("ignore")


def boundary_cells(contour):
    """Independent brute-force computation of the boundary cells of the
    highest density region of ``contour`` (region cells with at least one of
    their 3^n-1 neighbours outside the region or outside the grid).
    Returns (region, boundary_mask, points[N, n_dim])."""
    cc = contour.cell_center_coordinates
    p = np.array(contour.cell_averaged_joint_pdf(cc), dtype=float)
    for d in contour.deltas:
        p = p * d
    flat = p.ravel()
    order = np.argsort(flat, kind="mergesort")[::-1]
    cs = np.cumsum(flat[order])
    if cs[-1] < 1 - contour.alpha:
        region = np.ones(p.shape, bool)
    else:
        region = np.zeros(p.size, bool)
        region[order[cs <= 1 - contour.alpha]] = True
        region = region.reshape(p.shape)
    n = region.ndim
    pad = np.pad(region, 1, constant_values=False)
    interior = np.ones(region.shape, bool)
    for off in itertools.product((-1, 0, 1), repeat=n):
        sl = tuple(slice(1 + o, 1 + o + s) for o, s in zip(off, region.shape))
        interior &= pad[sl]
    boundary = region & ~interior
    idx = np.nonzero(boundary)
    pts = np.stack([cc[d][idx[d]] for d in range(n)], axis=1)
    return region, boundary, pts


def as_sorted_list(a):
    return sorted(map(tuple, np.asarray(a, dtype=float).tolist()))

from virocon import (
    GlobalHierarchicalModel,
    HighestDensityContour,
    calculate_alpha,
    get_DNVGL_Hs_Tz,
)

dist_descriptions, _, _ = get_DNVGL_Hs_Tz()
model = GlobalHierarchicalModel(dist_descriptions)
# Parameters of model.fit(read_ec_benchmark_dataset()) (dataset A).
d0, d1 = model.distributions
d0.alpha, d0.beta, d0.gamma = 0.9444994550028374, 1.4817665941313871, 0.09808825482229758
d1.conditional_parameters["mu"].parameters = {
    "a": 1.4954611820160248, "b": 0.18067440164002269, "c": 0.7334325401508407}
d1.conditional_parameters["sigma"].parameters = {
    "a": 7.898282133627626e-16, "b": 0.3032974802263962, "c": -0.2370073692538977}

alpha = calculate_alpha(1, 1)  # 1-year contour, 1-h sea states
contour = HighestDensityContour(model, alpha)  # default limits, default deltas
print("deltas:", list(contour.deltas))

region, boundary, expected = boundary_cells(contour)
got = contour.coordinates
print("boundary cells of the region:", len(expected))
print("returned coordinates:", np.shape(got))

assert isinstance(got, np.ndarray) and got.ndim == 2 and got.shape[1] == 2, (
    "single connected region must be returned as one (N, 2) array")
assert len(got) == len(expected), (
    f"{len(expected)} boundary cells, but only {len(got)} coordinates returned")
assert as_sorted_list(got) == as_sorted_list(expected)
print("OK")
