"""C15 defect 3: a SINGLE connected 2-D region that has a hole is returned as a
list of two coordinate sets (outer and inner boundary), not as one (N, 2)
array: the connected-component labelling is applied to the boundary cells,
not to the enclosed region.

Model: x0 ~ Normal(5, 1); x1 | x0 ~ von Mises(mu=0, kappa(x0)) on the
direction axis [0, 2 pi) with a concentration kappa that peaks at x0 = 5.
Exits non-zero on the unmodified library.
"""
import itertools
import warnings

import numpy as np

warnings.simplefilter("ignore")


def boundary_cells(contour):
    """Independent brute-force computation of the boundary cells of the
    highest density region of ``contour`` (region cells with at least one of
    their 3^n-1 neighbours outside the region or outside the grid).
    Returns (region, boundary_mask, points[N, n_dim])."""
    cc = contour.cell_center_coordinates
    p = np.array(contour.cell_averaged_joint_pdf(cc), dtype=float)
    for d in contour.deltas:
        p = p * d
    flat = p.ravel()
    order = np.argsort(flat, kind="mergesort")[::-1]
    cs = np.cumsum(flat[order])
    if cs[-1] < 1 - contour.alpha:
        region = np.ones(p.shape, bool)
    else:
        region = np.zeros(p.size, bool)
        region[order[cs <= 1 - contour.alpha]] = True
        region = region.reshape(p.shape)
    n = region.ndim
    pad = np.pad(region, 1, constant_values=False)
    interior = np.ones(region.shape, bool)
    for off in itertools.product((-1, 0, 1), repeat=n):
        sl = tuple(slice(1 + o, 1 + o + s) for o, s in zip(off, region.shape))
        interior &= pad[sl]
    boundary = region & ~interior
    idx = np.nonzero(boundary)
    pts = np.stack([cc[d][idx[d]] for d in range(n)], axis=1)
    return region, boundary, pts


def as_sorted_list(a):
    return sorted(map(tuple, np.asarray(a, dtype=float).tolist()))

import scipy.ndimage as ndi

from virocon import (
    DependenceFunction,
    GlobalHierarchicalModel,
    HighestDensityContour,
    NormalDistribution,
    VonMisesDistribution,
)


def _bump(x, a, b, c):
    return a + b * np.exp(-c * (x - 5.0) ** 2)


kappa = DependenceFunction(_bump, [(0, None), (0, None), (0, None)])
model = GlobalHierarchicalModel([
    {"distribution": NormalDistribution(5, 1)},
    {"distribution": VonMisesDistribution(f_mu=0), "conditional_on": 0,
     "parameters": {"kappa": kappa}},
])
model.distributions[1].conditional_parameters["kappa"].parameters = {
    "a": 0.05, "b": 3.0, "c": 2.0}

contour = HighestDensityContour(
    model, 0.1, limits=[(0, 10), (0, 2 * np.pi)], deltas=[0.1, 0.1])

region, boundary, expected = boundary_cells(contour)
n_regions = ndi.label(region, structure=np.ones((3, 3)))[1]
print("connected regions (8-connectivity):", n_regions)
assert n_regions == 1  # premise: one single connected region

got = contour.coordinates
print("type of coordinates:", type(got).__name__,
      "len" if isinstance(got, list) else "shape",
      len(got) if isinstance(got, list) else got.shape)
print("boundary cells of the region:", len(expected))

assert isinstance(got, np.ndarray), (
    f"one connected region, but coordinates is a {type(got).__name__} of "
    f"{len(got)} coordinate sets")
assert got.ndim == 2 and got.shape[1] == 2
assert as_sorted_list(got) == as_sorted_list(expected)
print("OK")
