"""C11 defect 2: LogNormalNormFitDistribution does not use a fixed parameter in an
evaluation that passes only the other (free) parameter - it raises RuntimeError.

Every other family uses the fixed / stored value for a parameter that is not passed,
e.g. LogNormalDistribution(f_mu=1.0).cdf(2.0, sigma=0.5).
"""
import sys

import numpy as np

from virocon.distributions import LogNormalDistribution, LogNormalNormFitDistribution

# sibling family: works, the fixed mu is used
ref_sibling = LogNormalDistribution(f_mu=1.0).cdf(2.0, sigma=0.5)
assert np.isclose(ref_sibling, LogNormalDistribution(mu=1.0, sigma=0.5).cdf(2.0))

expected = LogNormalNormFitDistribution(mu_norm=3.0, sigma_norm=0.5).cdf(2.0)
ok = True
for fixed, free in [({"f_mu_norm": 3.0}, {"sigma_norm": 0.5}), ({"f_sigma_norm": 0.5}, {"mu_norm": 3.0})]:
    dist = LogNormalNormFitDistribution(**fixed)
    for name in ["cdf", "pdf", "icdf"]:
        arg = 0.3 if name == "icdf" else 2.0
        want = getattr(LogNormalNormFitDistribution(mu_norm=3.0, sigma_norm=0.5), name)(arg)
        try:
            got = getattr(dist, name)(arg, **free)
        except Exception as e:  # noqa
            print(f"FAIL: {fixed} .{name}({arg}, **{free}) raised {type(e).__name__}: {e}")
            ok = False
            continue
        if not np.isclose(got, want, rtol=1e-12):
            print(f"FAIL: {fixed} .{name}({arg}, **{free}) = {got}, expected {want}")
            ok = False
    try:
        dist.draw_sample(3, **free, random_state=1)
    except Exception as e:  # noqa
        print(f"FAIL: {fixed} .draw_sample(3, **{free}) raised {type(e).__name__}: {e}")
        ok = False
sys.exit(0 if ok else 1)
