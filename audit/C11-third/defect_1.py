"""C11 defect 1: a ScipyDistribution subclass of scipy's vonmises with a fixed scale.

The fixed scale is written back after the fit, but the fit itself never used it:
scipy's vonmises.fit ignores ``fscale`` (it always works with scale 1 and returns 1),
so kappa and loc are estimated for scale 1 and then combined with the fixed scale.
The fitted model is far less likely than the generating parameters, although those
satisfy the same constraint (scale fixed at 2) - impossible for a maximum-likelihood
fit that honours the fixed value.
"""
import sys
import warnings

import numpy as np
import scipy.stats as sts

warnings.simplefilter("ignore")
from virocon.distributions import ScipyDistribution


class VonMisesScipy(ScipyDistribution):
    scipy_dist_name = "vonmises"


true = dict(kappa=2.0, loc=0.5, scale=2.0)
data = sts.vonmises.rvs(true["kappa"], loc=true["loc"], scale=true["scale"], size=2000, random_state=1)

dist = VonMisesScipy(f_scale=true["scale"])
assert dist.parameters["scale"] == 2.0
dist.fit(data)  # MLE
print("fitted parameters:", dist.parameters)

ok = True
if abs(dist.parameters["scale"] - 2.0) > 1e-12 * 2.0:
    print("FAIL: fixed scale changed")
    ok = False

ll_fit = np.sum(np.log(dist.pdf(data)))
ll_true = np.sum(np.log(VonMisesScipy(**true).pdf(data)))
# reference: scipy's generic MLE with the same fixed scale
ref = sts.rv_continuous.fit(sts.vonmises, data, 1, loc=0, scale=2.0, fscale=2.0)
ll_ref = np.sum(sts.vonmises.logpdf(data, *ref))
print(f"log-likelihood fitted={ll_fit:.1f}  generating parameters={ll_true:.1f}  "
      f"generic MLE with fscale=2 {tuple(float(v) for v in ref)}={ll_ref:.1f}")
# The generating parameters have scale == f_scale, so an MLE that honours the fixed
# scale cannot be (noticeably) less likely than them.
if not ll_fit >= ll_true - 1.0:
    print("FAIL: kappa and loc were estimated for scale 1, not for the fixed scale 2 "
          f"(kappa={dist.parameters['kappa']:.3f}, generating 2.0)")
    ok = False

sys.exit(0 if ok else 1)
