"""C05 defect 2: ExponentiatedWeibullDistribution breaks down where (x/alpha)**beta underflows.

F(x) = [1 - exp(-(x/alpha)**beta)]**delta.  For a large beta and delta < 1 the inner term
(x/alpha)**beta underflows to 0 for small positive x although F(x) ~ (x/alpha)**(beta*delta)
is far from 0.  Then
  * cdf(x) is 0 (e.g. alpha=1, beta=100, delta=0.01: F(x) = x to 1e-12 for x < 0.9, cdf(3e-4) = 0),
  * icdf(p) is 0 for p = 3e-4 (should be 3e-4), so icdf(cdf(x)) != x and cdf(icdf(p)) != p,
  * pdf(x) is +inf for 0 < x < 5.8e-4 * alpha (should be ~1 resp. ~0).
"""
import sys
import numpy as np
from virocon.distributions import ExponentiatedWeibullDistribution

np.seterr(all="ignore")


def log_F1(x, alpha, beta):
    # log(1 - exp(-t)), t = (x/alpha)**beta, evaluated without underflow
    log_t = beta * np.log(x / alpha)
    t = np.exp(log_t)
    with np.errstate(divide="ignore"):
        return np.where(t < 1e-300, log_t, np.log(-np.expm1(-t))), t


def formula_cdf(x, alpha, beta, delta):
    l1, _ = log_F1(x, alpha, beta)
    return np.exp(delta * l1)


def formula_pdf(x, alpha, beta, delta):
    l1, t = log_F1(x, alpha, beta)
    return np.exp(np.log(delta * beta / alpha) + (beta - 1) * np.log(x / alpha) - t + (delta - 1) * l1)


failures = []

# (a) beta * delta = 1: F(x) = x on (0, 0.9) up to 1e-12
alpha, beta, delta = 1.0, 100.0, 0.01
dist = ExponentiatedWeibullDistribution(alpha, beta, delta)
x = np.array([1e-6, 1e-4, 3e-4, 5e-4, 1e-3, 0.1])
want_cdf = formula_cdf(x, alpha, beta, delta)
got_cdf = dist.cdf(x)
print("cdf     ", got_cdf, "\nformula ", want_cdf)
if not np.allclose(got_cdf, want_cdf, rtol=1e-6, atol=0):
    failures.append(f"cdf{tuple(x)} = {got_cdf}, documented formula gives {want_cdf}")
got_pdf = dist.pdf(x)
want_pdf = formula_pdf(x, alpha, beta, delta)
print("pdf     ", got_pdf, "\nformula ", want_pdf)
if not np.allclose(got_pdf, want_pdf, rtol=1e-6, atol=0):
    failures.append(f"pdf{tuple(x)} = {got_pdf}, derivative of the documented cdf is {want_pdf}")
p = np.array([1e-6, 1e-4, 3e-4, 1e-3, 0.1])
got_icdf = dist.icdf(p)
print("icdf    ", got_icdf, " expected ~", p)
if not np.allclose(got_icdf, p, rtol=1e-6, atol=0):
    failures.append(f"icdf{tuple(p)} = {got_icdf}, expected {p} (F(x) = x here)")
if not np.allclose(dist.cdf(got_icdf), p, rtol=1e-6, atol=0):
    failures.append(f"cdf(icdf(p)) = {dist.cdf(got_icdf)} for p = {p}")

# (b) a less extreme delta: the pdf is +inf on a whole interval where the cdf is flat 0
alpha, beta, delta = 1.0, 100.0, 0.5
x = np.array([1e-4, 3e-4, 5e-4])
got = ExponentiatedWeibullDistribution().pdf(x, alpha=alpha, beta=beta, delta=delta)
want = formula_pdf(x, alpha, beta, delta)
print("pdf (delta=0.5)", got, "formula", want)
if not (np.all(np.isfinite(got)) and np.allclose(got, want, rtol=1e-6, atol=1e-250)):
    failures.append(f"alpha=1, beta=100, delta=0.5: pdf{tuple(x)} = {got}, expected {want}")
s = ExponentiatedWeibullDistribution(alpha, beta, delta).pdf(3e-4)
if not np.isfinite(s):
    failures.append(f"alpha=1, beta=100, delta=0.5: pdf(3e-4) = {s} (scalar), expected {want[1]}")

if failures:
    print("\nFAILED:")
    for f in failures:
        print("  ", f)
    sys.exit(1)
print("ok")
