"""C05 defect 4: WeibullDistribution.pdf is nan in the upper tail for a large beta.

f(x) = beta/alpha * z**(beta-1) * exp(-z**beta), z = (x-gamma)/alpha.  scipy evaluates the two
factors separately: for z > ~1290 and beta = 100, z**(beta-1) overflows to inf while the
exponential is 0 and the product is nan (the density there is 0).
"""
import sys
import numpy as np
from virocon.distributions import WeibullDistribution

np.seterr(all="ignore")
failures = []
dist = WeibullDistribution(alpha=1, beta=100, gamma=0)
x = np.array([10.0, 1000.0, 1300.0, 2000.0, 1e6])
p = dist.pdf(x)
print("pdf", x, "->", p, " cdf ->", dist.cdf(x))
if not np.array_equal(p, np.zeros_like(x)):
    failures.append(f"alpha=1, beta=100, gamma=0: pdf{tuple(x)} = {p}, expected 0 (cdf is 1 there)")
s = dist.pdf(2000.0)
if not s == 0:
    failures.append(f"pdf(2000.0) = {s}, expected 0.0")
# with a location, small scale and explicitly passed parameters
p = WeibullDistribution().pdf([3.5, 2502.5], alpha=0.001, beta=50, gamma=2.5)
print("alpha=0.001, beta=50, gamma=2.5: pdf([3.5, 2502.5]) ->", p)
if not np.array_equal(p, [0.0, 0.0]):
    failures.append(f"alpha=0.001, beta=50, gamma=2.5: pdf([3.5, 2502.5]) = {p}, expected [0, 0]")

if failures:
    print("\nFAILED:")
    for f in failures:
        print("  ", f)
    sys.exit(1)
print("ok")
