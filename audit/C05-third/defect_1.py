"""C05 defect 1: VonMisesDistribution.icdf is infinite at the ends of the support.

cdf(mu - pi) == 0 and cdf(mu + pi) == 1 exactly, the support of the distribution is
[mu - pi, mu + pi], but icdf(0) == -inf and icdf(1) == +inf, so
icdf(cdf(x)) != x for the two boundary points of the support.
"""
import sys
import numpy as np
from virocon.distributions import VonMisesDistribution

failures = []
for kappa, mu in [(2.0, 0.0), (0.5, 1.0), (2.0, 5.0)]:
    dist = VonMisesDistribution(kappa=kappa, mu=mu)
    lo, hi = mu - np.pi, mu + np.pi
    c_lo, c_hi = dist.cdf(lo), dist.cdf(hi)
    # the premises (they hold today): the cdf reaches exactly 0 and 1 at the boundary
    if not (c_lo == 0.0 and c_hi == 1.0):
        failures.append(f"kappa={kappa}, mu={mu}: cdf at the boundary is {c_lo}, {c_hi}")
    back_lo, back_hi = dist.icdf(c_lo), dist.icdf(c_hi)
    print(f"kappa={kappa} mu={mu}: icdf(cdf(mu-pi))={back_lo} (expected {lo}), "
          f"icdf(cdf(mu+pi))={back_hi} (expected {hi})")
    if not np.isclose(back_lo, lo, rtol=0, atol=1e-9):
        failures.append(f"kappa={kappa}, mu={mu}: icdf(cdf(mu-pi)) = {back_lo}, expected {lo}")
    if not np.isclose(back_hi, hi, rtol=0, atol=1e-9):
        failures.append(f"kappa={kappa}, mu={mu}: icdf(cdf(mu+pi)) = {back_hi}, expected {hi}")
    # same with explicitly passed parameters and an array of probabilities
    q = VonMisesDistribution().icdf(np.array([0.0, 0.5, 1.0]), kappa=kappa, mu=mu)
    if not np.allclose(q, [lo, mu, hi], rtol=0, atol=1e-9):
        failures.append(f"kappa={kappa}, mu={mu}: icdf([0, .5, 1]) = {q}, expected {[lo, mu, hi]}")

if failures:
    print("\nFAILED:")
    for f in failures:
        print("  ", f)
    sys.exit(1)
print("ok")
