"""C05 defect 3: for kappa >= 50 VonMisesDistribution.cdf is not the integral of its pdf.

scipy.stats.vonmises.cdf switches to a normal approximation at kappa = 50.  The cdf then
deviates from the integral of the documented density by up to 1.7e-3 (relative) in the tail and
3e-4 in the bulk, the derivative of the cdf deviates from the pdf by 3e-4, and the cdf jumps
when kappa goes from 49.999999 to 50.
"""
import sys
import numpy as np
from scipy.integrate import quad
from virocon.distributions import VonMisesDistribution

failures = []
for kappa in [50.0, 60.0, 100.0]:
    mu = 0.3
    dist = VonMisesDistribution(kappa=kappa, mu=mu)
    s = 1 / np.sqrt(kappa)
    for z in [-4, -3, -2, -1]:
        x = mu + z * s
        integral = quad(dist.pdf, mu - np.pi, x, epsabs=1e-15, epsrel=1e-13, points=[mu - 8 * s])[0]
        c = dist.cdf(x)
        rel = c / integral - 1
        print(f"kappa={kappa} x=mu{z:+d}/sqrt(kappa): cdf={c:.9e} integral of pdf={integral:.9e} rel.err={rel:.2e}")
        if abs(rel) > 1e-6:
            failures.append(f"kappa={kappa}, x={x}: cdf={c}, integral of the pdf={integral} (rel. error {rel:.2e})")
    # pdf as derivative of cdf
    x = mu + np.array([-3, -2, -1, 1, 2, 3]) * s
    h = 1e-5 * s
    num = (dist.cdf(x + h) - dist.cdf(x - h)) / (2 * h)
    rel = np.max(np.abs(num / dist.pdf(x) - 1))
    print(f"kappa={kappa}: max rel. deviation of d cdf/dx from pdf = {rel:.2e}")
    if rel > 1e-6:
        failures.append(f"kappa={kappa}: d cdf/dx deviates from pdf by {rel:.2e} (relative)")

# continuity in kappa: the same point, kappa just below and at 50
d = VonMisesDistribution()
x = -3 / np.sqrt(50)
a, b = d.cdf(x, kappa=49.999999), d.cdf(x, kappa=50.0)
print(f"cdf({x:.4f}; kappa=49.999999)={a:.9e}  cdf(...; kappa=50)={b:.9e}")
# the true change for d kappa = 1e-6 is about 1e-7 relative
if abs(b / a - 1) > 1e-5:
    failures.append(f"cdf jumps from {a} to {b} between kappa=49.999999 and kappa=50")

if failures:
    print("\nFAILED:")
    for f in failures:
        print("  ", f)
    sys.exit(1)
print("ok")
