import numpy as np
from virocon.distributions import *
np.seterr(all='ignore')
d=ExponentiatedWeibullDistribution(1,100,0.5)
print(d.pdf(3e-4), d.pdf([1e-4,3e-4,5e-4,6e-4,1e-3]), d.cdf([3e-4,6e-4]))
d=ExponentiatedWeibullDistribution(1,100,0.01)
x=np.array([1e-6,1e-4,3e-4,5e-4,6e-4,1e-3,.1])
print(d.cdf(x), d.pdf(x), d.icdf([1e-6,1e-4,3e-4,6e-4,1e-3,.1]))
d=ExponentiatedWeibullDistribution(2,20,0.05)
print(d.cdf([1e-17,1e-16,1e-10]),d.pdf([1e-17,1e-16,1e-10]))
d=ExponentiatedWeibullDistribution(100,50,0.02)
x=np.array([1e-6,1e-5,3e-5,1e-4,1e-2])
print(d.cdf(x),d.pdf(x),d.icdf([1e-8,1e-7,1e-6]))
w=WeibullDistribution(1,100,0)
print(w.pdf([100,1000,1290,1300,2000,1e6]), w.pdf(2000.), w.cdf(2000.))
w=WeibullDistribution(0.001,50,0)
print(w.pdf([100,1000,1290,1300,2000,1e6]))
from scipy.integrate import quad
print(quad(ExponentiatedWeibullDistribution(1,100,0.5).pdf,0,2))
