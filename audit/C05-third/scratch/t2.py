import numpy as np, itertools, warnings
import scipy.special as sc
from scipy.special import ndtr
from virocon.distributions import *
from virocon.distributions import LogNormalNormFitDistribution
np.seterr(all='ignore')
mags=[1e-3,1e-2,0.1,1,10,100,1e3]
shp=[0.05,0.2,0.5,1,2,5,20,100]
ps=np.array([1e-6,1e-3,0.01,0.1,0.3,0.5,0.7,0.9,0.99,0.999])
def rel(a,b): 
    a=np.asarray(a,float);b=np.asarray(b,float)
    return np.max(np.abs(a-b)/np.maximum(np.abs(b),1e-300))
def check(name, d, theta, formula_cdf=None, tol=1e-7, loc=0):
    x=d.icdf(ps)
    ok=np.isfinite(x)&(np.abs(x)<1e100)&((np.abs(x-loc)>1e-100))
    if ok.sum()<3: return
    P=ps[ok]; x=x[ok]
    bad=[]
    c=d.cdf(x)
    if rel(c,P)>tol: bad.append(('cdf(icdf(p))',rel(c,P)))
    x2=d.icdf(c)
    if rel(x2,x)>tol: bad.append(('icdf(cdf(x))',rel(x2,x)))
    if np.any(np.diff(c)<0): bad.append('nonmono')
    h=np.abs(x-loc)*1e-6
    num=(d.cdf(x+h)-d.cdf(x-h))/(2*h)
    p=d.pdf(x)
    if np.any(p<0): bad.append('pdf neg')
    r=rel(p[1:-1],num[1:-1])
    if r>1e-3: bad.append(('pdf vs dcdf',r,p,num,x))
    if formula_cdf is not None:
        f=formula_cdf(x)
        if rel(c,f)>tol: bad.append(('formula',rel(c,f)))
    if bad: print(name,theta,bad)
for a,b,d_ in itertools.product(mags,shp,shp):
    D=ExponentiatedWeibullDistribution(a,b,d_)
    check('EW',D,(a,b,d_), lambda x:(-np.expm1(-(x/a)**b))**d_)
print('EW done')
for a,b,g in itertools.product(mags,shp,[0,-5,3.3,1000,-1e-3]):
    if abs(g)>10*a: continue
    D=WeibullDistribution(a,b,g)
    check('W',D,(a,b,g), lambda x:-np.expm1(-((x-g)/a)**b), tol=1e-6 if g else 1e-7, loc=g)
print('W done')
for mu,s in itertools.product([-100,-10,-1,-0.01,0,0.01,1,10,100],mags):
    check('LN',LogNormalDistribution(mu,s),(mu,s), lambda x: ndtr((np.log(x)-mu)/s))
    check('N',NormalDistribution(mu,s),(mu,s), lambda x: ndtr((x-mu)/s),loc=mu) if abs(mu)<=10*s else None
print('LN N done')
for m,c,l in itertools.product(shp,shp,mags):
    check('GG',GeneralizedGammaDistribution(m,c,l),(m,c,l), lambda x: sc.gammainc(m,(l*x)**c))
print('GG done')
for k,mu in itertools.product([1e-3,1e-2,0.1,1,10,49,51,100,1e3,1e4],[0,-3,1,5,10,100]):
    check('VM',VonMisesDistribution(k,mu),(k,mu),loc=mu,tol=1e-6)
print('VM done')
import scipy.stats as sts
for m,s in itertools.product(mags,mags):
    D=LogNormalNormFitDistribution(m,s)
    check('LNNF',D,(m,s))
    sig,_,scale=D._get_scipy_parameters(None,None)
    mean=np.exp(np.log(scale)+sig**2/2); var=np.expm1(sig**2)*mean**2
    if abs(mean/m-1)>1e-9 or abs(np.sqrt(var)/s-1)>1e-9: print('LNNF moments',m,s,mean,np.sqrt(var))
print('LNNF done')
