import numpy as np
from virocon.distributions import *
from virocon.distributions import LogNormalNormFitDistribution
np.seterr(all='ignore')
pi=np.pi
for mu in [0,1,5,-7]:
    d=VonMisesDistribution(2,mu)
    print('VM mu',mu,'icdf(0,1)',d.icdf([0,1]),'cdf(mu-pi),cdf(mu+pi)',d.cdf([mu-pi,mu+pi]), 'icdf(cdf(mu-pi))',d.icdf(d.cdf(mu-pi)), d.icdf(d.cdf(mu+pi)), 'icdf(.5)',d.icdf(0.5))
    xs=np.linspace(mu-pi,mu+pi,11)
    print('   roundtrip err',np.max(np.abs(d.icdf(d.cdf(xs))-xs)[1:-1]))
print('GG pdf(0) m=1,c=1,l=2 ->',GeneralizedGammaDistribution(1,1,2).pdf(0), GeneralizedGammaDistribution(1,1,2).pdf([0,0.0]), 'm=.5,c=2',GeneralizedGammaDistribution(.5,2,2).pdf(0),'m=2,c=.5',GeneralizedGammaDistribution(2,.5,2).pdf(0), 'm=.5 c=1',GeneralizedGammaDistribution(.5,1,2).pdf(0), 'm=3,c=1',GeneralizedGammaDistribution(3,1,2).pdf(0))
print('W pdf(gamma)',WeibullDistribution(2,1,3).pdf(3),WeibullDistribution(2,.5,3).pdf(3),WeibullDistribution(2,2,3).pdf(3), WeibullDistribution(2,1,3).pdf(2.999))
print('EW pdf(0)',ExponentiatedWeibullDistribution(2,1,1).pdf(0),ExponentiatedWeibullDistribution(2,1,1).pdf(0.0), ExponentiatedWeibullDistribution(2,1,1).pdf([0,1e-300,-1,1]))
print('LN',LogNormalDistribution(1,2).pdf([0,-1,1]),LogNormalDistribution(1,2).cdf([0,-1,1,np.inf]),LogNormalDistribution(1,2).icdf([0,1]))
print('N',NormalDistribution(1,2).icdf([0,1]))
print('W icdf',WeibullDistribution(2,1.5,3).icdf([0,1]), 'EW',ExponentiatedWeibullDistribution(2,1.5,3).icdf([0,1]),'GG',GeneralizedGammaDistribution(2,1.5,3).icdf([0,1]))
print('cdf at inf/-inf')
for d in [WeibullDistribution(2,1.5,3),ExponentiatedWeibullDistribution(2,1.5,3),GeneralizedGammaDistribution(2,1.5,3),LogNormalDistribution(1,2),NormalDistribution(1,2),VonMisesDistribution(1,2),LogNormalNormFitDistribution(2,3)]:
    print(type(d).__name__, d.cdf([-np.inf,np.inf]), d.pdf([-np.inf,np.inf]), d.cdf(-np.inf), d.pdf(np.inf))
