import numpy as np, itertools, warnings
import scipy.special as sc
from virocon.distributions import *
from virocon.distributions import LogNormalNormFitDistribution
import virocon; print(virocon.__file__)
np.seterr(all='ignore')
mags=[1e-3,1e-2,0.1,1,10,100,1e3]
ps=np.array([1e-6,1e-3,0.01,0.1,0.3,0.5,0.7,0.9,0.99,0.999])
def rel(a,b): 
    a=np.asarray(a,float);b=np.asarray(b,float)
    return np.max(np.abs(a-b)/np.maximum(np.abs(b),1e-300))
def check(name, d, theta, formula_cdf=None):
    x=d.icdf(ps)
    bad=[]
    if not np.all(np.isfinite(x)): bad.append(('icdf nonfinite',x))
    c=d.cdf(x)
    if rel(c,ps)>1e-8: bad.append(('cdf(icdf(p))',rel(c,ps)))
    x2=d.icdf(c)
    if rel(x2,x)>1e-8: bad.append(('icdf(cdf(x))',rel(x2,x)))
    if np.any(np.diff(c)<0): bad.append('nonmono')
    # pdf as derivative
    h=np.abs(x)*1e-6+1e-300
    num=(d.cdf(x+h)-d.cdf(x-h))/(2*h)
    p=d.pdf(x)
    if np.any(p<0): bad.append('pdf neg')
    r=rel(p[1:-1],num[1:-1])
    if r>1e-3: bad.append(('pdf vs dcdf',r,p,num))
    if formula_cdf is not None:
        f=formula_cdf(x)
        if rel(c,f)>1e-8: bad.append(('formula',rel(c,f)))
    if bad: print(name,theta,bad)
for a,b,d_ in itertools.product(mags,mags,mags):
    D=ExponentiatedWeibullDistribution(a,b,d_)
    check('EW',D,(a,b,d_), lambda x:(-np.expm1(-(x/a)**b))**d_)
print('EW done')
for a,b,g in itertools.product(mags,mags,[0,-5,3.3,1000,-1e-3]):
    D=WeibullDistribution(a,b,g)
    check('W',D,(a,b,g), lambda x:-np.expm1(-((x-g)/a)**b))
print('W done')
from scipy.special import ndtr
for mu,s in itertools.product([-100,-10,-1,-0.01,0,0.01,1,10,100],mags):
    check('LN',LogNormalDistribution(mu,s),(mu,s), lambda x: ndtr((np.log(x)-mu)/s))
    check('N',NormalDistribution(mu,s),(mu,s), lambda x: ndtr((x-mu)/s))
print('LN N done')
for m,c,l in itertools.product(mags,mags,mags):
    check('GG',GeneralizedGammaDistribution(m,c,l),(m,c,l), lambda x: sc.gammainc(m,(l*x)**c))
print('GG done')
