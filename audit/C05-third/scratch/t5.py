import numpy as np, itertools
import scipy.stats as sts
from virocon.distributions import ScipyDistribution
np.seterr(all='ignore')
def mk(name, byname=True):
    if byname:
        return type(name.capitalize()+'D',(ScipyDistribution,),{'scipy_dist_name':name})
    return type(name.capitalize()+'D',(ScipyDistribution,),{'scipy_dist':getattr(sts,name)})
def same(a,b):
    a=np.asarray(a);b=np.asarray(b)
    return a.shape==b.shape and np.array_equal(a,b,equal_nan=True)
cases={'weibull_min':[1.7,0.5,2.0],'norm':[0.5,2.0],'gamma':[2.2,0.5,2.],'beta':[2.,3.,0.5,2.],'exponweib':[2.,3.,0.5,2.],'genextreme':[0.2,.5,2.],'lognorm':[.7,0.5,2.],'t':[4.,.5,2.],'vonmises':[2.,.5,1.],'truncnorm':[-1.,2.,0.5,2.],'uniform':[.5,2.],'gengamma':[2.,1.5,0.5,2.],'rayleigh':[0.5,2.],'gumbel_r':[.5,2.],'burr12':[2.,3.,.5,2.],'johnsonsu':[1.,2.,.5,2.],'skewnorm':[3.,.5,2.], 'ncx2':[3.,2.,0.5,2.], 'levy_stable':None}
xs=[1.3,[0.7,1.3,2.9,-4,0.5],np.array([1,2,3])]
for name,th in cases.items():
    if th is None: continue
    for byname in (True,False):
        C=mk(name,byname)
        try:
            d0=C()
        except Exception as e:
            print('construct fail',name,repr(e)); continue
        names=d0._param_names
        assert len(names)==len(th),(names,th)
        full=C(*th); fullk=C(**dict(zip(names,th))); fullf=C(**{'f_'+k:v for k,v in zip(names,th)})
        assert full.parameters==fullk.parameters==fullf.parameters==dict(zip(names,th)),(full.parameters,fullk.parameters,fullf.parameters)
        for meth,sm in [('cdf','cdf'),('pdf','pdf'),('icdf','ppf')]:
            for x in xs:
                xx=x
                if meth=='icdf': xx=np.clip(np.abs(np.asarray(x,float))/5,0,1)
                ref=getattr(getattr(sts,name),sm)(xx,*th)
                for d in (full,fullk,fullf):
                    if not same(getattr(d,meth)(xx),ref): print('DIFF inst',name,meth,x)
                for r in range(1,len(th)+1):
                    for idx in itertools.combinations(range(len(th)),r):
                        other=[v if i in idx else v*1.2+0.05 for i,v in enumerate(th)]
                        want=getattr(getattr(sts,name),sm)(xx,*[th[i] if i in idx else other[i] for i in range(len(th))])
                        inst=C(*other)
                        got=getattr(inst,meth)(xx,**{names[i]:th[i] for i in idx})
                        if not same(got,want): print('DIFF kw',name,meth,x,idx,got,want)
                        got=getattr(inst,meth)(xx,*[th[i] if i in idx else None for i in range(len(th))])
                        if not same(got,want): print('DIFF pos',name,meth,x,idx,got,want)
                        got=getattr(inst,meth)(xx,**{names[i]:(th[i] if i in idx else None) for i in range(len(th))})
                        if not same(got,want): print('DIFF kwNone',name,meth,x,idx,got,want)
print('done')
