import numpy as np, itertools
from virocon.distributions import *
from virocon.distributions import LogNormalNormFitDistribution
fams={WeibullDistribution:dict(alpha=2.5,beta=1.7,gamma=0.6),
LogNormalDistribution:dict(mu=0.7,sigma=0.4),
NormalDistribution:dict(mu=0.7,sigma=0.4),
ExponentiatedWeibullDistribution:dict(alpha=2.5,beta=1.7,delta=0.6),
GeneralizedGammaDistribution:dict(m=2.5,c=1.7,lambda_=0.6),
VonMisesDistribution:dict(kappa=2.5,mu=0.7),
LogNormalNormFitDistribution:dict(mu_norm=2.5,sigma_norm=.7)}
for cls,th in fams.items():
    ref=cls(**th).draw_sample(5,random_state=3)
    for r in range(1,len(th)+1):
        for names in itertools.combinations(th,r):
            if cls is LogNormalNormFitDistribution and r==1: continue
            other={k:(v if k in names else v*1.37+0.1) for k,v in th.items()}
            got=cls(**other).draw_sample(5,**{k:th[k] for k in names},random_state=3)
            want=cls(**{**other,**{k:th[k] for k in names}}).draw_sample(5,random_state=3)
            if not np.array_equal(got,want): print('DIFF',cls.__name__,names)
    # ints as parameters
    ith={k:int(round(v))+1 for k,v in th.items()}
    a=cls(**ith); b=cls(**{k:float(v) for k,v in ith.items()})
    for m,x in [('cdf',1.5),('pdf',1.5),('icdf',.3),('cdf',[1,2]),('pdf',[1,2])]:
        if not np.array_equal(getattr(a,m)(x),getattr(b,m)(x)): print('INT DIFF',cls.__name__,m,getattr(a,m)(x),getattr(b,m)(x))
        ia={k:np.int64(v) for k,v in ith.items()}
        if not np.array_equal(getattr(cls(),m)(x,**ia),getattr(b,m)(x)): print('NPINT DIFF',cls.__name__,m)
        ia={k:np.array([v,v]) for k,v in ith.items()}
        xx=x if np.ndim(x) else [x,x]
        g=getattr(cls(),m)(xx,**ia); w=getattr(b,m)(xx)
        if not np.array_equal(g,w): print('INTARR DIFF',cls.__name__,m,g,w)
print('done')
