import numpy as np
import scipy.stats as sts
from virocon.distributions import ScipyDistribution
attrs=set(dir(ScipyDistribution))
for name in sorted(n for n in dir(sts) if isinstance(getattr(sts,n),sts.rv_continuous)):
    C=type('X',(ScipyDistribution,),{'scipy_dist_name':name})
    try:
        d=C()
    except Exception as e:
        print(name,'ERR',repr(e)); continue
    coll=[p for p in d._param_names if p in attrs or p.startswith('f_')]
    if coll: print(name,'collision',coll)
    if d.scipy_dist_name!=name: print(name,'->',d.scipy_dist_name)
