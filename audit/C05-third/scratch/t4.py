import numpy as np, itertools
from virocon.distributions import *
from virocon.distributions import LogNormalNormFitDistribution
np.seterr(all='ignore')
fams={WeibullDistribution:dict(alpha=2.5,beta=1.7,gamma=0.6),
LogNormalDistribution:dict(mu=0.7,sigma=0.4),
NormalDistribution:dict(mu=0.7,sigma=0.4),
ExponentiatedWeibullDistribution:dict(alpha=2.5,beta=1.7,delta=0.6),
GeneralizedGammaDistribution:dict(m=2.5,c=1.7,lambda_=0.6),
VonMisesDistribution:dict(kappa=2.5,mu=0.7)}
xs=[1.3, 2, -1, 0, [0.5,1.3,-2,0,4],[1,2,3],np.array([1,2,3]),np.array([0.2,3.3]), np.float32(1.5), np.array([1.5,2.5],dtype=np.float32), np.int64(2), True, (1.0,2.0)]
def same(a,b):
    a=np.asarray(a);b=np.asarray(b)
    return a.shape==b.shape and np.array_equal(a,b,equal_nan=True)
for cls,th in fams.items():
    full=cls(**th)
    for meth in ['cdf','pdf','icdf']:
        for x in xs:
            xx=x
            if meth=='icdf':
                xx=np.clip(np.asarray(x,dtype=float)/5,0,1); 
                if isinstance(x,list): xx=list(xx)
                elif np.ndim(x)==0: xx=float(xx)
            try:
                ref=getattr(full,meth)(xx)
            except Exception as e:
                print('ERR ref',cls.__name__,meth,x,repr(e)); continue
            for r in range(1,len(th)+1):
                for names in itertools.combinations(th,r):
                    other={k:(v if k in names else v*1.37+0.1) for k,v in th.items()}
                    inst=cls(**other)
                    try:
                        got=getattr(inst,meth)(xx,**{k:th[k] for k in names})
                        want=getattr(cls(**{**other,**{k:th[k] for k in names}}),meth)(xx)
                    except Exception as e:
                        print('ERR',cls.__name__,meth,x,names,repr(e)); continue
                    if not same(got,want): print('DIFF',cls.__name__,meth,x,names,got,want)
                    # f_ fixed instance
                    inst2=cls(**{('f_'+k):v for k,v in th.items()})
                    if not same(getattr(inst2,meth)(xx),ref): print('DIFF fixed',cls.__name__,meth,x)
                    # positional
            pos=getattr(cls(),meth)(xx,*th.values())
            if not same(pos,ref): print('DIFF pos',cls.__name__,meth,x,pos,ref)
            # list vs array
            if isinstance(x,list):
                a=getattr(full,meth)(np.asarray(xx))
                if not same(a,ref): print('DIFF list/arr',cls.__name__,meth,x,a,ref)
                for i,xi in enumerate(xx):
                    s=getattr(full,meth)(xi)
                    if not (np.ndim(s)==0 and (s==ref[i] or (np.isnan(s) and np.isnan(ref[i])))): print('DIFF scalar/elem',cls.__name__,meth,xi,repr(s),ref[i])
print('done')
