import numpy as np
from scipy.integrate import quad
from virocon.distributions import *
for k in [49.9,50,60,100,500]:
    d=VonMisesDistribution(k,0)
    s=1/np.sqrt(k)
    errs=[]
    for z in [-4,-3,-2,-1,-.5,.5,1,2]:
        x=z*s
        I=quad(lambda t:d.pdf(t),-np.pi,x,epsabs=1e-15,epsrel=1e-13,points=[-6*s] if x>-6*s else None)[0]
        errs.append((z,d.cdf(x),I,d.cdf(x)/I-1))
    print(k,[ (z,f'{c:.6e}',f'{r:.2e}') for z,c,I,r in errs])
