import numpy as np, itertools
import scipy.special as sc
from virocon.distributions import *
np.seterr(all='ignore')
mags=[1e-3,1e-2,0.1,1,10,100,1e3]
shp=[0.05,0.2,0.5,1,2,5,20,100]
rx=np.array([1e-12,1e-8,1e-4,1e-2,0.1,0.5,1,2,5,10,100,1e4])
def cmp(tag,th,xs,got,true,tol=1e-7):
    bad=~(np.abs(got-true)<=tol*np.abs(true)+1e-280)
    bad&=~(np.isinf(got)&np.isinf(true))
    for i in np.nonzero(bad)[0]: print(tag,th,xs[i],got[i],true[i])
    return bad.sum()
n=0
for a,b,g in itertools.product(mags,shp,[0,2.5,-2.5]):
    D=WeibullDistribution(a,b,g); z=rx; xs=g+a*z
    z=(xs-g)/a
    t=z**b
    n+=cmp('Wpdf',(a,b,g),xs,D.pdf(xs),np.exp(np.log(b/a)+(b-1)*np.log(z)-t))
    n+=cmp('Wcdf',(a,b,g),xs,D.cdf(xs),-np.expm1(-t))
for m,c,l in itertools.product(shp,shp,mags):
    D=GeneralizedGammaDistribution(m,c,l); xs=rx/l
    z=l*xs
    n+=cmp('GGpdf',(m,c,l),xs,D.pdf(xs),np.exp(np.log(c*l)+(c*m-1)*np.log(z)-z**c-sc.gammaln(m)))
    n+=cmp('GGcdf',(m,c,l),xs,D.cdf(xs),sc.gammainc(m,z**c))
for mu,s in itertools.product([-100,-10,-1,0,1,10,100],mags):
    D=LogNormalDistribution(mu,s); 
    zz=np.array([-30,-8,-4,-2,-1,0,1,2,4,8,30.])
    xs=np.exp(mu+s*zz); 
    z=(np.log(xs)-mu)/s
    n+=cmp('LNpdf',(mu,s),xs,D.pdf(xs),np.exp(-z**2/2-np.log(xs*s*np.sqrt(2*np.pi))),1e-6)
    n+=cmp('LNcdf',(mu,s),xs,D.cdf(xs),sc.ndtr(z),1e-6)
print(n)
