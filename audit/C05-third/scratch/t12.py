import numpy as np, itertools
import scipy.stats as sts
from virocon.distributions import *
np.seterr(all='ignore')
mags=[1e-3,1e-2,0.1,1,10,100,1e3]
shp=[0.05,0.2,0.5,1,2,5,20,100]
def logF1(x,a,b):  # log(1-exp(-t))
    lt=b*np.log(x/a); t=np.exp(lt)
    return np.where(t<1e-300, lt, np.log(-np.expm1(-t))), t
def true_logpdf(x,a,b,d):
    l1,t=logF1(x,a,b)
    return np.log(d*b/a)+(b-1)*np.log(x/a)-t+(d-1)*l1
def true_logcdf(x,a,b,d):
    l1,t=logF1(x,a,b); return d*l1
n=0
for a,b,d in itertools.product(mags,shp,shp):
    D=ExponentiatedWeibullDistribution(a,b,d)
    xs=a*np.array([1e-12,1e-8,1e-4,1e-2,0.1,0.5,1,2,5,10,100])
    raw=sts.exponweib.pdf(xs,d,b,0,a)
    p=D.pdf(xs); c=D.cdf(xs)
    tp=np.exp(true_logpdf(xs,a,b,d)); tc=np.exp(true_logcdf(xs,a,b,d))
    for i,x in enumerate(xs):
        if not (abs(p[i]-tp[i])<=1e-7*abs(tp[i])+1e-290) :
            n+=1
            if a==1: print('pdf',(a,b,d),x,p[i],tp[i],raw[i])
        if not (abs(c[i]-tc[i])<=1e-7*abs(tc[i])+1e-290):
            n+=1
            if a==1: print('cdf',(a,b,d),x,c[i],tc[i])
print(n)
