import numpy as np
from scipy.special import ndtr
from virocon.distributions import *
from virocon.distributions import LogNormalNormFitDistribution
np.seterr(all='ignore')
for mu,s,x in [(750,50,1e300),(-750,50,1e-300),(720,10,1e305),(-745.2,20,1e-310), (-740,20,1e-300)]:
    d=LogNormalDistribution(mu,s)
    print(mu,s,x,'cdf',d.cdf(x),'expected',ndtr((np.log(x)-mu)/s),'pdf',d.pdf(x),'icdf(.01)',d.icdf(0.01), np.exp(mu+s*-2.326))
# LNNF extremes
for m,s in [(1e-160,1e-160),(1e160,1e160),(1e-5,1e5),(1e5,1e-5),(1e-150,1e-150)]:
    try:
        d=LogNormalNormFitDistribution(m,s); print(m,s,d.mu,d.sigma,d.icdf(.5), 'expected median',m/np.sqrt(2))
    except Exception as e: print(m,s,repr(e))
