# simulate the suggested fixes by monkeypatching (library sources untouched), then run a defect script
import sys, runpy
import numpy as np, scipy.stats as sts
from scipy.special import ive
import virocon.distributions as D
np.seterr(all='ignore')
# --- VonMises: icdf boundary + series cdf
def vm_cdf(self,x,kappa=None,mu=None):
    k,loc=self._get_scipy_parameters(kappa,mu)
    x=np.asarray(x,dtype=float); 
    k_=np.broadcast_to(np.asarray(k,float),x.shape); 
    out=np.asarray(sts.vonmises.cdf(x,k,loc),dtype=float).copy()
    it=np.nditer([x,k_,np.broadcast_to(np.asarray(loc,float),x.shape)],flags=['multi_index']) if x.ndim else None
    def one(xv,kv,lv):
        if kv<50: return sts.vonmises.cdf(xv,kv,lv)
        z=xv-lv; n=np.round(z/(2*np.pi)); z=z-2*np.pi*n
        j=np.arange(1,int(10*np.sqrt(kv))+31)
        return n+0.5+z/(2*np.pi)+np.sum(ive(j,kv)/ive(0,kv)*np.sin(j*z)/j)/np.pi
    if x.ndim==0: return np.float64(one(float(x),float(k),float(loc)))
    for idx in np.ndindex(x.shape):
        out[idx]=one(x[idx],k_[idx],np.broadcast_to(np.asarray(loc,float),x.shape)[idx])
    return out
def vm_icdf(self,prob,kappa=None,mu=None):
    k,loc=self._get_scipy_parameters(kappa,mu)
    q=sts.vonmises.ppf(prob,k,loc)
    return np.clip(q,loc-np.pi,loc+np.pi)
D.VonMisesDistribution.cdf=vm_cdf; D.VonMisesDistribution.icdf=vm_icdf
# --- EW in log space
def _l1(x,a,b):
    lt=b*np.log(x/a); t=np.exp(lt)
    return np.where(t<1e-300,lt,np.log(-np.expm1(-t))),t
def ew_cdf(self,x,alpha=None,beta=None,delta=None):
    d,b,_,a=self._get_scipy_parameters(alpha,beta,delta)
    x=np.asarray(x,dtype=float); xp=np.where(x>0,x,np.nan)
    l1,t=_l1(xp,a,b); r=np.exp(d*l1); r=np.where(x>0,r,0.0)
    return r if r.ndim else np.float64(r)
def ew_pdf(self,x,alpha=None,beta=None,delta=None):
    d,b,_,a=self._get_scipy_parameters(alpha,beta,delta)
    x=np.asarray(x,dtype=float); xp=np.where(x>0,x,np.nan)
    l1,t=_l1(xp,a,b); r=np.exp(np.log(d*b/a)+(b-1)*np.log(xp/a)-t+(d-1)*l1); r=np.where(x>0,r,0.0)
    return r if r.ndim else np.float64(r)
def ew_icdf(self,prob,alpha=None,beta=None,delta=None):
    d,b,_,a=self._get_scipy_parameters(alpha,beta,delta)
    p=np.asarray(prob,dtype=float)
    lq=np.log(p)/d            # log(1-exp(-t))
    q=np.exp(lq)
    lt=np.where(q<1e-300,lq,np.log(-np.log1p(-q)))
    return a*np.exp(lt/b)
D.ExponentiatedWeibullDistribution.cdf=ew_cdf;D.ExponentiatedWeibullDistribution.pdf=ew_pdf;D.ExponentiatedWeibullDistribution.icdf=ew_icdf
# --- Weibull pdf through logpdf
def w_pdf(self,x,alpha=None,beta=None,gamma=None):
    return np.exp(sts.weibull_min.logpdf(x,*self._get_scipy_parameters(alpha,beta,gamma)))
D.WeibullDistribution.pdf=w_pdf
runpy.run_path(sys.argv[1],run_name='__main__')
