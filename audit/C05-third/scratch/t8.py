import numpy as np
from virocon.distributions import *
np.seterr(all='ignore')
for k in [0.5,10,30,49.9,50,50.1,60,100,500,1e3,1e4,1e5,1e6]:
    d=VonMisesDistribution(k,0.3)
    s=1/np.sqrt(k) if k>1 else 1
    x=0.3+np.linspace(-3,3,13)*min(s,1)
    h=1e-5*min(s,1)
    num=(d.cdf(x+h)-d.cdf(x-h))/(2*h)
    p=d.pdf(x)
    c=d.cdf(x)
    print(k,'max rel pdf err',np.max(np.abs(num/p-1)), 'mono',np.all(np.diff(c)>=0),'roundtrip',np.max(np.abs(d.icdf(c)-x)), 'cdf sym',np.max(np.abs(c+c[::-1]-1)))
# monotonic fine grid
for k in [49,50,51,200,1e4]:
    d=VonMisesDistribution(k,0)
    x=np.linspace(-np.pi,np.pi,200001)
    c=d.cdf(x)
    print(k,'min diff',np.min(np.diff(c)),c[0],c[-1])
