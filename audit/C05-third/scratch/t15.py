import numpy as np
from scipy.special import ive
from scipy.integrate import quad
import scipy.stats as sts
def vm_cdf(x,k):
    n=int(10*np.sqrt(k))+30
    j=np.arange(1,n+1)
    r=ive(j,k)/ive(0,k)
    return 0.5+x/(2*np.pi)+np.sum(r*np.sin(j*x)/j)/np.pi
for k in [10,49,50,100,1000]:
    s=1/np.sqrt(k)
    for z in [-4,-2,-.5,1,3]:
        x=z*s
        I=quad(lambda t:sts.vonmises.pdf(t,k),-np.pi,x,epsabs=1e-15,epsrel=1e-13,points=[-8*s])[0]
        print(k,z,vm_cdf(x,k)/I-1, sts.vonmises.cdf(x,k)/I-1)
