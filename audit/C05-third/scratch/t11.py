import numpy as np
from virocon.distributions import *
np.seterr(all='ignore')
for k in [0,1e-12,1e-6,1e8,1e12]:
    d=VonMisesDistribution(k,1.0)
    x=np.array([1-3,1-1,1,1.0001,2,4])
    print(k,d.pdf(x),d.cdf(x),d.icdf([.01,.25,.5,.75,.99]))
