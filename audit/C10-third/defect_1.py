"""C10: an empty data vector makes WidthOfIntervalSlicer / NumberOfIntervalsSlicer
raise ValueError instead of the promised RuntimeError (no interval remains)."""
import sys
import numpy as np
from virocon.intervals import WidthOfIntervalSlicer, NumberOfIntervalsSlicer

empty = np.array([], dtype=float)
cases = {
    "WidthOfIntervalSlicer(1)": WidthOfIntervalSlicer(1),
    "WidthOfIntervalSlicer(1, value_range=(1, None))": WidthOfIntervalSlicer(
        1, value_range=(1, None)
    ),
    "NumberOfIntervalsSlicer(3)": NumberOfIntervalsSlicer(3),
    # reference cases that already behave as the property says
    "WidthOfIntervalSlicer(1, value_range=(0, 3))": WidthOfIntervalSlicer(
        1, value_range=(0, 3)
    ),
    "NumberOfIntervalsSlicer(3, value_range=(0, 3))": NumberOfIntervalsSlicer(
        3, value_range=(0, 3)
    ),
}
bad = 0
for label, slicer in cases.items():
    try:
        result = slicer.slice_(empty)
        print(f"{label}: returned {result} (expected RuntimeError)")
        bad += 1
    except RuntimeError as e:
        print(f"{label}: RuntimeError as promised ({e})")
    except Exception as e:  # noqa
        print(f"{label}: WRONG exception {type(e).__name__}: {e}")
        bad += 1
sys.exit(1 if bad else 0)
