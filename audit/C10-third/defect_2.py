"""C10: float32 data - the largest observation belongs to no interval of
WidthOfIntervalSlicer, because `np.max(data) + width` is evaluated in float32
and the width is absorbed."""
import sys
import numpy as np
from virocon.intervals import WidthOfIntervalSlicer

bad = 0
for data, width, lower in [
    (np.array([16777212, 16777214, 16777216], dtype=np.float32), 1, 16777210),
    (np.array([2097151.0, 2097151.5, 2097152.0], dtype=np.float32), 0.1, 2097150),
]:
    slicer = WidthOfIntervalSlicer(
        width, value_range=(lower, None), min_n_points=0, min_n_intervals=0
    )
    masks, refs, bounds = slicer.slice_(data)
    membership = np.array(masks).reshape(len(masks), len(data)).sum(axis=0)
    print("data", data, "width", width, "lower limit", lower)
    print("  number of intervals:", len(masks), " last boundary:", bounds[-1])
    print("  intervals per observation:", membership)
    # all observations lie in [lower limit, max(data)], the covered range
    if not np.all(membership == 1):
        print("  -> observation(s)", data[membership != 1], "in no / several intervals")
        bad += 1
    # same values as float64 are sliced correctly
    m64 = np.array(slicer.slice_(data.astype(np.float64))[0]).sum(axis=0)
    print("  same values as float64:", m64)
sys.exit(1 if bad else 0)
