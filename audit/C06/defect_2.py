"""C06 defect 2: cdf / marginal_pdf / marginal_cdf integrate from 0 instead of over the
whole lower-left orthant / the whole range of the other variables.

The lower integration limit is hard-coded to 0 (MultivariateModel.cdf:
lower_integration_limits = [0] * n_dim; marginal_pdf / marginal_cdf: limit = (0, np.inf)
and (0, x_i)).  For every model containing a variable with probability mass below 0
(NormalDistribution, VonMisesDistribution, WeibullDistribution with gamma < 0,
ScipyDistribution with loc < 0 -- all shipped by virocon) the joint cdf is not the
integral of the pdf over the lower-left orthant and the marginals of a conditional
variable neither agree with the joint density nor with marginal_icdf.
"""
import warnings; warnings.simplefilter("ignore")
import numpy as np
import scipy.stats as sts
from virocon import GlobalHierarchicalModel, NormalDistribution, DependenceFunction


def _linear(x, a=0.0, b=1.0):
    return a + b * x


def _const(x, a=1.0):
    return a + 0 * x


# X0 ~ N(0, 1),  X1 | X0 ~ N(mu = X0, sigma = 1)   =>  X1 ~ N(0, sqrt(2)), corr = 1/sqrt(2)
m = GlobalHierarchicalModel([
    {"distribution": NormalDistribution(mu=0, sigma=1)},
    {"distribution": NormalDistribution(), "conditional_on": 0,
     "parameters": {"mu": DependenceFunction(_linear), "sigma": DependenceFunction(_const)}},
])

errors = []

# joint cdf: P(X0 <= 0, X1 <= 0) = 1/4 + arcsin(rho) / (2 pi) = 0.375
cdf00 = m.cdf([[0.0, 0.0]])[0]
exp00 = 0.25 + np.arcsin(1 / np.sqrt(2)) / (2 * np.pi)
cdf11 = m.cdf([[1.0, 1.0]])[0]
exp11 = sts.multivariate_normal(mean=[0, 0], cov=[[1, 1], [1, 2]]).cdf([1.0, 1.0])
print(f"cdf(0,0) = {cdf00:.6f}  expected {exp00:.6f}")
print(f"cdf(1,1) = {cdf11:.6f}  expected {exp11:.6f}")
if abs(cdf00 - exp00) > 1e-3:
    errors.append(f"cdf([[0,0]]) = {cdf00}, expected {exp00}")
if abs(cdf11 - exp11) > 1e-3:
    errors.append(f"cdf([[1,1]]) = {cdf11}, expected {exp11}")

# marginals of the conditional variable X1 ~ N(0, sqrt 2)
x = np.array([-1.0, 0.0, 1.0])
mp, mc = m.marginal_pdf(x, 1), m.marginal_cdf(x, 1)
mp_exp, mc_exp = sts.norm.pdf(x, 0, np.sqrt(2)), sts.norm.cdf(x, 0, np.sqrt(2))
print("marginal_pdf", mp, "expected", mp_exp)
print("marginal_cdf", mc, "expected", mc_exp)
if not np.allclose(mp, mp_exp, atol=1e-4):
    errors.append(f"marginal_pdf({x}, 1) = {mp}, expected {mp_exp}")
if not np.allclose(mc, mc_exp, atol=1e-4):
    errors.append(f"marginal_cdf({x}, 1) = {mc}, expected {mc_exp}")
if (mc < 0).any():
    errors.append(f"marginal_cdf returned a negative probability: {mc}")

# round trip marginal_cdf(marginal_icdf(p)) = p
p = np.array([0.25, 0.5, 0.9])
q = m.marginal_icdf(p, 1)
back = m.marginal_cdf(q, 1)
print("marginal_icdf", q, "-> marginal_cdf", back, "expected", p)
if not np.allclose(back, p, atol=0.02):
    errors.append(f"marginal_cdf(marginal_icdf({p})) = {back}")

assert not errors, "\n".join(errors)
print("OK")
