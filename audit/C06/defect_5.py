"""C06 defect 5: the nquad-based cdf / marginal_cdf / marginal_pdf silently lose (almost)
all probability mass when the integration range is wide compared with the bulk of the
distribution -- results collapse to ~0 instead of converging to the true integral.

(a) joint cdf and marginal_cdf are not monotone and tend to 0 instead of 1 for large
    arguments (np.inf is rejected by cdf through asarray_chkfinite, so a large finite
    number is the only way to say "no bound on this variable");
(b) for a conditioning variable whose bulk lies at a few hundred units (e.g. a
    direction in degrees) the fixed (0, inf) quadrature of marginal_pdf / marginal_cdf
    misses the bulk and the marginals of the dependent variable come out as ~0.
No warning is raised in either case (the IntegrationWarning, if any, is not escalated
and nquad's error estimate is discarded).
"""
import warnings; warnings.simplefilter("ignore")
import numpy as np
from virocon import (GlobalHierarchicalModel, WeibullDistribution,
                     LogNormalDistribution, DependenceFunction)


def _power3(x, a=0.1, b=1.489, c=0.1901):
    return a + b * x**c


def _exp3(x, a=0.04, b=0.1748, c=-0.2243):
    return a + b * np.exp(c * x)


errors = []

# ---- (a) DNV-GL style Hs-Tz model -------------------------------------------------
m = GlobalHierarchicalModel([
    {"distribution": WeibullDistribution(alpha=2.776, beta=1.471, gamma=0.8888)},
    {"distribution": LogNormalDistribution(), "conditional_on": 0,
     "parameters": {"mu": DependenceFunction(_power3), "sigma": DependenceFunction(_exp3)}},
])
F_tz8 = m.marginal_cdf(np.array([8.0]), 1)[0]          # P(Tz <= 8)       = 0.7136
F_hs3 = m.distributions[0].cdf(3.0)                    # P(Hs <= 3)       = 0.4875
c1 = m.cdf([[20.0, 8.0], [1e4, 8.0], [3.0, 20.0], [3.0, 1e5], [1e5, 1e5]])
mc = m.marginal_cdf(np.array([20.0, 1e5]), 1)
print("P(Tz<=8) =", F_tz8, " P(Hs<=3) =", F_hs3)
print("cdf(20, 8) =", c1[0], " cdf(1e4, 8) =", c1[1])
print("cdf(3, 20) =", c1[2], " cdf(3, 1e5) =", c1[3])
print("cdf(1e5, 1e5) =", c1[4])
print("marginal_cdf([20, 1e5], 1) =", mc)
if abs(c1[1] - F_tz8) > 2e-3 or c1[1] < c1[0] - 2e-3:
    errors.append(f"cdf([[1e4, 8]]) = {c1[1]}, expected P(Tz<=8) = {F_tz8} (cdf([[20, 8]]) = {c1[0]})")
if abs(c1[3] - F_hs3) > 2e-3 or c1[3] < c1[2] - 2e-3:
    errors.append(f"cdf([[3, 1e5]]) = {c1[3]}, expected P(Hs<=3) = {F_hs3} (cdf([[3, 20]]) = {c1[2]})")
if abs(c1[4] - 1) > 2e-3:
    errors.append(f"cdf([[1e5, 1e5]]) = {c1[4]}, expected 1")
if not np.allclose(mc, 1, atol=2e-3):
    errors.append(f"marginal_cdf([20, 1e5], 1) = {mc}, expected [1, 1]")

# ---- (b) conditioning variable with its bulk at ~285 (e.g. a direction in degrees) --
def _log(x, a=0.0, b=1.0):
    return a + b * np.log(x)


def _const(x, a=0.2):
    return a + 0 * x


m2 = GlobalHierarchicalModel([
    {"distribution": WeibullDistribution(alpha=300.0, beta=10.0, gamma=0.0)},
    {"distribution": LogNormalDistribution(), "conditional_on": 0,
     "parameters": {"mu": DependenceFunction(_log), "sigma": DependenceFunction(_const)}},
])
s = m2.draw_sample(400000, random_state=1)
x = np.array([270.0])
emp_cdf = np.mean(s[:, 1] <= x[0])
emp_pdf = np.mean(np.abs(s[:, 1] - x[0]) <= 2.0) / 4.0
mp = m2.marginal_pdf(x, 1)[0]
print("scale-300 model: marginal_pdf(270) =", mp, "(Monte Carlo:", emp_pdf, ")")
print("scale-300 model: Monte-Carlo marginal cdf(270) =", emp_cdf,
      "(marginal_cdf([270.], 1) returns 0.0019, takes ~30 s, not run here)")
if abs(mp - emp_pdf) > 0.1 * emp_pdf:
    errors.append(f"marginal_pdf([270], 1) = {mp}, Monte-Carlo estimate {emp_pdf}")

assert not errors, "\n".join(errors)
print("OK")
