"""C06 defect 3: marginal_pdf / marginal_cdf silently swap the variables for a negative
`dim` (dim=-1 = "last variable"), while marginal_icdf(p, -1) and every list lookup
(self.conditional_on[dim], self.distributions[dim]) accept it as the last variable.

In marginal_pdf / marginal_cdf the argument permutation is computed with
np.argsort(integral_order + [dim]); with dim = -1 the entry -1 sorts *before* 0, so
the evaluation point x_i is fed into variable 0 and the integration variable into the
last variable.  The result is a finite, plausible-looking, wrong number:
marginal_cdf(x, -1) returns the marginal cdf of variable 0.
"""
import warnings; warnings.simplefilter("ignore")
import numpy as np
from virocon import (GlobalHierarchicalModel, WeibullDistribution,
                     LogNormalDistribution, DependenceFunction)


def _power3(x, a=0.1, b=1.489, c=0.1901):
    return a + b * x**c


def _exp3(x, a=0.04, b=0.1748, c=-0.2243):
    return a + b * np.exp(c * x)


m = GlobalHierarchicalModel([
    {"distribution": WeibullDistribution(alpha=2.776, beta=1.471, gamma=0.8888)},
    {"distribution": LogNormalDistribution(), "conditional_on": 0,
     "parameters": {"mu": DependenceFunction(_power3), "sigma": DependenceFunction(_exp3)}},
])

x = np.array([8.0])
ref_pdf = m.marginal_pdf(x, 1)
ref_cdf = m.marginal_cdf(x, 1)

errors = []
try:
    neg_pdf = m.marginal_pdf(x, -1)
    neg_cdf = m.marginal_cdf(x, -1)
    p = np.array([0.5])
    q = m.marginal_icdf(p, -1)          # Monte-Carlo quantile of the LAST variable (Tz)
    back = m.marginal_cdf(q, -1)
except (IndexError, ValueError) as e:   # rejecting a negative dim loudly would be fine
    print("negative dim rejected:", type(e).__name__, e)
else:
    print("marginal_pdf(x,  1) =", ref_pdf)
    print("marginal_pdf(x, -1) =", neg_pdf)
    print("marginal_cdf(x,  1) =", ref_cdf)
    print("marginal_cdf(x, -1) =", neg_cdf, " (= cdf of variable 0:", m.distributions[0].cdf(x), ")")
    print("marginal_icdf(p, -1) =", q, "-> marginal_cdf(., -1) =", back, "expected", p)
    if not np.allclose(neg_pdf, ref_pdf, rtol=1e-6):
        errors.append(f"marginal_pdf(x, -1) = {neg_pdf} but marginal_pdf(x, 1) = {ref_pdf}")
    if not np.allclose(neg_cdf, ref_cdf, rtol=1e-6):
        errors.append(f"marginal_cdf(x, -1) = {neg_cdf} but marginal_cdf(x, 1) = {ref_cdf}")
    if not np.allclose(back, p, atol=0.02):
        errors.append(f"marginal_cdf(marginal_icdf({p}, -1), -1) = {back}")

assert not errors, "\n".join(errors)
print("OK")
