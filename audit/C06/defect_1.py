"""C06 defect 1: integer-valued evaluation points silently give density / probability 0.

GlobalHierarchicalModel.pdf, .marginal_pdf and .marginal_cdf allocate their result
with np.empty_like(x).  If x has an integer dtype (e.g. pdf([[3, 8]]) or
marginal_cdf(np.array([4, 8, 12]), 1)) the float densities are truncated to int
-> 0, although the same points given as floats have a clearly positive density.
"""
import warnings; warnings.simplefilter("ignore")
import numpy as np
from virocon import (GlobalHierarchicalModel, WeibullDistribution,
                     LogNormalDistribution, DependenceFunction)


def _power3(x, a=0.1, b=1.489, c=0.1901):
    return a + b * x**c


def _exp3(x, a=0.04, b=0.1748, c=-0.2243):
    return a + b * np.exp(c * x)


# DNV-GL style Hs-Tz model with fixed parameters (no fitting needed)
m = GlobalHierarchicalModel([
    {"distribution": WeibullDistribution(alpha=2.776, beta=1.471, gamma=0.8888)},
    {"distribution": LogNormalDistribution(), "conditional_on": 0,
     "parameters": {"mu": DependenceFunction(_power3), "sigma": DependenceFunction(_exp3)}},
])

# joint pdf
f_float = m.pdf([[3.0, 8.0]])
f_int = m.pdf([[3, 8]])
print("pdf float:", f_float, " pdf int:", f_int)

# product of the factors (what the property promises)
expected = m.distributions[0].pdf(3) * m.distributions[1].pdf(8, given=3)
print("product of factors at the integer point:", expected)

# marginals of the conditional variable (dim 1)
xi = np.array([4, 8, 12])
xf = xi.astype(float)
mp_i, mp_f = m.marginal_pdf(xi, 1), m.marginal_pdf(xf, 1)
mc_i, mc_f = m.marginal_cdf(xi, 1), m.marginal_cdf(xf, 1)
print("marginal_pdf int:", mp_i, " float:", mp_f)
print("marginal_cdf int:", mc_i, " float:", mc_f)

errors = []
if not np.allclose(f_int, expected, rtol=1e-9):
    errors.append(f"pdf([[3, 8]]) = {f_int}, expected {expected}")
if not np.allclose(mp_i, mp_f, rtol=1e-6):
    errors.append(f"marginal_pdf(int x, 1) = {mp_i}, expected {mp_f}")
if not np.allclose(mc_i, mc_f, rtol=1e-6):
    errors.append(f"marginal_cdf(int x, 1) = {mc_i}, expected {mc_f}")
assert not errors, "\n".join(errors)
print("OK")
