"""C06 defect 4: marginal_icdf of a conditional variable disagrees with marginal_cdf /
marginal_pdf when all dependence functions of that variable return a scalar
(e.g. the constant dependence function `lambda x, a: a`).

pdf / marginal_pdf / marginal_cdf broadcast the scalar parameters correctly, but
GlobalHierarchicalModel.draw_sample asks the conditional distribution for n=1 draw
per conditioning value and relies on the parameters being arrays of length n.  With
scalar parameters ONE single random number is drawn and broadcast into all n rows, so
the Monte-Carlo marginal_icdf returns the same (random) value for every probability.
"""
import warnings; warnings.simplefilter("ignore")
import numpy as np
from virocon import (GlobalHierarchicalModel, WeibullDistribution,
                     LogNormalDistribution, DependenceFunction)


def _const_mu(x, a=1.5):
    return a


def _const_sigma(x, a=0.3):
    return a


m = GlobalHierarchicalModel([
    {"distribution": WeibullDistribution(alpha=2.0, beta=1.5, gamma=0.0)},
    {"distribution": LogNormalDistribution(), "conditional_on": 0,
     "parameters": {"mu": DependenceFunction(_const_mu),
                    "sigma": DependenceFunction(_const_sigma)}},
])

# the joint density factorises fine: f(x0) * lognormal(x1; 1.5, 0.3)
pt = np.array([[1.0, 4.0], [2.0, 5.0]])
expected_pdf = m.distributions[0].pdf(pt[:, 0]) * LogNormalDistribution(1.5, 0.3).pdf(pt[:, 1])
assert np.allclose(m.pdf(pt), expected_pdf)

p = np.array([0.1, 0.5, 0.9])
q = m.marginal_icdf(p, 1)
q_true = LogNormalDistribution(1.5, 0.3).icdf(p)
back = m.marginal_cdf(q, 1)
sample = m.draw_sample(1000, random_state=0)
print("marginal_icdf(p, 1)      =", q)
print("true quantiles           =", q_true)
print("marginal_cdf(icdf(p), 1) =", back, "expected", p)
print("distinct values of variable 1 in draw_sample(1000):", np.unique(sample[:, 1]).size)

errors = []
if not np.allclose(back, p, atol=0.02):
    errors.append(f"marginal_cdf(marginal_icdf({p}, 1), 1) = {back}")
if not np.allclose(q, q_true, rtol=0.03):
    errors.append(f"marginal_icdf({p}, 1) = {q}, expected about {q_true}")
assert not errors, "\n".join(errors)
print("OK")
