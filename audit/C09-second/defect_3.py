"""C09 defect 3: fit_descriptions given as a tuple crashes as soon as one entry is None.

"None" for a dimension means "use the default fit" and works in a list; the same
descriptions in a tuple raise TypeError ('tuple' object does not support item
assignment) because _check_and_fill_fit_desc writes the defaults into the
caller's sequence."""
import sys
import warnings
import numpy as np
from virocon import (GlobalHierarchicalModel, ExponentiatedWeibullDistribution,
                     LogNormalDistribution, DependenceFunction, WidthOfIntervalSlicer)

warnings.simplefilter("ignore")
rng = np.random.default_rng(0)
n = 3000
hs = 1.5 * rng.weibull(1.5, n) + 0.05
tz = 3 * np.exp(0.7 + 0.3 * np.sqrt(hs) + 0.15 * rng.standard_normal(n))
data = np.column_stack([hs, tz])


def lin(x, a, b):
    return a + b * x


def build():
    return GlobalHierarchicalModel([
        {"distribution": ExponentiatedWeibullDistribution(),
         "intervals": WidthOfIntervalSlicer(0.5)},
        {"distribution": LogNormalDistribution(), "conditional_on": 0,
         "parameters": {"mu": DependenceFunction(lin), "sigma": DependenceFunction(lin)}},
    ])


def params(m):
    out = list(m.distributions[0].parameters.values())
    for f in m.distributions[1].conditional_parameters.values():
        out += list(f.parameters.values())
    return np.array(out, dtype=float)


m_list = build()
m_list.fit(data, [{"method": "wlsq", "weights": "quadratic"}, None])

m_tuple = build()
try:
    m_tuple.fit(data, ({"method": "wlsq", "weights": "quadratic"}, None))
except Exception as e:  # noqa
    print(f"FAIL: tuple of fit descriptions raised {type(e).__name__}: {e}")
    sys.exit(1)
if not np.allclose(params(m_list), params(m_tuple)):
    print("FAIL: tuple and list of fit descriptions give different models")
    sys.exit(1)
print("OK")
