"""C09 defect 1: a weighted DependenceFunction cannot be fitted through the joint model,
because ConditionalDistribution.fit hands the estimates to the weights callable as a
plain Python list instead of a vector.

The stand-alone fit of the same dependence function to the same
(interval reference value, estimate) pairs works; the joint fit crashes (1/y, y**2)
or gets a weights vector of the wrong length (2*y repeats the list)."""
import sys
import warnings
import numpy as np
from virocon import (GlobalHierarchicalModel, ExponentiatedWeibullDistribution,
                     LogNormalDistribution, DependenceFunction, WidthOfIntervalSlicer)

warnings.simplefilter("ignore")

rng = np.random.default_rng(0)
n = 3000
hs = 1.5 * rng.weibull(1.5, n) + 0.05
tz = 3 * np.exp(0.7 + 0.3 * np.sqrt(hs) + 0.15 * rng.standard_normal(n))
data = np.column_stack([hs, tz])


def lin(x, a, b):
    return a + b * x


weight_funcs = {
    "1/y": lambda x, y: 1 / y,
    "y**2": lambda x, y: y**2,
    "2*y": lambda x, y: 2 * y,
    "y/np.sum(y)": lambda x, y: y / np.sum(y),
}


def build(w):
    return GlobalHierarchicalModel([
        {"distribution": ExponentiatedWeibullDistribution(),
         "intervals": WidthOfIntervalSlicer(0.5)},
        {"distribution": LogNormalDistribution(), "conditional_on": 0,
         "parameters": {"mu": DependenceFunction(lin, weights=w),
                        "sigma": DependenceFunction(lin, weights=w)}},
    ])


# reference: unweighted joint fit gives the (reference value, estimate) pairs
ref = build(None)
ref.fit(data)
cd = ref.distributions[1]
x_pairs = np.asarray(cd.conditioning_values)
failures = 0
for name, w in weight_funcs.items():
    # stand-alone fit of the dependence function to the pairs
    expected = {}
    for par in ("mu", "sigma"):
        y_pairs = np.asarray([p[par] for p in cd.parameters_per_interval])
        f = DependenceFunction(lin, weights=w)
        f.fit(x_pairs, y_pairs)
        expected[par] = np.array(list(f.parameters.values()))
    try:
        m = build(w)
        m.fit(data)
    except Exception as e:  # noqa
        print(f"weights={name}: joint fit raised {type(e).__name__}: {e}")
        failures += 1
        continue
    for par in ("mu", "sigma"):
        got = np.array(list(m.distributions[1].conditional_parameters[par].parameters.values()))
        if not np.allclose(got, expected[par], rtol=1e-6, atol=1e-9):
            print(f"weights={name}: {par} joint {got} != stand-alone {expected[par]}")
            failures += 1

if failures:
    print(f"FAIL: {failures} weighted dependence fits did not match the stand-alone fit to the pairs")
    sys.exit(1)
print("OK")
