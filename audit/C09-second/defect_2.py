"""C09 defect 2: the weights of a DependenceFunction are used the wrong way round.

DependenceFunction(weights=w) is documented as weighted least squares in which
w(x, y) is "the vector of weights" ("lambda x, y: y to linearly weight the
observations with y_i").  virocon/_fitting.py passes the vector to
scipy.optimize.curve_fit as sigma=, i.e. as the standard deviation of each
observation, so an observation with weight w_i enters the sum of squares with the
factor 1/w_i**2: the pairs that should dominate the fit are ignored.

The program fits a joint model, takes the (interval reference value, estimate)
pairs it reports and compares the fitted line with the closed-form weighted
least-squares line  argmin sum_i w_i (y_i - a - b x_i)^2."""
import sys
import warnings
import numpy as np
from virocon import (GlobalHierarchicalModel, ExponentiatedWeibullDistribution,
                     LogNormalDistribution, DependenceFunction, WidthOfIntervalSlicer)

warnings.simplefilter("ignore")

rng = np.random.default_rng(1)
n = 6000
hs = 1.5 * rng.weibull(1.5, n) + 0.05
# mu is NOT linear in hs, so the weighting decides which part of the range is followed
tz = 3 * np.exp(0.7 + 0.5 * np.sqrt(hs) + 0.15 * rng.standard_normal(n))
data = np.column_stack([hs, tz])


def lin(x, a, b):
    return a + b * x


def w_func(x, y):
    return np.asarray(x) ** 4  # the high intervals shall dominate


m = GlobalHierarchicalModel([
    {"distribution": ExponentiatedWeibullDistribution(),
     "intervals": WidthOfIntervalSlicer(0.5)},
    {"distribution": LogNormalDistribution(), "conditional_on": 0,
     "parameters": {"mu": DependenceFunction(lin, weights=w_func),
                    "sigma": DependenceFunction(lin)}},
])
m.fit(data)
cd = m.distributions[1]
x = np.asarray(cd.conditioning_values, dtype=float)
y = np.asarray([p["mu"] for p in cd.parameters_per_interval], dtype=float)
w = w_func(x, y)

got = np.array(list(cd.conditional_parameters["mu"].parameters.values()))
# closed form weighted least squares: minimise sum w_i (y_i - a - b x_i)^2
b_w, a_w = np.polyfit(x, y, 1, w=np.sqrt(w))
# what the library actually minimises: sum (y_i - a - b x_i)^2 / w_i^2
b_s, a_s = np.polyfit(x, y, 1, w=1 / w)

print("pairs x:", np.round(x, 3))
print("pairs y:", np.round(y, 4))
print("fitted by virocon          a, b =", got)
print("weighted least squares     a, b =", a_w, b_w)
print("weights used as 1/w_i^2    a, b =", a_s, b_s)

if not np.allclose(got, [a_w, b_w], rtol=1e-4, atol=1e-6):
    print("FAIL: the dependence function is not the weighted least-squares fit to the pairs"
          + (" (it equals the fit with the weights inverted and squared)"
             if np.allclose(got, [a_s, b_s], rtol=1e-4, atol=1e-6) else ""))
    sys.exit(1)
print("OK")
