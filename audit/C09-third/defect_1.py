"""C09 defect 1: a re-fit of an already fitted joint model does not give the model
that a first fit to the same data matrix gives - the unconditional dimensions are
re-fitted starting from the estimates of the PREVIOUS fit (the conditional dimensions
start from a deep copy of their template, so only they are repeatable).

Scenario: the model is fitted to a data matrix whose first column is in the wrong
unit (cm instead of m), then re-fitted to the corrected matrix.
Exit status 0 if re-fit == first fit (to optimiser tolerance), 1 otherwise.
"""
import sys
import warnings

import numpy as np

from virocon import (
    GlobalHierarchicalModel,
    WeibullDistribution,
    LogNormalDistribution,
    DependenceFunction,
    NumberOfIntervalsSlicer,
)

warnings.simplefilter("ignore")


def make_model():
    def _power3(x, a, b, c):
        return a + b * x**c

    bounds = [(0, None), (0, None), (None, None)]
    dist_descriptions = [
        {
            "distribution": WeibullDistribution(),
            "intervals": NumberOfIntervalsSlicer(6),
        },
        {
            "distribution": LogNormalDistribution(),
            "conditional_on": 0,
            "parameters": {
                "mu": DependenceFunction(_power3, bounds),
                "sigma": DependenceFunction(_power3, bounds),
            },
        },
    ]
    return GlobalHierarchicalModel(dist_descriptions)


rng = np.random.default_rng(0)
n = 2000
hs = rng.weibull(1.5, n) * 2 + 0.05
tz = np.exp(rng.normal(1 + 0.3 * np.sqrt(hs), 0.1 + 0.2 / (1 + hs)))
data = np.c_[hs, tz]  # the data matrix of interest (Hs in m)
data_cm = np.c_[100 * hs, tz]  # the same observations, Hs in cm

first = make_model()
first.fit(data)

refit = make_model()
refit.fit(data_cm)
refit.fit(data)  # re-fit of the already fitted model to the same matrix as `first`

refit_shuffled = make_model()
refit_shuffled.fit(data_cm)
refit_shuffled.fit(data[rng.permutation(n)])

p_first = first.distributions[0].parameters
ok = True
for name, model in [("re-fit", refit), ("re-fit, rows shuffled", refit_shuffled)]:
    p = model.distributions[0].parameters
    rel = max(abs(p[k] - p_first[k]) / abs(p_first[k]) for k in p_first)
    print(f"first fit        : { {k: float(v) for k, v in p_first.items()} }")
    print(f"{name:17s}: { {k: float(v) for k, v in p.items()} }")
    print(f"  largest relative deviation of a dim-0 parameter: {rel:.3g}")
    # the conditional dimension IS repeatable (deep copy of the template per interval)
    same_cond = all(
        np.isclose(a[k], b[k], rtol=1e-9)
        for a, b in zip(
            first.distributions[1].parameters_per_interval,
            model.distributions[1].parameters_per_interval,
        )
        for k in a
    )
    print(f"  per-interval estimates of dim 1 identical: {same_cond}")
    if rel > 1e-3:
        ok = False

if ok:
    print("OK: the re-fitted model equals the model of a first fit")
    sys.exit(0)
print("DEFECT: the re-fitted model depends on the data of the previous fit")
sys.exit(1)
