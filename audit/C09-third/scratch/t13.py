import copy, numpy as np
from virocon import *
from virocon.distributions import LogNormalNormFitDistribution
rng = np.random.default_rng(0)
n = 3000
hs = rng.weibull(1.5, n) * 2 + 0.05
tz = np.exp(rng.normal(1 + 0.3*np.sqrt(hs), 0.1 + 0.2/(1+hs)))
th = rng.vonmises(0.3*hs, 1 + hs)
class Gamma(ScipyDistribution):
    scipy_dist_name = "gamma"
def _p3(x, a, b, c): return a + b * x**c
def _lin(x, a, b): return a + b * x
for name, tmpl, pars, y in [
    ("gamma", Gamma(f_loc=0), {"a": DependenceFunction(_p3), "scale": DependenceFunction(_p3)}, tz),
    ("lnnf", LogNormalNormFitDistribution(), {"mu_norm": DependenceFunction(_p3), "sigma_norm": DependenceFunction(_p3)}, tz),
    ("vm", VonMisesDistribution(), {"kappa": DependenceFunction(_lin), "mu": DependenceFunction(_lin)}, th),
    ("norm_fmu", NormalDistribution(f_mu=0.5), {"sigma": DependenceFunction(_lin)}, th),
]:
    data = np.c_[hs, y]
    def mk():
        return GlobalHierarchicalModel([{"distribution": WeibullDistribution(), "intervals": PointsPerIntervalSlicer(400)},
            {"distribution": copy.deepcopy(tmpl), "conditional_on": 0, "parameters": copy.deepcopy(pars)}])
    try:
        m = mk(); m.fit(data)
        m2 = mk(); m2.fit(data[rng.permutation(n)])
    except Exception as e:
        print(name, "ERR", type(e).__name__, e); continue
    cd = m.distributions[1]; cd2 = m2.distributions[1]
    order = np.argsort(hs)
    worst = 0
    for j in range(len(cd.data_intervals)):
        rem = n % 400
        idx = order[:rem] if j == 0 else order[rem + (j-1)*400: rem + j*400]
        assert sorted(cd.data_intervals[j]) == sorted(y[idx]), j
        t = copy.deepcopy(tmpl); t.fit(y[idx])
        worst = max(worst, max(abs(t.parameters[k] - cd.parameters_per_interval[j][k]) for k in t.parameters))
        worst = max(worst, abs(np.median(hs[idx]) - cd.conditioning_values[j]))
        worst = max(worst, max(abs(cd2.parameters_per_interval[j][k] - cd.parameters_per_interval[j][k]) for k in t.parameters))
    dp = max(abs(v - cd2.conditional_parameters[k].parameters[kk]) for k, d in cd.conditional_parameters.items() for kk, v in d.parameters.items())
    print(name, len(cd.data_intervals), "worst", worst, "dep perm", dp, cd.parameters_per_interval[1])
    xs = np.linspace(0.1, 8, 50)
    for k in cd.conditional_parameters:
        f1 = cd.conditional_parameters[k]; f2 = cd2.conditional_parameters[k]
        print("   ", k, f1.parameters, f2.parameters, "max func diff", np.max(np.abs(f1(xs) - f2(xs))), "y diff", max(abs(a[k]-b[k]) for a, b in zip(cd.parameters_per_interval, cd2.parameters_per_interval)))
