import numpy as np
exec(open("_audit/scratch/t1.py").read().split("slicers = {")[0])
data = gen(300, 1)
for s in [lambda: NumberOfIntervalsSlicer(8), lambda: PointsPerIntervalSlicer(100)]:
    m = mk(s()); m.fit(data); a = params(m)
    perm = np.random.default_rng(0).permutation(300)
    m2 = mk(s()); m2.fit(data[perm]); b = params(m2)
    print(a[0], b[0])
    print(a[1][0]); print(b[1][0]); print(a[1][1], b[1][1]); print(a[1][3]); print(b[1][3])
