import copy, numpy as np
from virocon import *
from virocon.predefined import *
exec(open("_audit/scratch/t1.py").read().split("slicers = {")[0].split("print(virocon.__file__)")[1])
rng = np.random.default_rng(0)
n = 3000
v = rng.weibull(2, n) * 10 + 0.1
hs = rng.weibull(1.5, n) * (0.5 + 0.1 * v) + 0.01
tz = np.exp(rng.normal(1 + 0.3*np.sqrt(hs), 0.1 + 0.2/(1+hs)))
data = np.c_[v, hs, tz]

def mk3(cond2=1):
    def _p3(x, a, b, c): return a + b * x**c
    def _e3(x, a, b, c): return a + b * np.exp(c*x)
    bounds = [(0, None), (0, None), (None, None)]
    dd = [{"distribution": ExponentiatedWeibullDistribution(), "intervals": WidthOfIntervalSlicer(2)},
          {"distribution": ExponentiatedWeibullDistribution(f_delta=5), "conditional_on": 0, "intervals": NumberOfIntervalsSlicer(7, min_n_points=30),
           "parameters": {"alpha": DependenceFunction(_p3, bounds), "beta": DependenceFunction(_p3, bounds)}},
          {"distribution": LogNormalDistribution(), "conditional_on": cond2, "parameters": {"mu": DependenceFunction(_p3, bounds), "sigma": DependenceFunction(_e3, bounds)}}]
    return GlobalHierarchicalModel(dd)

for cond2 in [1, 0]:
  for fd in [None, [{"method": "wlsq", "weights": "quadratic"}, {"method": "wlsq", "weights": "linear"}, None],
           [{"method":"mle"}, {"method": "wlsq"}, {"method": "mle", "weights": "cubic"}],
           ({"method":"wlsq", "weights": "cubic"}, None, None)]:
    m = mk3(cond2); m.fit(data, fd)
    # oracle
    fdd = [{"method": "mle", "weights": None} if f is None else {"weights": None, **f} for f in (fd or [None]*3)]
    t = ExponentiatedWeibullDistribution(); t.fit(data[:, 0], fdd[0]["method"], fdd[0]["weights"])
    d0 = maxdiff(t.parameters, m.distributions[0].parameters)
    # dim1: width 2 on v
    out = [d0]
    for i, cidx, tmpl in [(1, 0, ExponentiatedWeibullDistribution(f_delta=5)), (2, cond2, LogNormalDistribution())]:
        cd = m.distributions[i]
        x = data[:, cidx]
        if cidx == 0:
            edges = np.arange(0, x.max() + 2, 2.0)
            masks = [(x >= lo) & (x < lo + 2) for lo in edges]
            refs = edges + 1
        else:
            edges = np.linspace(x.min(), x.max(), 8)
            masks = [(x >= edges[k]) & ((x < edges[k+1]) if k < 6 else (x <= edges[k+1])) for k in range(7)]
            refs = (edges[:-1] + edges[1:]) / 2
        minp = 50 if cidx == 0 else 30
        keep = [k for k, mk_ in enumerate(masks) if mk_.sum() >= minp]
        assert len(keep) == len(cd.data_intervals), (len(keep), len(cd.data_intervals))
        worst = 0
        for j, k in enumerate(keep):
            assert np.array_equal(cd.data_intervals[j], data[masks[k], i])
            worst = max(worst, abs(refs[k] - cd.conditioning_values[j]))
            tt = copy.deepcopy(tmpl); tt.fit(data[masks[k], i], fdd[i]["method"], fdd[i]["weights"])
            worst = max(worst, maxdiff(tt.parameters, cd.parameters_per_interval[j]))
        out.append(worst)
    perm = rng.permutation(n)
    m2 = mk3(cond2); m2.fit(data[perm], fd)
    pd_ = max(maxdiff(m.distributions[0].parameters, m2.distributions[0].parameters),
              *[maxdiff(m.distributions[i].parameters_per_interval, m2.distributions[i].parameters_per_interval) for i in (1,2)],
              *[maxdiff({k: v.parameters for k, v in m.distributions[i].conditional_parameters.items()}, {k: v.parameters for k, v in m2.distributions[i].conditional_parameters.items()}) for i in (1,2)])
    print(cond2, fd, out, "perm", pd_)
