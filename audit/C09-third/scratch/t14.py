import numpy as np, itertools
from virocon import *
rng = np.random.default_rng(1)
bad = 0
for trial in range(300):
    n = int(rng.integers(300, 3000))
    x = rng.weibull(1.5, n) * rng.choice([0.05, 2, 30]) + rng.choice([0, 0.3, 5])
    rnd = rng.choice([None, 0, 1, 2])
    if rnd is not None: x = np.round(x, int(rnd))
    if rng.random() < 0.3: x = np.sort(x)
    span = x.max() - x.min()
    if span <= 0: continue
    ref = rng.choice(["center", "left", "right", "median"]); refv = np.median if ref == "median" else ref
    mnp = int(rng.choice([1, 10, 50]))
    kind = rng.choice(["W", "N"])
    try:
        if kind == "W":
            width = float(rng.choice([span/7.3, 0.1, 0.5, 1, 0.25]))
            if span / width > 500 or span/width < 3: continue
            ro = bool(rng.random() < 0.5)
            vr = [None, (x.min(), None), (float(np.round(x.min(), 1)), None), (None, None)][rng.integers(4)]
            s = WidthOfIntervalSlicer(width, reference=refv, right_open=ro, value_range=vr, min_n_points=mnp)
            masks, refs, bnds = s.slice_(x)
            lo0 = 0 if vr is None or vr[0] is None else vr[0]
            for m, r, (lo, up) in zip(masks, refs, bnds):
                exp = (x >= lo) & (x < up) if ro else (x > lo) & (x <= up)
                assert np.array_equal(m, exp), "mask"
                assert m.sum() >= mnp
                k = round((lo - lo0) / width)
                assert abs(lo - (lo0 + k*width)) < 1e-9*max(1, abs(lo)), "edge"
                assert abs(up - lo - width) < 1e-9*max(1, abs(lo)), "width"
                er = {"center": (lo+up)/2, "left": lo, "right": up}.get(ref, None)
                if er is None: er = np.median(x[m])
                assert abs(r - er) < 1e-9*max(1, abs(er)), ("ref", r, er)
            # coverage: all x >= lo0 (or > lo0) in intervals with >= mnp points
            allm = np.sum(masks, axis=0)
            assert allm.max() <= 1; globals().__setitem__("okW", globals().get("okW", 0) + 1)
            # every uncovered in-range value belongs to a small interval
            unc = x[(allm == 0) & ((x >= lo0) if ro else (x > lo0))]
            if len(unc):
                kk = np.floor((unc - lo0)/width + (0 if ro else 0))
                # count per nominal interval must be < mnp (allow edge slop of 1 interval)
                for kv in np.unique(kk):
                    cnt = np.sum(kk == kv)
                    # nominal count may differ due to edge rounding; only flag if clearly large
                    if cnt >= mnp + 0 :
                        # recheck with float edges
                        lo = lo0 + width*kv; up = lo0 + width*(kv+1)
                        c2 = np.sum((x >= lo) & (x < up)) if ro else np.sum((x > lo) & (x <= up))
                        assert c2 < mnp, ("uncovered interval", kv, cnt, c2)
        else:
            k = int(rng.integers(3, 15))
            im = bool(rng.random() < 0.5)
            vr = [None, (float(x.min()), float(x.max())), (float(np.floor(x.min())), float(np.ceil(x.max())))][rng.integers(3)]
            s = NumberOfIntervalsSlicer(k, reference=refv, include_max=im, value_range=vr, min_n_points=mnp)
            masks, refs, bnds = s.slice_(x)
            a, b = (x.min(), x.max()) if vr is None else vr
            edges = np.linspace(a, b, k+1)
            for m, r, (lo, up) in zip(masks, refs, bnds):
                j = int(np.argmin(np.abs(edges[:-1] - lo)))
                assert abs(edges[j]-lo) < 1e-9*max(1,abs(lo)) and abs(edges[j+1]-up) < 1e-9*max(1,abs(up)), "edges"
                last = j == k-1
                exp = (x >= lo) & ((x <= up) if (last and im) else (x < up))
                assert np.array_equal(m, exp), "mask"
                er = {"center": (lo+up)/2, "left": lo, "right": up}.get(ref, None)
                if er is None: er = np.median(x[m])
                assert abs(r - er) < 1e-9*max(1, abs(er)), ("ref", r, er)
            allm = np.sum(masks, axis=0); assert allm.max() <= 1; bad += 0; globals().__setitem__("okN", globals().get("okN", 0) + 1)
    except RuntimeError as e:
        continue
    except AssertionError as e:
        bad += 1; print(trial, kind, n, rnd, ref, mnp, "FAIL", e)
print("bad", bad, globals().get("okW"), globals().get("okN"))
