import copy, numpy as np, traceback
from virocon import *
exec(open("_audit/scratch/t1.py").read().split("slicers = {")[0].split("print(virocon.__file__)")[1])
rng = np.random.default_rng(0)
n = 3000
hs = rng.weibull(1.5, n) * 20 + 1
tz = np.exp(rng.normal(2 + 0.3*np.sqrt(hs/10), 0.1 + 0.2/(1+hs/10)))*5
data = np.c_[hs, tz].round().astype(int)
print(data.dtype, data.min(0), data.max(0))
sl = {
 "W5": lambda: WidthOfIntervalSlicer(5),
 "W5ro": lambda: WidthOfIntervalSlicer(5, right_open=False, reference="right"),
 "W5max": lambda: WidthOfIntervalSlicer(5, reference=np.max),
 "W5vr": lambda: WidthOfIntervalSlicer(5, value_range=(1, 40), reference="left"),
 "N8": lambda: NumberOfIntervalsSlicer(8),
 "N8min": lambda: NumberOfIntervalsSlicer(8, reference=np.min),
 "N8vr": lambda: NumberOfIntervalsSlicer(8, value_range=(1, 41), reference="left"),
 "P300": lambda: PointsPerIntervalSlicer(300),
 "P300max": lambda: PointsPerIntervalSlicer(300, reference=np.max),
}
for name, s in sl.items():
    try:
        m = mk(s()); m.fit(data)
        cd = m.distributions[1]
        print(name, len(cd.data_intervals), cd.conditioning_values.dtype, cd.conditioning_values[:3], cd.conditioning_interval_boundaries[:2], sum(len(x) for x in cd.data_intervals))
        # membership by boundaries
    except Exception as e:
        print(name, "ERR", type(e).__name__, e)
