import copy, numpy as np, traceback
from virocon import *
rng = np.random.default_rng(0)
n = 2000
v = np.round(rng.weibull(2, n) * 10 + 0.1, 1)
hs = np.round(rng.weibull(1.5, n) * (0.5 + 0.1 * v) + 0.01, 2) + 0.01
data = np.c_[v, hs]
def mk():
    def _p3(x, a, b, c): return a + b * x**c
    bounds = [(0, None), (0, None), (None, None)]
    dd = [{"distribution": ExponentiatedWeibullDistribution(), "intervals": WidthOfIntervalSlicer(2)},
          {"distribution": ExponentiatedWeibullDistribution(f_delta=5), "conditional_on": 0,
           "parameters": {"alpha": DependenceFunction(_p3, bounds), "beta": DependenceFunction(_p3, bounds)}}]
    return GlobalHierarchicalModel(dd)
w = rng.uniform(0.5, 2, n)
# array weights dim 0
m = mk(); m.fit(data, [{"method": "wlsq", "weights": w}, None])
t = ExponentiatedWeibullDistribution(); t.fit(v, "wlsq", w); print(m.distributions[0].parameters, t.parameters)
perm = rng.permutation(n)
m2 = mk(); m2.fit(data[perm], [{"method": "wlsq", "weights": w[perm]}, None]); print(m2.distributions[0].parameters)
# array weights conditional dim
try:
    m = mk(); m.fit(data, [None, {"method": "wlsq", "weights": w}])
    print("cond array weights OK", m.distributions[1].parameters_per_interval[:2])
except Exception as e:
    print("cond array weights", type(e).__name__, e)
for fd in [[{"method": None}, None], [None, {"method": None}], [{"method": "MLE"}, {"method": "WLSQ", "weights": "Quadratic"}], [{"method": "lsq", "weights": "linear"}, {"method": "lsq"}]]:
    try:
        m = mk(); m.fit(data, fd); print(fd, "ok", m.distributions[0].parameters)
    except Exception as e:
        print(fd, type(e).__name__, e)
