import copy, numpy as np
from virocon import *
from virocon.predefined import *
exec(open("_audit/scratch/t1.py").read().split("slicers = {")[0].split("print(virocon.__file__)")[1])

# 1. re-fit vs fresh fit
data = gen(2000, 3); data2 = gen(1500, 9)
for s in [lambda: WidthOfIntervalSlicer(0.5), lambda: NumberOfIntervalsSlicer(6), lambda: PointsPerIntervalSlicer(200)]:
    m = mk(s()); m.fit(data); a = params(m)
    m2 = mk(s()); m2.fit(data2); m2.fit(data); b = params(m2)
    m3 = mk(s()); m3.fit(data); m3.fit(data); c = params(m3)
    print("fresh vs refit(other->data): dim0", maxdiff(a[0], b[0]), "perint", maxdiff(a[1][0], b[1][0]), "cv", maxdiff(a[1][1], b[1][1]), "dep", maxdiff(a[1][3], b[1][3]))
    print("fresh vs refit(data->data): dim0", maxdiff(a[0], c[0]), "perint", maxdiff(a[1][0], c[1][0]), "dep", maxdiff(a[1][3], c[1][3]))
    print(a[0], b[0], c[0])
    print(a[1][3], b[1][3], c[1][3])
