import copy, numpy as np
from virocon import *
def f(d): return np.array([float(v) for v in d.parameters.values()])
rng = np.random.default_rng(5)
for D, kw in [(ExponentiatedWeibullDistribution, {}), (WeibullDistribution, {}), (GeneralizedGammaDistribution, {}), (LogNormalDistribution, {}), (VonMisesDistribution, {})]:
    for n in [300, 3000, 20000]:
        for rnd in [None, 1]:
            if D is VonMisesDistribution:
                x = rng.vonmises(0.5, 2, n)
            else:
                x = rng.weibull(1.3, n) * 2 + 0.06
            if rnd is not None: x = np.round(x, rnd) + (0.05 if D is not VonMisesDistribution else 0)
            d = D(**kw); d.fit(x); base = f(d)
            worst = 0
            for k in range(5):
                d2 = D(**kw); d2.fit(x[rng.permutation(n)]); worst = max(worst, np.max(np.abs(f(d2)-base)/np.abs(base)))
            d3 = D(**kw); d3.fit(np.sort(x)); ws = np.max(np.abs(f(d3)-base)/np.abs(base))
            print(D.__name__, n, rnd, "perm", worst, "sorted", ws)
