import copy, numpy as np
from virocon import *
rng = np.random.default_rng(0)
def f(d): return {k: float(v) for k, v in d.parameters.items()}
for shift, scale in [(5, 2), (0, 5), (0, 0.3), (1, 1), (0, 1)]:
    A = rng.weibull(1.5, 2000) * scale + shift + 0.01
    B = rng.weibull(1.5, 2000) * 2 + 0.05
    d = ExponentiatedWeibullDistribution(); d.fit(B); 
    d2 = ExponentiatedWeibullDistribution(); d2.fit(A); pa = f(d2); d2.fit(B)
    d3 = ExponentiatedWeibullDistribution(); d3.fit(A); d3.fit(B[rng.permutation(2000)])
    print(shift, scale, "A:", pa); print("   fresh", f(d)); print("   refit", f(d2)); print("   refit perm", f(d3))
