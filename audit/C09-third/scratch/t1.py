import copy, numpy as np, itertools
import virocon
print(virocon.__file__)
from virocon import *
from virocon.predefined import *

def gen(n, seed, rnd=None):
    rng = np.random.default_rng(seed)
    hs = sts_w = rng.weibull(1.5, n) * 2 + 0.05
    tz = np.exp(rng.normal(1 + 0.3*np.sqrt(hs), 0.1 + 0.2/(1+hs)))
    d = np.c_[hs, tz]
    if rnd is not None:
        d = np.round(d, rnd)
        d[d<=0] = 10.0**-rnd
    return d

def mk(slicer):
    def _p3(x, a, b, c): return a + b * x**c
    def _e3(x, a, b, c): return a + b * np.exp(c*x)
    bounds = [(0, None), (0, None), (None, None)]
    p3 = DependenceFunction(_p3, bounds); e3 = DependenceFunction(_e3, bounds)
    dd = [{"distribution": WeibullDistribution(), "intervals": slicer},
          {"distribution": LogNormalDistribution(), "conditional_on": 0, "parameters": {"mu": p3, "sigma": e3}}]
    return GlobalHierarchicalModel(dd)

def params(m):
    out = [m.distributions[0].parameters]
    for d in m.distributions[1:]:
        if hasattr(d, "parameters_per_interval"):
            out.append((d.parameters_per_interval, list(d.conditioning_values), [list(x) for x in d.data_intervals], {k: v.parameters for k, v in d.conditional_parameters.items()}))
        else: out.append(d.parameters)
    return out

def maxdiff(a, b):
    # recursive
    if isinstance(a, dict):
        return max([maxdiff(a[k], b[k]) for k in a] + [0])
    if isinstance(a, (list, tuple)):
        if len(a) != len(b): return np.inf
        return max([maxdiff(x, y) for x, y in zip(a, b)] + [0])
    a = np.asarray(a, float); b = np.asarray(b, float)
    if a.shape != b.shape: return np.inf
    return float(np.max(np.abs(a-b)/(1e-300+np.maximum(np.abs(a), np.abs(b))))) if a.size else 0

slicers = {
 "W.5": lambda: WidthOfIntervalSlicer(0.5),
 "W.5ro": lambda: WidthOfIntervalSlicer(0.5, right_open=False),
 "W.5med": lambda: WidthOfIntervalSlicer(0.5, reference=np.median),
 "W.5vr": lambda: WidthOfIntervalSlicer(0.5, value_range=(0.25, None), reference="left"),
 "N8": lambda: NumberOfIntervalsSlicer(8),
 "N8nm": lambda: NumberOfIntervalsSlicer(8, include_max=False, reference="right"),
 "N8vr": lambda: NumberOfIntervalsSlicer(8, value_range=(0.5, 4), reference=np.mean),
 "P100": lambda: PointsPerIntervalSlicer(100),
 "P130": lambda: PointsPerIntervalSlicer(130, last_full=False, min_n_points=20),
}
for n, rnd in [(300, None), (1000, None), (1000, 1), (5000, 2)]:
    data = gen(n, 1, rnd)
    for name, s in slicers.items():
        try:
            m = mk(s()); m.fit(data)
        except Exception as e:
            print(n, rnd, name, "ERR", type(e).__name__, str(e)[:80]); continue
        ref = params(m)
        # standalone
        cd = m.distributions[1]
        bnds = cd.conditioning_interval_boundaries
        sd = 0
        for di, pp in zip(cd.data_intervals, cd.parameters_per_interval):
            t = LogNormalDistribution(); t.fit(di)
            sd = max(sd, maxdiff(t.parameters, pp))
        # membership
        tot = sum(len(x) for x in cd.data_intervals)
        worst = 0
        for k in range(3):
            perm = np.random.default_rng(k).permutation(n)
            m2 = mk(s()); m2.fit(data[perm])
            p2 = params(m2)
            # compare sorted data_intervals
            r = copy.deepcopy(ref); 
            r[1] = (r[1][0], r[1][1], [sorted(x) for x in r[1][2]], r[1][3])
            p2[1] = (p2[1][0], p2[1][1], [sorted(x) for x in p2[1][2]], p2[1][3])
            worst = max(worst, maxdiff(r, p2))
        print(n, rnd, name, "nint", len(cd.data_intervals), "tot", tot, "standalone", sd, "perm", worst)
