import copy, numpy as np
from virocon import *
def f(d): return {k: float(v) for k, v in d.parameters.items()}
A = read_ec_benchmark_dataset("datasets/ec-benchmark_dataset_A_1year.txt").values
rng = np.random.default_rng(0)
B = rng.weibull(1.5, 2000) * 2 + 0.05
import scipy.stats as sts
for nm, x in [("A_hs", A[:, 0]), ("synth", B)]:
    for D in [ExponentiatedWeibullDistribution, WeibullDistribution, GeneralizedGammaDistribution]:
        d = D(); d.fit(x); fr = f(d)
        for fac in [100, 1000, 0.01, 3.28, 10]:
            d2 = D(); d2.fit(x * fac); d2.fit(x); re = f(d2)
            rel = max(abs(fr[k]-re[k])/abs(fr[k]) for k in fr)
            print(nm, D.__name__, fac, rel, re if rel > 1e-2 else "")
