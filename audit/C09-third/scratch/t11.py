import copy, numpy as np
from virocon import *
from virocon.predefined import *
rng = np.random.default_rng(0)
A = read_ec_benchmark_dataset("datasets/ec-benchmark_dataset_A_1year.txt").values
D = read_ec_benchmark_dataset("datasets/ec-benchmark_dataset_D_1year.txt").values
def depp(m):
    return {(i, k): np.array(list(v.parameters.values()), float) for i, d in enumerate(m.distributions) if hasattr(d, "conditional_parameters") for k, v in d.conditional_parameters.items()}
def cmp(a, b):
    return max(np.max(np.abs(a[k]-b[k])/(1e-6+np.abs(a[k]))) for k in a)
for name, getter, data in [("DNVGL_Hs_Tz", get_DNVGL_Hs_Tz, A), ("OMAE_Hs_Tz", get_OMAE2020_Hs_Tz, A), ("DNVGL_Hs_U", get_DNVGL_Hs_U, D[:, ::-1]), ("OMAE_V_Hs", get_OMAE2020_V_Hs, D)]:
    dd, fd, sem = getter()
    m = GlobalHierarchicalModel(dd); m.fit(data, fd)
    p = depp(m)
    dd2, fd2, _ = getter(); m2 = GlobalHierarchicalModel(dd2); perm = rng.permutation(len(data)); m2.fit(data[perm], fd2)
    p2 = depp(m2)
    m.fit(data, fd); p3 = depp(m)
    m2.fit(data[::-1], fd2); p4 = depp(m2)
    print(name, "perm", cmp(p, p2), "refit", cmp(p, p3), "refit-rev", cmp(p, p4))
    for k in p: print("  ", k, p[k], p2[k], p3[k])
