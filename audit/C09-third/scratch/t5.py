import copy, numpy as np
from virocon import *
rng = np.random.default_rng(0)
A = rng.weibull(1.5, 2000) * 2 + 5.0
B = rng.weibull(1.5, 2000) * 2 + 0.05
for D in [WeibullDistribution, ExponentiatedWeibullDistribution, LogNormalDistribution, NormalDistribution, GeneralizedGammaDistribution]:
    for meth in ["mle", "wlsq"]:
        try:
            d = D(); d.fit(B, meth); fresh = d.parameters
        except NotImplementedError:
            continue
        try:
            d2 = D(); d2.fit(A, meth); pa = d2.parameters; d2.fit(B, meth); re = d2.parameters
        except Exception as e:
            print(D.__name__, meth, "ERR", type(e).__name__, e); continue
        print(D.__name__, meth, {k: float(v) for k,v in fresh.items()}, {k: float(v) for k,v in re.items()})
