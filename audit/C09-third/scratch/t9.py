import copy, numpy as np
from virocon import *
def f(d): return {k: float(v) for k, v in d.parameters.items()}
ds = {k: read_ec_benchmark_dataset(f"datasets/ec-benchmark_dataset_{k}.txt").values for k in ["A_1year", "B_1year", "C_1year", "D_1year"]}
import itertools
for a, b in itertools.permutations(ds, 2):
    for col in [0, 1]:
        A = ds[a][:, col]; B = ds[b][:, col]
        if len(B) > 30000: continue
        d = ExponentiatedWeibullDistribution(); d.fit(B)
        d2 = ExponentiatedWeibullDistribution(); d2.fit(A); d2.fit(B)
        fr, re = f(d), f(d2)
        rel = max(abs(fr[k]-re[k])/abs(fr[k]) for k in fr)
        if rel > 1e-3: print(a, b, col, rel, fr, re)
print("done")
