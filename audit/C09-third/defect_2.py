"""C09 defect 2: the fit option 'weights' of a CONDITIONAL dimension is not applied to
that dimension's observations interval by interval.

Distribution.fit documents weights as "an array_like with one weight for each point in
data or a str". For dimension 0 of a joint model an array with one weight per row works.
For a conditional dimension the same array is handed UNSPLIT to the fit of every
interval, so the fit crashes (ValueError from np.lexsort) instead of fitting each
interval with the weights of exactly its own observations.

Exit status 0 if every interval estimate equals the stand-alone weighted fit of the
template to the observations (and their weights) of that interval, 1 otherwise.
"""
import copy
import sys
import warnings

import numpy as np

from virocon import (
    GlobalHierarchicalModel,
    ExponentiatedWeibullDistribution,
    DependenceFunction,
    WidthOfIntervalSlicer,
)

warnings.simplefilter("ignore")


def _power3(x, a, b, c):
    return a + b * x**c


bounds = [(0, None), (0, None), (None, None)]
template = ExponentiatedWeibullDistribution(f_delta=5)
dist_descriptions = [
    {
        "distribution": ExponentiatedWeibullDistribution(),
        "intervals": WidthOfIntervalSlicer(width=2),
    },
    {
        "distribution": template,
        "conditional_on": 0,
        "parameters": {
            "alpha": DependenceFunction(_power3, bounds),
            "beta": DependenceFunction(_power3, bounds),
        },
    },
]

rng = np.random.default_rng(0)
n = 2000
v = rng.weibull(2, n) * 10 + 0.1
hs = rng.weibull(1.5, n) * (0.5 + 0.1 * v) + 0.01
data = np.c_[v, hs]
w = rng.uniform(0.5, 2.0, n)  # one weight per observation (row)

# the same kind of weights is accepted for dimension 0 ...
model0 = GlobalHierarchicalModel(copy.deepcopy(dist_descriptions))
model0.fit(data, [{"method": "wlsq", "weights": w}, {"method": "wlsq"}])
print("array weights for dimension 0: accepted")

# ... but not for the conditional dimension 1
model = GlobalHierarchicalModel(dist_descriptions)
try:
    model.fit(data, [{"method": "wlsq"}, {"method": "wlsq", "weights": w}])
except Exception as e:  # noqa
    print(f"DEFECT: array weights for the conditional dimension 1 -> {type(e).__name__}: {e}")
    sys.exit(1)

cond = model.distributions[1]
ok = True
for (lower, upper), estimate in zip(
    cond.conditioning_interval_boundaries, cond.parameters_per_interval
):
    mask = (v >= lower) & (v < upper)
    alone = copy.deepcopy(template)
    alone.fit(hs[mask], "wlsq", w[mask])
    for k, val in alone.parameters.items():
        if not np.isclose(val, estimate[k], rtol=1e-9):
            print(f"interval [{lower}, {upper}): {k} = {estimate[k]} != stand-alone {val}")
            ok = False
sys.exit(0 if ok else 1)
