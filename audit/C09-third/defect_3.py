"""C09 defect 3: the fit option {"method": None} ("use the default") is applied
differently to the dimensions of one model.

ConditionalDistribution.fit treats method=None as "the distribution's default method"
(commit 6e6c7c6), so a conditional dimension accepts {"method": None}.  For an
unconditional dimension GlobalHierarchicalModel.fit passes the None positionally to
Distribution.fit, which calls None.lower() -> AttributeError.

Exit status 0 if {"method": None} gives, in every dimension, the same model as leaving
the fit description of that dimension out (None), 1 otherwise.
"""
import sys
import warnings

import numpy as np

from virocon import (
    GlobalHierarchicalModel,
    WeibullDistribution,
    LogNormalDistribution,
    DependenceFunction,
    NumberOfIntervalsSlicer,
)

warnings.simplefilter("ignore")


def make_model():
    def _power3(x, a, b, c):
        return a + b * x**c

    bounds = [(0, None), (0, None), (None, None)]
    return GlobalHierarchicalModel(
        [
            {
                "distribution": WeibullDistribution(),
                "intervals": NumberOfIntervalsSlicer(6),
            },
            {
                "distribution": LogNormalDistribution(),
                "conditional_on": 0,
                "parameters": {
                    "mu": DependenceFunction(_power3, bounds),
                    "sigma": DependenceFunction(_power3, bounds),
                },
            },
        ]
    )


rng = np.random.default_rng(0)
n = 2000
hs = rng.weibull(1.5, n) * 2 + 0.05
tz = np.exp(rng.normal(1 + 0.3 * np.sqrt(hs), 0.1 + 0.2 / (1 + hs)))
data = np.c_[hs, tz]

reference = make_model()
reference.fit(data, [None, None])

status = 0
for fit_descriptions in ([None, {"method": None}], [{"method": None}, None]):
    model = make_model()
    try:
        model.fit(data, fit_descriptions)
    except Exception as e:  # noqa
        print(f"{fit_descriptions}: DEFECT {type(e).__name__}: {e}")
        status = 1
        continue
    same = all(
        np.isclose(v, reference.distributions[0].parameters[k])
        for k, v in model.distributions[0].parameters.items()
    ) and all(
        np.isclose(a[k], b[k])
        for a, b in zip(
            model.distributions[1].parameters_per_interval,
            reference.distributions[1].parameters_per_interval,
        )
        for k in a
    )
    print(f"{fit_descriptions}: fitted, equal to the default fit: {same}")
    if not same:
        status = 1
sys.exit(status)
