# applies the suggested fixes to an in-memory copy of virocon.plotting and re-runs the defect programs
import sys, runpy, types
import virocon, virocon.plotting as vp
src = open(vp.__file__).read()
src = src.replace('ax.plot(x, dep_func(x), c="#004488", label=dep_func_label)',
                  'ax.plot(x, np.broadcast_to(dep_func(x), x.shape), c="#004488", label=dep_func_label)')
old = '''        sts.probplot(sample[:, dim], dist=dist_wrapper, fit=False, plot=ax)
        ax.get_lines()[0].set_markerfacecolor("k")
        ax.get_lines()[0].set_markeredgecolor("k")
        ax.get_lines()[0].set_marker("x")
        ax.get_lines()[0].set_markersize(3)
'''
new = '''        n_before = len(ax.get_lines())
        sts.probplot(sample[:, dim], dist=dist_wrapper, fit=False, plot=ax)
        _pts = ax.get_lines()[n_before]
        _pts.set_markerfacecolor("k")
        _pts.set_markeredgecolor("k")
        _pts.set_marker("x")
        _pts.set_markersize(3)
'''
assert old in src
src = src.replace(old, new)
src = src.replace("ax.get_lines()[0].set_rasterized(True)", "_pts.set_rasterized(True)")
src = src.replace("if len(ax.lines) > 1:\n            ax.lines[1].remove()", "if len(ax.lines) > n_before + 1:\n            ax.lines[n_before + 1].remove()")
mod = types.ModuleType("patched"); exec(compile(src, "patched", "exec"), mod.__dict__)
virocon.plot_dependence_functions = mod.plot_dependence_functions
virocon.plot_marginal_quantiles = mod.plot_marginal_quantiles
try:
    runpy.run_path(sys.argv[1], run_name="__main__")
except SystemExit as e:
    print("exit", e.code)
