"""C20 defect 1: plot_dependence_functions cannot draw a dependence function whose
value does not vary with x (func returns the scalar parameter), although the rest of
the library (fit, pdf, cdf, icdf, draw_sample, contours, the other plots) supports it.
Exit status 0 iff the dependence-function values are drawn unmodified."""
import sys
import matplotlib

matplotlib.use("Agg")
import numpy as np
import matplotlib.pyplot as plt
from virocon import (
    GlobalHierarchicalModel,
    WeibullDistribution,
    LogNormalDistribution,
    DependenceFunction,
    NumberOfIntervalsSlicer,
    IFORMContour,
    plot_dependence_functions,
)


def lin(x, a=1.0, b=0.5):
    return a + b * x


def const(x, a=0.3):  # sigma does not depend on the conditioning variable
    return a


def build(fit):
    dd = [
        {
            "distribution": WeibullDistribution(alpha=2, beta=1.5, gamma=0.1),
            "intervals": NumberOfIntervalsSlicer(5),
        },
        {
            "distribution": LogNormalDistribution(),
            "conditional_on": 0,
            "parameters": {
                "mu": DependenceFunction(lin, latex="$a + b * x$"),
                "sigma": DependenceFunction(const),
            },
        },
    ]
    model = GlobalHierarchicalModel(dd)
    if fit:
        sample = build(False).draw_sample(3000, random_state=1)
        model.fit(sample)
    return model


failed = False
for fit in (False, True):
    model = build(fit)
    # the model itself is perfectly usable
    pts = np.array([[1.0, 3.0], [2.0, 8.0]])
    assert np.all(np.isfinite(model.pdf(pts))) and np.all(np.isfinite(model.cdf(pts)))
    assert IFORMContour(model, 0.01, n_points=8).coordinates.shape == (8, 2)

    try:
        axes = plot_dependence_functions(model)
    except Exception as e:  # noqa
        print(f"fit={fit}: plot_dependence_functions raised {type(e).__name__}: {e}")
        failed = True
        continue
    dist = model.distributions[1]
    cv = dist.conditioning_values
    x = np.linspace(0, max(cv)) if cv is not None else np.linspace(0, 10)
    for ax, (par_name, dep) in zip(axes, dist.conditional_parameters.items()):
        xy = ax.get_lines()[0].get_xydata()
        expected = np.broadcast_to(dep(x), x.shape)
        if not (np.array_equal(xy[:, 0], x) and np.array_equal(xy[:, 1], expected)):
            print(f"fit={fit}: wrong line data for {par_name}")
            failed = True
    plt.close("all")

sys.exit(1 if failed else 0)
