"""C20 defect 2: plot_marginal_quantiles addresses "its" lines by absolute position
(ax.get_lines()[0], ax.lines[1]).  If an axes object passed via `axes` already holds one
line, the QQ points of the sample are REMOVED from the plot (and the foreign line is
restyled); nothing of the sample is drawn.
Exit status 0 iff every axes shows the ordered sample values against the model quantiles."""
import sys
import matplotlib

matplotlib.use("Agg")
import numpy as np
import matplotlib.pyplot as plt
from virocon import (
    GlobalHierarchicalModel,
    WeibullDistribution,
    NormalDistribution,
    plot_marginal_quantiles,
)

model = GlobalHierarchicalModel(
    [
        {"distribution": WeibullDistribution(alpha=2, beta=1.5, gamma=0.0)},
        {"distribution": NormalDistribution(mu=1.0, sigma=0.3)},
    ]
)
sample = model.draw_sample(200, random_state=1)

# reference: fresh axes
ref_axes = plot_marginal_quantiles(model, sample)
ref = [ax.get_lines()[0].get_xydata().copy() for ax in ref_axes]
for d in range(2):
    assert np.array_equal(ref[d][:, 1], np.sort(sample[:, d]))

# axes that already hold one line (e.g. a reference level drawn by the user)
fig, axs = plt.subplots(1, 2)
for ax in axs:
    ax.axhline(1.0, color="g")
plot_marginal_quantiles(model, sample, axes=axs)

failed = False
for d, ax in enumerate(axs):
    lines = ax.get_lines()
    has_sample = any(
        len(l.get_ydata()) == len(sample)
        and np.array_equal(np.asarray(l.get_ydata()), np.sort(sample[:, d]))
        and np.allclose(np.asarray(l.get_xdata()), ref[d][:, 0])
        for l in lines
    )
    user_line = [l for l in lines if l.get_color() == "g"]
    user_line_untouched = len(user_line) == 1 and user_line[0].get_marker() in (
        "None",
        None,
        "",
    )
    print(
        f"dim {d}: lines={[(l.get_marker(), l.get_color(), len(l.get_xdata())) for l in lines]}"
        f" sample drawn={has_sample} foreign line untouched={user_line_untouched}"
    )
    if not (has_sample and user_line_untouched):
        failed = True

sys.exit(1 if failed else 0)
