"""Row-alignment typing (DESIGN.md A.4) on canonical terms.

Every array expression derived from a per-observation array D gets an index
space: 'pos' (aligned with the rows of D), 'rank' (aligned with D sorted),
'chunk' (an unordered subset), 'neutral' (scalars, constants) or 'top'
(unknown).  Index arrays additionally carry what their *values* are
('positions' of D).  Elementwise operands, and a mask and the array it
indexes, must live in the same space.
"""
from .terms import G, alts, show

ELEMENTWISE = {"numpy.log", "numpy.log10", "numpy.exp", "numpy.sqrt", "numpy.abs", "numpy.square", "numpy.asarray",
               "numpy.asarray_chkfinite", "numpy.array", "numpy.isnan", "numpy.isfinite", "numpy.logical_not", "numpy.copy",
               "numpy.atleast_1d", "numpy.cos", "numpy.sin", "numpy.negative", "numpy.float64"}
BINARY_EW = {"numpy.logical_and", "numpy.logical_or", "numpy.multiply", "numpy.add", "numpy.subtract", "numpy.divide",
             "numpy.power", "numpy.maximum", "numpy.minimum", "numpy.less", "numpy.less_equal", "numpy.greater", "numpy.greater_equal"}
REDUCTIONS = {"numpy.sum", "numpy.max", "numpy.min", "numpy.mean", "numpy.median", "numpy.std", "len", "numpy.size",
              "numpy.prod", "numpy.any", "numpy.all", "max", "min", "sum", "float", "int"}
CONST_LIKE = {"numpy.ones_like", "numpy.zeros_like", "numpy.full_like"}


class Tag:
    __slots__ = ("space", "values", "elem")

    def __init__(self, space, values=None, elem=None):
        self.space = space  # 'pos' | 'rank' | 'chunk' | 'neutral' | 'top' | 'list'
        self.values = values  # 'positions' or None
        self.elem = elem  # for lists: Tag of the elements

    def __repr__(self):
        s = self.space + ("<positions>" if self.values else "")
        if self.elem is not None:
            s += f"[{self.elem!r}]"
        return s

    def key(self):
        return (self.space, self.values, self.elem.key() if self.elem else None)


NEUTRAL = Tag("neutral")
TOP = Tag("top")


class Aligner:
    def __init__(self, seeds):
        """seeds: {term: Tag} for the per-observation inputs."""
        self.seeds = dict(seeds)
        self.violations = []
        self.memo = {}
        self.passthrough = {}  # callee term -> function(args, kws, aligner) -> Tag

    def viol(self, term, msg):
        self.violations.append((term, msg))

    def join(self, a, b, where):
        if a.space == "neutral":
            return b
        if b.space == "neutral":
            return a
        if a.space == "top" or b.space == "top":
            return TOP
        if a.space == b.space:
            return Tag(a.space, a.values if a.values == b.values else None)
        self.viol(where, f"elementwise operands live in different index spaces: {a!r} vs {b!r} in {show(where)[:120]}")
        return TOP

    def tag(self, t):
        if t in self.memo:
            return self.memo[t]
        r = self._tag(t)
        self.memo[t] = r
        return r

    def _tag(self, t):
        if t in self.seeds:
            return self.seeds[t]
        k = t[0]
        if k in ("const", "self", "global", "idx", "key", "func"):
            return NEUTRAL
        if k == "param":
            return NEUTRAL
        if k == "attr":
            b = self.tag(t[1])
            if t[2] in ("T", "real"):
                return b
            if t[2] in ("size", "shape", "ndim"):
                return NEUTRAL
            return NEUTRAL if b.space == "neutral" else TOP
        if k == "phi":
            out = None
            for a in t[1]:
                ta = self.tag(a)
                out = ta if out is None else self.join(out, ta, t)
            return out or TOP
        if k in ("bin", "cmp"):
            return self.join(self.tag(t[2]), self.tag(t[3]), t)
        if k in ("neg", "not", "inv", "isnone"):
            return self.tag(t[1])
        if k in ("and", "or"):
            out = NEUTRAL
            for a in t[1]:
                out = self.join(out, self.tag(a), t)
            return out
        if k == "ifexp":
            return self.join(self.tag(t[2]), self.tag(t[3]), t)
        if k in ("tuple", "list"):
            el = None
            for a in t[1]:
                ta = self.tag(a[1] if a[0] == "star" else a)
                el = ta if el is None else (ta if el.key() == ta.key() else TOP)
            return Tag("list", elem=el or NEUTRAL)
        if k == "comp":
            return Tag("list", elem=self.tag(t[2]))
        if k == "col":
            return self.tag(t[1])
        if k == "item":
            b = self.tag(t[1])
            if b.space == "list" and b.elem is not None:
                return b.elem
            return b
        if k == "sub":
            return self._sub(t)
        if k == "call":
            return self._call(t)
        return TOP

    def _sub(self, t):
        base, idx = self.tag(t[1]), t[2]
        if idx[0] == "slice":
            if base.space == "rank" and base.values == "positions":
                return Tag("chunk", "positions")
            if base.space == "list":
                return base
            if base.space == "chunk":
                return base
            if base.space in ("pos", "rank"):
                return Tag("top" if base.space == "pos" else "rank-slice", base.values) if False else Tag("chunk", base.values)
            return base
        if idx[0] in ("idx", "const", "key", "counter"):
            if base.space == "list" and base.elem is not None:
                return base.elem
            return NEUTRAL if base.space != "top" else TOP  # one element
        ti = self.tag(idx)
        if ti.space == "neutral":
            if base.space == "list" and base.elem is not None:
                return base.elem
            return NEUTRAL
        if ti.values == "positions":
            # fancy indexing with positions of D: base must be aligned with D
            if base.space not in ("pos", "neutral", "top"):
                self.viol(t, f"an array in {base!r} space is indexed with positions of the data: {show(t)[:120]}")
            if ti.space == "rank":
                return Tag("rank")
            return Tag("chunk")
        # boolean mask (or unknown index array): spaces must agree
        if base.space in ("pos", "rank") and ti.space in ("pos", "rank") and base.space != ti.space:
            self.viol(t, f"a mask aligned with {ti!r} indexes an array aligned with {base!r}: {show(t)[:120]}")
            return TOP
        if base.space == "list":
            return base.elem or TOP
        return Tag("chunk") if base.space in ("pos", "rank") else base

    def _call(self, t):
        f, args, kw = t[1], t[2], dict(t[3])
        if f in self.passthrough:
            return self.passthrough[f](args, kw, self)
        name = f[1] if f[0] == "global" else None
        if name is None and f[0] == "attr":
            # method calls on arrays
            base = self.tag(f[1])
            if f[2] in ("sum", "max", "min", "mean", "any", "all", "size"):
                return NEUTRAL
            if f[2] in ("copy", "astype", "ravel", "flatten", "lower"):
                return base
            if f[2] == "tolist":
                return base
            return TOP if base.space not in ("neutral",) else NEUTRAL
        if name in ELEMENTWISE and args:
            return self.tag(args[0])
        if name in BINARY_EW and len(args) >= 2:
            return self.join(self.tag(args[0]), self.tag(args[1]), t)
        if name in REDUCTIONS:
            return NEUTRAL
        if name in CONST_LIKE:
            return NEUTRAL
        if name == "numpy.argsort" and args:
            a = self.tag(args[0])
            if a.space == "pos":
                return Tag("rank", "positions")
            return TOP
        if name == "numpy.lexsort" and not args and "keys" in kw:
            args = (kw["keys"],)      # np.lexsort(keys=(...))
        if name == "numpy.lexsort" and args and args[0][0] in ("tuple", "list") and args[0][1]:
            a = self.tag(args[0][1][-1])
            if a.space == "pos":
                for other in args[0][1][:-1]:
                    o = self.tag(other)
                    if o.space not in ("pos", "neutral"):
                        self.viol(t, f"lexsort keys live in different index spaces: {o!r} vs {a!r}")
                return Tag("rank", "positions")
            return TOP
        if name == "numpy.sort" and args:
            a = self.tag(args[0])
            if a.space == "pos":
                return Tag("rank")
            return a
        if name == "sorted" and args:
            a = self.tag(args[0])
            return Tag("rank") if a.space == "pos" else a
        if name == "numpy.arange" and args:
            # arange(len(D)) is aligned with D and position valued; arange(1, n+1) is a rank sequence
            a0 = args[0] if len(args) == 1 else None
            if a0 is not None and a0[0] == "call" and a0[1] == G("len") and a0[2]:
                s = self.tag(a0[2][0])
                if s.space == "pos":
                    return Tag("pos", "positions")
                if s.space == "rank":
                    return Tag("rank")
            if len(args) == 2:
                # arange(1, len(x)+1): plotting positions of the sorted sample
                hi = args[1]
                for sub in ([hi] + ([hi[2], hi[3]] if hi[0] == "bin" else [])):
                    if sub[0] == "call" and sub[1] == G("len") and sub[2]:
                        s = self.tag(sub[2][0])
                        if s.space == "rank":
                            return Tag("rank")
                        if s.space == "pos":
                            return Tag("rank")  # 1..n enumerates ranks, whatever array gave n
            return NEUTRAL
        if name == "numpy.split" and args:
            a = self.tag(args[0])
            return Tag("list", elem=Tag("chunk", a.values) if a.space in ("rank", "chunk", "pos") else TOP)
        if name == "numpy.isin" and len(args) >= 2:
            a, b = self.tag(args[0]), self.tag(args[1])
            if b.values == "positions" and a.values != "positions":
                self.viol(t, f"membership of non-position values in a set of positions: {show(t)[:120]}")
            if a.values == "positions" and b.values == "positions" and a.space == "rank":
                self.viol(t, "np.isin(<argsort>, <positions>) yields a mask indexed by sorted RANK, not by input position: "
                             "for unsorted data it marks the wrong observations")
                return Tag("rank")
            return Tag(a.space)
        if name == "numpy.where" and len(args) == 3:
            return self.join(self.join(self.tag(args[0]), self.tag(args[1]), t), self.tag(args[2]), t)
        if name == "numpy.nonzero" and args:
            a = self.tag(args[0])
            return Tag(a.space, None)  # used to index arrays of the same space
        if name in ("numpy.append", "numpy.concatenate", "numpy.linspace", "numpy.arange"):
            tags = [self.tag(a) for a in args] + [self.tag(v) for v in kw.values()]
            if all(x.space == "neutral" or (x.space == "list" and (x.elem is None or x.elem.space == "neutral")) for x in tags):
                return NEUTRAL
            return TOP
        if name in ("zip", "enumerate", "list", "tuple", "range"):
            if args:
                return self.tag(args[0])
            return NEUTRAL
        # a function of scalars / constants only is not row-aligned with anything
        tags = [self.tag(a[1] if a[0] == "star" else a) for a in args] + [self.tag(v) for v in kw.values()]
        if all(x.space == "neutral" for x in tags):
            return NEUTRAL
        return TOP
