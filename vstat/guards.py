"""Path conditions of statements (structured) and guard sites."""
import ast

from .cfg import cfg_of
from .terms import neg_test


def _always_exits(stmts):
    """Every path through the block leaves it by raise/return/continue/break."""
    for st in stmts:
        if isinstance(st, (ast.Raise, ast.Return, ast.Continue, ast.Break)):
            return True
        if isinstance(st, ast.If):
            if st.orelse and _always_exits(st.body) and _always_exits(st.orelse):
                return True
        if isinstance(st, ast.Try):
            if (_always_exits(st.body) or (st.orelse and _always_exits(st.orelse))) and all(_always_exits(h.body) for h in st.handlers):
                return True
        if isinstance(st, (ast.With,)):
            if _always_exits(st.body):
                return True
    return False


def _never_none(v):
    """a value that cannot be None: arithmetic, numbers, numpy results"""
    if v[0] in ("bin", "neg", "cmp", "tuple", "list", "dict", "cols", "col", "comp"):
        return True
    if v[0] == "const":
        return v[1] is not None
    return v[0] == "call" and v[1][0] == "global" and v[1][1].startswith(("numpy.", "scipy.", "max", "min", "len", "abs", "float", "int", "sum"))


def _choice_not_none(x):
    """x is a value chosen between a never-None expression (under c) and None (otherwise): 'x is not None' says exactly c."""
    if x[0] == "ifexp":
        if x[3] == ("const", None) and _never_none(x[2]):
            return literals(x[1], True)
        if x[2] == ("const", None) and _never_none(x[3]):
            return literals(x[1], False)
    if x[0] == "gphi" and len(x[1]) == 2:
        (k1, v1), (k2, v2) = sorted(x[1], key=repr)
        for (ka, va), (kb, vb) in (((k1, v1), (k2, v2)), ((k2, v2), (k1, v1))):
            if vb == ("const", None) and _never_none(va) and not any(l[0] == "otherwise" for l in ka):
                return list(ka)
    return None


def literals(t, positive=True):
    """Flatten a test term into a list of literals that all hold."""
    if t[0] == "call" and t[1] == ("global", "bool") and len(t[2]) == 1 and not t[3]:
        return literals(t[2][0], positive)   # bool(x) as a condition is x
    if t[0] == "ifexp" and ("const", False) in (t[2], t[3]) or t[0] == "ifexp" and ("const", True) in (t[2], t[3]):
        # a boolean chosen by a test: (A if c else False) is (c and A), (True if c else B) is (c or B), ...
        c, a, b_ = t[1], t[2], t[3]
        if b_ == ("const", False):
            return literals(("and", (c, a)), positive)
        if a == ("const", False):
            return literals(("and", (("not", c), b_)), positive)
        if a == ("const", True):
            return literals(("or", (c, b_)), positive)
        if b_ == ("const", True):
            return literals(("or", (("not", c), a)), positive)
    if positive and t[0] == "not" and t[1][0] == "isnone":
        imp = _choice_not_none(t[1][1])
        if imp is not None:
            return imp
    if not positive and t[0] == "isnone":
        imp = _choice_not_none(t[1])
        if imp is not None:
            return imp
    if positive:
        if t[0] == "and":
            out = []
            for x in t[1]:
                out += literals(x, True)
            return out
        if t[0] == "not":
            return literals(t[1], False)
        return [t]
    if t[0] == "or":
        out = []
        for x in t[1]:
            out += literals(x, False)
        return out
    if t[0] == "not":
        return literals(t[1], True)
    if t[0] == "and":
        # not (a and b) is (not a) or (not b): one disjunctive literal, the same a test written `not a or not b` gives
        parts = []
        for x in t[1]:
            ls = literals(x, False)
            parts.append(ls[0] if len(ls) == 1 else ("and", tuple(ls)))
        return [("or", tuple(parts))]
    return [neg_test(t)]


class PathConditions:
    """pc[id(stmt)] = tuple of literal terms known to hold when stmt starts."""

    def __init__(self, fn, builder):
        self.fn = fn
        self.b = builder
        self.pc = {}
        self.raw = {}  # id(stmt) -> list of (if stmt, polarity)
        self._block(fn.body, (), ())

    def _block(self, stmts, cur, raw):
        cur = tuple(cur)
        raw = tuple(raw)
        for st in stmts:
            self.pc[id(st)] = cur
            self.raw[id(st)] = raw
            if isinstance(st, ast.If):
                t = self.b.term(st.test, st)
                pos = tuple(literals(t, True))
                neg = tuple(literals(t, False))
                self._block(st.body, cur + pos, raw + ((st, True),))
                self._block(st.orelse, cur + neg, raw + ((st, False),))
                if _always_exits(st.body):
                    cur = cur + neg
                    raw = raw + ((st, False),)
                elif st.orelse and _always_exits(st.orelse):
                    cur = cur + pos
                    raw = raw + ((st, True),)
                else:
                    # an if / elif / else chain some of whose arms leave: what follows runs under the disjunction of the others
                    surv, leaves = self._survivors([st])
                    if surv is not None and 1 <= len(surv) < leaves:
                        common = [l for l in surv[0] if all(l in s for s in surv)]
                        cur = cur + tuple(l for l in common if l not in cur)
                        rest = [tuple(l for l in s if l not in common) for s in surv]
                        if len(surv) > 1 and all(rest):
                            cur = cur + (("or", tuple(r[0] if len(r) == 1 else ("and", r) for r in rest)),)
            elif isinstance(st, ast.While):
                t = self.b.term(st.test, st)
                self._block(st.body, cur + tuple(literals(t, True)), raw + ((st, True),))
                self._block(st.orelse, cur, raw)
            elif isinstance(st, (ast.For, ast.AsyncFor)):
                self._block(st.body, cur, raw)
                self._block(st.orelse, cur, raw)
            elif isinstance(st, (ast.With, ast.AsyncWith)):
                self._block(st.body, cur, raw)
            elif isinstance(st, ast.Try):
                self._block(st.body, cur, raw)
                self._block(st.orelse, cur, raw)
                for h in st.handlers:
                    ht = self.b.term(h.type, st) if h.type is not None else ("const", "BaseException")
                    self._block(h.body, cur + (("handler", ht),), raw + ((h, True),))
            elif isinstance(st, ast.Assert):
                t = self.b.term(st.test, st)
                cur = cur + tuple(literals(t, True))

    def _survivors(self, stmts, limit=8):
        """(paths, leaves): the literal conjunctions under which the block completes normally, and the number of
        branch leaves met; (None, 0) when too many.  Statements other than if are taken to complete."""
        paths, leaves = [()], 1
        for st in stmts:
            if isinstance(st, (ast.Raise, ast.Return, ast.Continue, ast.Break)):
                return [], leaves
            if isinstance(st, ast.If):
                t = self.b.term(st.test, st)
                pos, neg = tuple(literals(t, True)), tuple(literals(t, False))
                sb, lb = self._survivors(st.body, limit)
                so, lo = self._survivors(st.orelse, limit)
                if sb is None or so is None:
                    return None, 0
                arms = [pos + s for s in sb] + [neg + s for s in so]
                paths = [p + a for p in paths for a in arms]
                leaves = leaves * (lb + lo)
                if len(paths) > limit or leaves > 4 * limit:
                    return None, 0
            elif isinstance(st, ast.Try) and _always_exits([st]):
                return [], leaves
        return paths, leaves

    def of(self, st):
        return self.pc.get(id(st), ())


_pcs = {}


def path_conditions(prog, fn, builder):
    key = (id(builder),)
    if key not in _pcs:
        _pcs[key] = PathConditions(fn, builder)
    return _pcs[key]


def exception_name(raise_stmt, builder):
    """Dotted name of the exception class raised by ``raise X(...)`` / ``raise X``."""
    e = raise_stmt.exc
    if e is None:
        return None
    t = builder.term(e, raise_stmt)
    if t[0] == "call":
        t = t[1]
    if t[0] == "global":
        return t[1]
    return None
