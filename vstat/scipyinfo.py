"""Static facts about the scipy build the repository runs against, read with
``ast`` from the scipy sources (never imported)."""
import ast
import glob
import os

from .loader import AnalysisError

_cache = {}


def _scipy_stats_dir():
    for pat in ("/venv/lib/python3*/site-packages/scipy/stats",):
        for d in sorted(glob.glob(pat)):
            if os.path.isfile(os.path.join(d, "_continuous_distns.py")):
                return d
    raise AnalysisError("scipy sources not found below /venv")


def _load():
    if _cache:
        return _cache
    d = _scipy_stats_dir()
    with open(os.path.join(d, "_continuous_distns.py"), encoding="utf-8") as fh:
        tree = ast.parse(fh.read())
    gens = {}
    inst = {}
    for st in tree.body:
        if isinstance(st, ast.ClassDef):
            gens[st.name] = st
        elif isinstance(st, ast.Assign) and isinstance(st.value, ast.Call) and isinstance(st.value.func, ast.Name):
            for t in st.targets:
                if isinstance(t, ast.Name):
                    inst[t.id] = st.value.func.id
    shapes = {}
    for name, gen in inst.items():
        cls = gens.get(gen)
        if cls is None:
            continue
        sh = None
        # explicit shapes= in the instantiation is not used by the families virocon wraps
        for m in cls.body:
            if isinstance(m, ast.FunctionDef) and m.name == "_shape_info":
                names = []
                for n in ast.walk(m):
                    if isinstance(n, ast.Call) and isinstance(n.func, ast.Name) and n.func.id == "_ShapeInfo" and n.args:
                        if isinstance(n.args[0], ast.Constant):
                            names.append((n.lineno, n.col_offset, n.args[0].value))
                rets = [n for n in ast.walk(m) if isinstance(n, ast.Return)]
                if rets and isinstance(rets[-1].value, ast.List):
                    # order as returned
                    order = []
                    for el in rets[-1].value.elts:
                        if isinstance(el, ast.Call) and el.args and isinstance(el.args[0], ast.Constant):
                            order.append(el.args[0].value)
                        elif isinstance(el, ast.Name):
                            # variable assigned from a _ShapeInfo call
                            for n in ast.walk(m):
                                if isinstance(n, ast.Assign) and any(isinstance(t, ast.Name) and t.id == el.id for t in n.targets):
                                    if isinstance(n.value, ast.Call) and n.value.args and isinstance(n.value.args[0], ast.Constant):
                                        order.append(n.value.args[0].value)
                    sh = order
                elif names:
                    sh = [x[2] for x in sorted(names)]
        if sh is None:
            for m in cls.body:
                if isinstance(m, ast.FunctionDef) and m.name in ("_pdf", "_cdf", "_logpdf"):
                    sh = [a.arg for a in m.args.args[2:]]
                    break
        if sh is not None:
            shapes[name] = sh
    # fit keyword grammar anchor
    with open(os.path.join(d, "_distn_infrastructure.py"), encoding="utf-8") as fh:
        infra = fh.read()
    for needle in ("'f' + str(j)", "'f' + s", "'fix_' + s", "'floc'", "'fscale'"):
        if needle not in infra:
            raise AnalysisError(f"scipy fit keyword grammar anchor {needle!r} not found in _distn_infrastructure.py")
    _cache["shapes"] = shapes
    _cache["dir"] = d
    _cache["gens"] = gens
    _cache["inst"] = inst
    return _cache


def shapes(dist):
    s = _load()["shapes"]
    if dist not in s:
        raise AnalysisError(f"scipy distribution {dist} not found in _continuous_distns.py")
    return list(s[dist])


def positional_signature(dist):
    """Positional parameters after the data argument of cdf/ppf/pdf/rvs."""
    return shapes(dist) + ["loc", "scale"]


def fit_keys_for_slot(dist, slot):
    """Valid ``fit`` keywords that fix positional slot ``slot`` of ``dist``."""
    sh = shapes(dist)
    if slot < len(sh):
        return {f"f{slot}", f"f{sh[slot]}", f"fix_{sh[slot]}"}
    if slot == len(sh):
        return {"floc"}
    if slot == len(sh) + 1:
        return {"fscale"}
    return set()


def all_fit_keys(dist):
    out = set()
    for i in range(len(shapes(dist)) + 2):
        out |= fit_keys_for_slot(dist, i)
    return out


def _own_nodes(fn):
    """nodes of a function body without those of nested functions / lambdas / classes"""
    stack = list(fn.body)
    while stack:
        n = stack.pop()
        yield n
        for c in ast.iter_child_nodes(n):
            if isinstance(c, (ast.FunctionDef, ast.AsyncFunctionDef, ast.Lambda, ast.ClassDef)):
                continue
            stack.append(c)


def fit_transforms(dist):
    """Slots of ``dist`` (positional names: shapes..., 'loc', 'scale') for which the family's OWN ``fit`` (an override of
    rv_continuous.fit in its *_gen class) hands back something else than the value it was told to hold fixed.

    Positive evidence only: the override returns a tuple whose element for the slot is a local name N, some assignment
    gives N the fixed keyword's value (``N = floc`` or ``N = floc if ... else ...``) and a LATER assignment rewrites it
    from itself (``N = g(N)``).  Returns {slot: (line, source of the rewriting assignment)}; a family without an override
    (the generic fit restores fixed values itself) gives {}."""
    c = _load()
    gen = c["gens"].get(c["inst"].get(dist))
    if gen is None:
        raise AnalysisError(f"scipy distribution {dist} not found in _continuous_distns.py")
    fit = next((m for m in gen.body if isinstance(m, ast.FunctionDef) and m.name == "fit"), None)
    if fit is None:
        return {}
    sig = positional_signature(dist)
    out = {}
    assigns = []  # (lineno, name, value node)
    for n in _own_nodes(fit):
        if isinstance(n, ast.Assign) and len(n.targets) == 1 and isinstance(n.targets[0], ast.Name):
            assigns.append((n.lineno, n.targets[0].id, n.value, n))
    fixed_names = {"floc", "fscale", "fshape", "fc", "fa", "fs", "fkappa"} | {f"f{x}" for x in sig}

    def holds_fixed(v):
        if isinstance(v, ast.Name):
            return v.id in fixed_names
        if isinstance(v, ast.IfExp):
            return holds_fixed(v.body) or holds_fixed(v.orelse)
        if isinstance(v, ast.BoolOp):
            return any(holds_fixed(x) for x in v.values)
        return False
    for n in _own_nodes(fit):
        if not (isinstance(n, ast.Return) and isinstance(n.value, ast.Tuple) and len(n.value.elts) == len(sig)):
            continue
        for slot, el in zip(sig, n.value.elts):
            if not isinstance(el, ast.Name):
                continue
            mine = sorted((a for a in assigns if a[1] == el.id), key=lambda a: a[0])
            first_fixed = next((a for a in mine if holds_fixed(a[2])), None)
            if first_fixed is None:
                continue
            for ln, _nm, v, node in mine:
                if ln > first_fixed[0] and ln < n.lineno and isinstance(v, (ast.BinOp, ast.Call)) \
                        and any(isinstance(x, ast.Name) and x.id == el.id for x in ast.walk(v)):
                    out[slot] = (ln, ast.unparse(node))
    return out


def rvs_override(dist):
    """(line, source) when the family's *_gen class replaces ``rvs`` itself (not ``_rvs``) by something that post-processes the
    draws - then ``rvs(*shapes, loc, scale)`` is NOT loc + scale * standard draw and need not follow the family's own cdf;
    None for the generic rvs."""
    c = _load()
    gen = c["gens"].get(c["inst"].get(dist))
    if gen is None:
        raise AnalysisError(f"scipy distribution {dist} not found in _continuous_distns.py")
    m = next((m for m in gen.body if isinstance(m, ast.FunctionDef) and m.name == "rvs"), None)
    if m is None:
        return None
    rets = [n for n in _own_nodes(m) if isinstance(n, ast.Return) and n.value is not None]
    for r in rets:
        v = r.value
        plain = isinstance(v, ast.Call) and isinstance(v.func, ast.Attribute) and v.func.attr == "rvs" and isinstance(v.func.value, ast.Call) \
            and isinstance(v.func.value.func, ast.Name) and v.func.value.func.id == "super"
        if not plain:
            return (r.lineno, ast.unparse(r))
    return None
