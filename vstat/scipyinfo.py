"""Static facts about the scipy build the repository runs against, read with
``ast`` from the scipy sources (never imported)."""
import ast
import glob
import os

from .loader import AnalysisError

_cache = {}


def _scipy_stats_dir():
    for pat in ("/venv/lib/python3*/site-packages/scipy/stats",):
        for d in sorted(glob.glob(pat)):
            if os.path.isfile(os.path.join(d, "_continuous_distns.py")):
                return d
    raise AnalysisError("scipy sources not found below /venv")


def _load():
    if _cache:
        return _cache
    d = _scipy_stats_dir()
    with open(os.path.join(d, "_continuous_distns.py"), encoding="utf-8") as fh:
        tree = ast.parse(fh.read())
    gens = {}
    inst = {}
    for st in tree.body:
        if isinstance(st, ast.ClassDef):
            gens[st.name] = st
        elif isinstance(st, ast.Assign) and isinstance(st.value, ast.Call) and isinstance(st.value.func, ast.Name):
            for t in st.targets:
                if isinstance(t, ast.Name):
                    inst[t.id] = st.value.func.id
    shapes = {}
    for name, gen in inst.items():
        cls = gens.get(gen)
        if cls is None:
            continue
        sh = None
        # explicit shapes= in the instantiation is not used by the families virocon wraps
        for m in cls.body:
            if isinstance(m, ast.FunctionDef) and m.name == "_shape_info":
                names = []
                for n in ast.walk(m):
                    if isinstance(n, ast.Call) and isinstance(n.func, ast.Name) and n.func.id == "_ShapeInfo" and n.args:
                        if isinstance(n.args[0], ast.Constant):
                            names.append((n.lineno, n.col_offset, n.args[0].value))
                rets = [n for n in ast.walk(m) if isinstance(n, ast.Return)]
                if rets and isinstance(rets[-1].value, ast.List):
                    # order as returned
                    order = []
                    for el in rets[-1].value.elts:
                        if isinstance(el, ast.Call) and el.args and isinstance(el.args[0], ast.Constant):
                            order.append(el.args[0].value)
                        elif isinstance(el, ast.Name):
                            # variable assigned from a _ShapeInfo call
                            for n in ast.walk(m):
                                if isinstance(n, ast.Assign) and any(isinstance(t, ast.Name) and t.id == el.id for t in n.targets):
                                    if isinstance(n.value, ast.Call) and n.value.args and isinstance(n.value.args[0], ast.Constant):
                                        order.append(n.value.args[0].value)
                    sh = order
                elif names:
                    sh = [x[2] for x in sorted(names)]
        if sh is None:
            for m in cls.body:
                if isinstance(m, ast.FunctionDef) and m.name in ("_pdf", "_cdf", "_logpdf"):
                    sh = [a.arg for a in m.args.args[2:]]
                    break
        if sh is not None:
            shapes[name] = sh
    # fit keyword grammar anchor
    with open(os.path.join(d, "_distn_infrastructure.py"), encoding="utf-8") as fh:
        infra = fh.read()
    for needle in ("'f' + str(j)", "'f' + s", "'fix_' + s", "'floc'", "'fscale'"):
        if needle not in infra:
            raise AnalysisError(f"scipy fit keyword grammar anchor {needle!r} not found in _distn_infrastructure.py")
    _cache["shapes"] = shapes
    _cache["dir"] = d
    return _cache


def shapes(dist):
    s = _load()["shapes"]
    if dist not in s:
        raise AnalysisError(f"scipy distribution {dist} not found in _continuous_distns.py")
    return list(s[dist])


def positional_signature(dist):
    """Positional parameters after the data argument of cdf/ppf/pdf/rvs."""
    return shapes(dist) + ["loc", "scale"]


def fit_keys_for_slot(dist, slot):
    """Valid ``fit`` keywords that fix positional slot ``slot`` of ``dist``."""
    sh = shapes(dist)
    if slot < len(sh):
        return {f"f{slot}", f"f{sh[slot]}", f"fix_{sh[slot]}"}
    if slot == len(sh):
        return {"floc"}
    if slot == len(sh) + 1:
        return {"fscale"}
    return set()


def all_fit_keys(dist):
    out = set()
    for i in range(len(shapes(dist)) + 2):
        out |= fit_keys_for_slot(dist, i)
    return out
