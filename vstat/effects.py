"""Alias classes, mutation sites and per-function effect summaries (DESIGN.md A.3).

origins(term) -> set of roots whose storage the value may share:
   ('param', name) | ('self',) | ('selfattr', attr) | ('global', dotted) | ('unknown',)
A fresh value has no origin.  Summaries {mutated roots, written self attributes, returned aliases}
are propagated over the (name-based, class-hierarchy) call graph to a fixpoint.
"""
import ast

from .cfg import cfg_of
from .terms import builder, alts, G, SELF, show
from .numpydoc import parameters as doc_params

# external callables returning an alias (view / same object) of their first argument
ALIAS_CALLS = {"numpy.asarray", "numpy.asarray_chkfinite", "numpy.atleast_1d", "numpy.atleast_2d", "numpy.atleast_3d", "numpy.ravel",
               "numpy.reshape", "numpy.transpose", "numpy.squeeze", "numpy.asanyarray", "numpy.swapaxes", "numpy.moveaxis", "numpy.broadcast_to"}
ALIAS_METHODS = {"ravel", "reshape", "squeeze", "transpose", "view", "swapaxes", "items", "values", "keys"}
MUTATING_METHODS = {"sort", "append", "extend", "insert", "pop", "remove", "update", "clear", "fill", "resize", "setdefault", "put",
                    "itemset", "partition", "reverse", "popitem", "add", "discard", "setflags", "byteswap"}
MUTATING_FUNCS = {"numpy.put": 0, "numpy.place": 0, "numpy.copyto": 0, "numpy.fill_diagonal": 0, "numpy.put_along_axis": 0,
                  "numpy.random.shuffle": 0, "random.shuffle": 0}
# drawing from a random generator advances it: hidden state when the generator lives on the object, the class or the module
# (a generator handed in as an argument is the caller's to advance)
RNG_DRAW_METHODS = {"normal", "uniform", "random", "random_sample", "rand", "randn", "randint", "integers", "choice", "shuffle", "permutation",
                    "standard_normal", "multivariate_normal", "bytes", "seed"}
IMMUTABLE_DOC = ("str", "int", "float", "bool", "tuple", "callable", "number", "scalar")
# drawing on a supplied matplotlib Axes is the documented purpose of the plotting functions
AXES_PARAMS = {"ax", "axes"}


def _basic_index(idx):
    if idx[0] == "slice":
        return True
    if idx[0] in ("const", "idx", "counter", "key"):
        return True
    if idx[0] == "tuple":
        return all(_basic_index(x) or x == ("const", None) for x in idx[1])
    if idx[0] == "param":
        return True  # an integer index in practice; a view either way is the conservative answer
    if idx[0] == "bin" and all(_basic_index(x) for x in idx[2:]):
        return True
    return False


class Effects:
    def __init__(self, prog):
        self.prog = prog
        self.summ = {}  # qualname -> dict(mut=set(roots), selfw=set(attrs), ret=set(roots), sites=[...])
        self.by_name = {}
        for q, f in prog.functions.items():
            if isinstance(f.node, ast.Lambda):
                continue
            self.by_name.setdefault(f.name, []).append(f)
        self._local = {}
        for q, f in prog.functions.items():
            if isinstance(f.node, ast.Lambda):
                continue
            self._local[q] = self._analyse(f)
            self.summ[q] = {"mut": set(self._local[q]["mut"]), "selfw": set(self._local[q]["selfw"]), "ret": set(self._local[q]["ret"]),
                            "why": dict(self._local[q]["why"])}
        self._fixpoint()

    # ------------------------------------------------------------- origins
    def origins(self, t, fn, depth=0):
        k = t[0]
        if depth > 30:
            return {("unknown",)}
        if k == "param":
            return {("param", t[1])} if len(t) == 2 else {("outer", t[1])}
        if k == "self":
            return {("self",)}
        if k in ("const", "func", "idx", "key", "cyc", "counter", "fstr", "cmp", "isnone", "not", "and", "or", "neg", "inv", "comp", "dict", "set", "local"):
            return set()
        if k in ("tuple", "list", "cols", "rows"):
            out = set()
            for a in t[1]:
                out |= self.origins(a[1] if a[0] == "star" else a, fn, depth + 1)
            return out
        if k == "bin":
            return set()  # arithmetic allocates
        if k == "global":
            d = t[1]
            if d.startswith("virocon."):
                mod, _, name = d.rpartition(".")
                m = self.prog.modules.get(mod)
                if m is not None and name in m.constants:
                    v = m.constants[name]
                    if isinstance(v, (ast.List, ast.Dict, ast.Set, ast.Call, ast.ListComp, ast.DictComp)):
                        return {("global", d)}
            return set()
        if k == "phi":
            out = set()
            for a in t[1]:
                out |= self.origins(a, fn, depth + 1)
            return out
        if k == "gphi":
            out = set()
            for _, a in t[1]:
                out |= self.origins(a, fn, depth + 1)
            return out
        if k == "ifexp":
            return self.origins(t[2], fn, depth + 1) | self.origins(t[3], fn, depth + 1)
        if k == "attr":
            if t[2] in ("shape", "size", "ndim", "dtype", "__name__", "__class__", "name"):
                return set()
            base = self.origins(t[1], fn, depth + 1)
            out = set()
            for b in base:
                if b == ("self",):
                    out.add(("selfattr", t[2]))
                else:
                    out.add(b)
            return out
        if k in ("col", "item"):
            return self.origins(t[1], fn, depth + 1)
        if k == "sub":
            if _basic_index(t[2]):
                return self.origins(t[1], fn, depth + 1)
            return set()  # fancy / boolean indexing copies
        if k == "call":
            f = t[1]
            if f[0] == "global":
                if f[1] in ALIAS_CALLS and t[2]:
                    return self.origins(t[2][0], fn, depth + 1)
                if f[1] in self.prog.classes:
                    return set()  # constructor: a new object
                if f[1] in self.prog.functions:
                    return self._ret_origins(self.prog.functions[f[1]], t, fn, None, depth)
                return set()
            if f[0] == "func":
                fi = self.prog.functions.get(f[1])
                if fi is not None:
                    return self._ret_origins(fi, t, fn, None, depth)
                return set()
            if f[0] == "attr":
                recv = f[1]
                if f[2] in ALIAS_METHODS:
                    return self.origins(recv, fn, depth + 1)
                if f[2] in ("copy", "tolist", "astype", "flatten", "lower", "upper", "strip", "split", "join", "format", "sum", "max", "min", "mean", "any", "all", "get"):
                    if f[2] == "get":
                        return self.origins(recv, fn, depth + 1)
                    return set()
                ro = self.origins(recv, fn, depth + 1)
                cands = self.callees(f, fn)
                out = set()
                for c in cands:
                    out |= self._ret_origins(c, t, fn, recv, depth)
                return out
            return set()
        return set()

    def _ret_origins(self, callee, call, fn, recv, depth):
        if any(("lru_cache" in d or d.endswith("cache") or "cached_property" in d or "memoize" in d) for d in callee.decorators):
            # a memoised function hands the SAME object to every caller
            return {("global", callee.qualname + "<memoised result>")}
        s = self.summ.get(callee.qualname)
        if s is None:
            return set()
        out = set()
        for r in s["ret"]:
            out |= self._map_root(r, callee, call, fn, recv, depth)
        return out

    def _map_root(self, r, callee, call, fn, recv, depth=0):
        """Translate a root of the callee into roots of the caller through the call's arguments."""
        if r[0] == "param":
            a = self._actual(callee, call, r[1], recv)
            if a is None:
                return set()
            return self.origins(a, fn, depth + 1)
        if r[0] in ("self", "selfattr"):
            if recv is None:
                return set()
            ro = self.origins(recv, fn, depth + 1)
            out = set()
            for x in ro:
                if x == ("self",) and r[0] == "selfattr":
                    out.add(("selfattr", r[1]))
                else:
                    out.add(x)
            return out
        if r[0] == "global":
            return {r}
        return set()

    def _actual(self, callee, call, pname, recv):
        pos = list(callee.positional_params)
        if pos and pos[0] == "self" and callee.cls is not None and not callee.is_static:
            pos = pos[1:]
        args = [a for a in call[2]]
        if pname in pos:
            i = pos.index(pname)
            if i < len(args) and args[i][0] != "star":
                return args[i]
        for k, v in call[3]:
            if k == pname:
                return v
        # *args / **kwargs: any starred actual may reach
        for a in args:
            if a[0] == "star":
                return a[1]
        for k, v in call[3]:
            if k == "**":
                return v
        return None

    def callees(self, f, fn):
        """Repo functions an attribute call may dispatch to (name-based class-hierarchy resolution)."""
        name = f[2]
        recv = f[1]
        if recv[0] == "global" and not recv[1].startswith("virocon"):
            return []
        if recv[0] == "call" and recv[1] == G("super") and fn.cls is not None:
            for c in fn.cls.mro[1:]:
                if name in c.methods:
                    return [c.methods[name]]
            return []
        if recv == SELF and fn.cls is not None:
            out = []
            m = self.prog.lookup_method(fn.cls, name)
            if m is not None:
                out.append(m)
            for c in self.prog.subclasses(fn.cls, strict=True):
                if name in c.methods and c.methods[name] not in out:
                    out.append(c.methods[name])
            return out
        return [c for c in self.by_name.get(name, []) if c.cls is not None and c.parent is None]

    # ------------------------------------------------------------ analysis
    def _immutable_param(self, fn, name):
        doc = doc_params(fn.node) if not isinstance(fn.node, ast.Lambda) else {}
        ty = doc.get(name, "").lower()
        if ty and any(w in ty for w in IMMUTABLE_DOC) and not any(w in ty for w in ("array", "list", "dict", "ndarray")):
            return True
        d = fn.defaults().get(name)
        if isinstance(d, ast.Constant) and isinstance(d.value, (int, float, str, bool)) and d.value is not None:
            return True
        return False

    def _analyse(self, fn):
        b = builder(self.prog, fn, inline=False)
        cfg = cfg_of(fn)
        mut, selfw, why = set(), set(), {}
        calls = []

        def note(roots, st, what):
            for r in roots:
                if r[0] == "param" and r[1] in AXES_PARAMS:
                    continue
                mut.add(r)
                why.setdefault(r, (getattr(st, "lineno", fn.node.lineno), what))

        for st in cfg.all_stmts():
            # stores
            if isinstance(st, (ast.Assign, ast.AugAssign, ast.AnnAssign)):
                tgts = st.targets if isinstance(st, ast.Assign) else [st.target]
                flat = []
                for t in tgts:
                    flat += list(t.elts) if isinstance(t, (ast.Tuple, ast.List)) else [t]
                for t in flat:
                    if isinstance(t, ast.Subscript):
                        base = b.term(t.value, st)
                        note(self.origins(base, fn), st, f"store into {ast.unparse(t)[:40]}")
                    elif isinstance(t, ast.Attribute):
                        base = b.term(t.value, st)
                        if base == SELF:
                            selfw.add(t.attr)
                        else:
                            note(self.origins(base, fn), st, f"attribute store {ast.unparse(t)[:40]}")
                    elif isinstance(t, ast.Name) and isinstance(st, ast.AugAssign):
                        cur = b.name(t.id, st, {})
                        roots = self.origins(cur, fn)
                        roots = {r for r in roots if not (r[0] == "param" and self._immutable_param(fn, r[1]))}
                        if roots and not self._scalar(cur):
                            note(roots, st, f"in-place {ast.unparse(st)[:40]}")
            elif isinstance(st, ast.Delete):
                for t in st.targets:
                    if isinstance(t, ast.Subscript):
                        note(self.origins(b.term(t.value, st), fn), st, f"del {ast.unparse(t)[:40]}")
                    elif isinstance(t, ast.Attribute):
                        base = b.term(t.value, st)
                        if base == SELF:
                            selfw.add(t.attr)
                        else:
                            note(self.origins(base, fn), st, f"del {ast.unparse(t)[:40]}")
            # calls
            exprs = [st.test] if isinstance(st, (ast.If, ast.While)) else [st.iter] if isinstance(st, ast.For) else \
                [it.context_expr for it in st.items] if isinstance(st, ast.With) else \
                [st] if isinstance(st, (ast.Assign, ast.Expr, ast.Return, ast.AugAssign, ast.AnnAssign, ast.Assert, ast.Raise, ast.Delete)) else []
            for e in exprs:
                for n in ast.walk(e):
                    if isinstance(n, ast.Call):
                        t = b.term(n, st)
                        if t[0] != "call":
                            continue
                        f = t[1]
                        kw = dict(t[3])
                        if "out" in kw:
                            note(self.origins(kw["out"], fn), st, "out= argument")
                        if f[0] == "global" and f[1] in MUTATING_FUNCS and t[2]:
                            note(self.origins(t[2][MUTATING_FUNCS[f[1]]], fn), st, f"{f[1]}(...)")
                        if f == G("setattr") and t[2]:
                            base = t[2][0]
                            if base == SELF:
                                selfw.add("<setattr>")
                            else:
                                note(self.origins(base, fn), st, "setattr(...)")
                        if f[0] == "global" and f[1].startswith("virocon.") and f[1].rpartition(".")[2] in MUTATING_METHODS:
                            # SHARED.append(...) on a module-level object (attribute folded into the dotted name)
                            note(self.origins(("global", f[1].rpartition(".")[0]), fn), st, f".{f[1].rpartition('.')[2]}(...) on module-level {f[1].rpartition('.')[0]}")
                        if f[0] == "attr" and f[2] in MUTATING_METHODS:
                            recv = f[1]
                            ro = self.origins(recv, fn)
                            note(ro, st, f".{f[2]}(...) on {show(recv)[:30]}")
                        if f[0] == "attr" and f[2] in RNG_DRAW_METHODS:
                            ro = {r for r in self.origins(f[1], fn) if r[0] in ("global", "selfattr")}
                            note(ro, st, f"draws from the random generator {show(f[1])[:30]} kept between calls (.{f[2]}(...) advances it)")
                        calls.append((st, t))
                    elif isinstance(n, ast.Attribute) and isinstance(n.ctx, ast.Load) and isinstance(n.value, ast.Name) and n.value.id == "self" and fn.cls is not None:
                        # property read = call of the getter
                        if self.prog.is_property(fn.cls, n.attr):
                            calls.append((st, ("call", ("attr", SELF, n.attr), (), (), "property")))
        ret = set()
        for st in cfg.all_stmts():
            if isinstance(st, ast.Return) and st.value is not None:
                ret |= self.origins(b.term(st.value, st), fn)
        return {"mut": mut, "selfw": selfw, "ret": ret, "why": why, "calls": calls}

    def _scalar(self, t):
        k = t[0]
        if k == "const":
            return True
        if k == "phi":
            return all(self._scalar(a) for a in t[1])
        if k == "bin":
            return self._scalar(t[2]) and self._scalar(t[3])
        if k == "call" and t[1][0] == "global" and t[1][1] in ("len", "int", "float", "numpy.sum", "numpy.max", "numpy.min", "numpy.mean", "numpy.sqrt", "max", "min", "abs", "numpy.abs"):
            return True
        if k == "call" and t[1][0] == "attr" and t[1][2] in ("sum", "max", "min", "mean"):
            return True
        if k == "cyc" or k == "counter":
            return True
        return False

    def _fixpoint(self):
        changed = True
        rounds = 0
        while changed and rounds < 20:
            changed = False
            rounds += 1
            for q, loc in self._local.items():
                fn = self.prog.functions[q]
                s = self.summ[q]
                for st, t in loc["calls"]:
                    f = t[1]
                    recv = None
                    cands = []
                    if len(t) == 5:  # property read
                        g = self.prog.lookup_method(fn.cls, f[2])
                        cands = [g] if g is not None else []
                        recv = SELF
                    elif f[0] == "func":
                        c = self.prog.functions.get(f[1])
                        cands = [c] if c is not None else []
                    elif f[0] == "global" and f[1] in self.prog.functions:
                        cands = [self.prog.functions[f[1]]]
                    elif f[0] == "global" and f[1] in self.prog.classes:
                        ci = self.prog.classes[f[1]]
                        init = self.prog.lookup_method(ci, "__init__")
                        cands = [init] if init is not None else []
                        recv = ("fresh",)
                    elif f[0] == "attr":
                        recv = f[1]
                        cands = self.callees(f, fn)
                    for c in cands:
                        cs = self.summ.get(c.qualname)
                        if cs is None:
                            continue
                        for r in list(cs["mut"]) + ([("self",)] if cs["selfw"] else []):
                            if recv == ("fresh",) and r[0] in ("self", "selfattr"):
                                continue
                            roots = self._map_root(r, c, t, fn, recv if recv != ("fresh",) else None)
                            if r == ("self",) and recv is not None and recv != ("fresh",):
                                # the callee writes attributes of its receiver
                                roots = set()
                                for x in self.origins(recv, fn):
                                    roots.add(x)
                                if recv == SELF:
                                    for a in cs["selfw"]:
                                        if a not in s["selfw"]:
                                            s["selfw"].add(a)
                                            changed = True
                                    roots.discard(("self",))
                            for x in roots:
                                if x[0] == "param" and x[1] in AXES_PARAMS:
                                    continue
                                if x not in s["mut"]:
                                    s["mut"].add(x)
                                    s["why"].setdefault(x, (getattr(st, "lineno", 0), f"via {c.qualname} ({cs['why'].get(r, ('', 'writes self attributes'))[1] if r != ('self',) else 'writes its own attributes ' + str(sorted(cs['selfw']))[:60]})"))
                                    changed = True
                # returned aliases through calls are recomputed lazily (origins uses the summaries)
                b = builder(self.prog, fn, inline=False)
                ret = set()
                for st in cfg_of(fn).all_stmts():
                    if isinstance(st, ast.Return) and st.value is not None:
                        ret |= self.origins(b.term(st.value, st), fn)
                if not ret <= s["ret"]:
                    s["ret"] |= ret
                    changed = True
        self.rounds = rounds
