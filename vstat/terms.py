"""Canonical terms (DESIGN.md A.1).

An expression evaluated at a program point is rewritten into a hashable tree in
which local names are replaced by their reaching definition(s), imports are
resolved to dotted names, column idioms are normalised and simple repo
functions / properties are looked through.  This is value numbering, not
execution: nothing is evaluated, no path is enumerated.
"""
import ast

from .cfg import cfg_of, ENTRY
from .dataflow import rd_of
from .loader import AnalysisError

NONE = ("const", None)
SELF = ("self",)

_BINOP = {ast.Add: "+", ast.Sub: "-", ast.Mult: "*", ast.Div: "/", ast.Pow: "**",
          ast.FloorDiv: "//", ast.Mod: "%", ast.MatMult: "@", ast.BitAnd: "&",
          ast.BitOr: "|", ast.BitXor: "^", ast.LShift: "<<", ast.RShift: ">>"}
_CMPOP = {ast.Eq: "==", ast.NotEq: "!=", ast.Lt: "<", ast.LtE: "<=", ast.Gt: ">",
          ast.GtE: ">=", ast.In: "in", ast.NotIn: "notin", ast.Is: "is", ast.IsNot: "isnot"}

# one function symbol for the math/numpy spellings of the same function
_SYNONYM = {
    "math.exp": "numpy.exp", "math.log": "numpy.log", "math.sqrt": "numpy.sqrt",
    "math.cos": "numpy.cos", "math.sin": "numpy.sin", "math.pi": "numpy.pi",
    "math.log10": "numpy.log10", "numpy.absolute": "numpy.abs", "math.fabs": "numpy.abs",
    "numpy.power": "numpy.power", "numpy.multiply": "numpy.multiply",
    "numpy.amax": "numpy.max", "numpy.amin": "numpy.min",
    "numpy.row_stack": "numpy.vstack",
}

_CMP_FUNCS = {"operator.lt": "<", "operator.le": "<=", "operator.gt": ">", "operator.ge": ">=", "operator.eq": "==",
              "numpy.less": "<", "numpy.less_equal": "<=", "numpy.greater": ">", "numpy.greater_equal": ">="}

MAX_DEPTH = 14


def is_const(t, v=None):
    return t[0] == "const" and (v is None or (t[1] == v and type(t[1]) is type(v)))


def G(name):
    return ("global", name)


_FLIP_OP = {"<": ">", ">": "<", "<=": ">=", ">=": "<=", "==": "==", "is": "is"}


def CMP(op, l, r):
    """Canonical comparison: 'a op b' and its mirrored spelling 'b op' a' are one term.  A constant goes to the right;
    two non-constant operands are ordered by their printed form ('!=', 'not in', 'is not' are ('not', ...) of these)."""
    if op in _FLIP_OP:
        lc, rc = l[0] == "const", r[0] == "const"
        if (lc and not rc) or (lc == rc and repr(l) > repr(r)):
            return ("cmp", _FLIP_OP[op], r, l)
    return ("cmp", op, l, r)


def ordered(l):
    """(lo, hi, strict) when the term says lo < hi (strict) or lo <= hi, whichever way round it is spelled; else None."""
    if l[0] == "cmp" and l[1] in ("<", "<="):
        return l[2], l[3], l[1] == "<"
    if l[0] == "cmp" and l[1] in (">", ">="):
        return l[3], l[2], l[1] == ">"
    return None


def IT(base, k):
    """k-th element of an unpacked value (tuple result of a call, ...)."""
    return canon_item(base, k)


def phi(alts):
    flat = set()
    for a in alts:
        if a[0] == "phi":
            flat |= set(a[1])
        else:
            flat.add(a)
    if len(flat) == 1:
        return next(iter(flat))
    return ("phi", frozenset(flat))


def alts(t):
    return set(t[1]) if t[0] == "phi" else {t}


def flat_alts(t):
    """Alternatives of a value through phi nodes and conditional expressions."""
    if t[0] == "phi":
        out = set()
        for a in t[1]:
            out |= flat_alts(a)
        return out
    if t[0] == "ifexp":
        return flat_alts(t[2]) | flat_alts(t[3])
    return {t}


def guarded_alts(t, limit=24):
    """[(literals, term)]: guarded alternatives (gphi keys, conditional expressions) pushed outward through
    the operators that contain them, so that a value assembled after a branch reads like one assembled inside it."""
    from .guards import literals as _lits

    def rec(t, depth):
        if not isinstance(t, tuple) or not t or not isinstance(t[0], str) or depth > 12:
            return [((), t)]
        tag = t[0]
        if tag == "gphi":
            out = []
            for k, v in sorted(t[1], key=repr):
                for k2, v2 in rec(v, depth + 1):
                    out.append((tuple(k) + k2, v2))
            return out
        if tag == "ifexp":
            out = []
            for k2, v2 in rec(t[2], depth + 1):
                out.append((tuple(_lits(t[1], True)) + k2, v2))
            for k2, v2 in rec(t[3], depth + 1):
                out.append((tuple(_lits(t[1], False)) + k2, v2))
            return out
        if tag in ("const", "param", "self", "global", "local", "func", "unknown", "idx", "phi", "comp", "dict", "fstr"):
            return [((), t)]
        # product over the direct children that are terms
        slots = []
        for i, x in enumerate(t):
            if i == 0:
                slots.append([((), x)])
            elif isinstance(x, tuple) and x and isinstance(x[0], str):
                slots.append(rec(x, depth + 1))
            elif isinstance(x, tuple) and tag in ("call", "tuple", "list", "cols", "and", "or") and all(isinstance(y, tuple) and y and isinstance(y[0], str) for y in x):
                inner = [[]]
                for y in x:
                    ys = rec(y, depth + 1)
                    inner = [a + [b] for a in inner for b in ys][:limit]
                slots.append([(sum((k for k, _ in a), ()), tuple(v for _, v in a)) for a in inner])
            else:
                slots.append([((), x)])
        combos = [((), [])]
        for sl in slots:
            combos = [(k + k2, vs + [v]) for k, vs in combos for k2, v in sl][:limit]
        out = []
        for k, vs in combos:
            # drop contradictory combinations (a literal together with its negation)
            ks = set(k)
            if any(("not", l) in ks for l in ks):
                continue
            tt = tuple(vs)
            if tt[0] in ("sub", "attr", "call", "item", "col", "cmp"):
                tt = recanon(tt)
            out.append((tuple(dict.fromkeys(k)), tt))
        return out or [((), t)]

    return rec(t, 0)


def strip_none(t):
    """``phi{X, None}`` used as an object (subscripted / called / attribute
    access) can only be X without raising."""
    if t[0] == "phi":
        rest = [a for a in t[1] if a != NONE]
        if rest and len(rest) < len(t[1]):
            return phi(rest)
    return t


def children(t):
    """Direct sub-terms of a term (knows the layout of every tag)."""
    if not isinstance(t, tuple) or not t or not isinstance(t[0], str):
        return
    tag = t[0]
    if tag in ("const", "param", "self", "global", "local", "func", "unknown", "cyc", "sym", "q", "idx"):
        if tag == "idx" and len(t) > 3 and isinstance(t[3], tuple):
            for a in t[3]:
                if isinstance(a, tuple):
                    yield a
        return
    if tag == "call":
        yield t[1]
        for a in t[2]:
            yield a
        for _, v in t[3]:
            yield v
        return
    if tag in ("tuple", "list", "set", "cols", "rows", "and", "or"):
        for a in t[1]:
            yield a
        return
    if tag == "dict":
        for k, v in t[1]:
            yield k
            yield v
        return
    if tag == "phi":
        for a in t[1]:
            yield a
        return
    if tag == "gphi":
        for lits, a in t[1]:
            for l in lits:
                yield l
            yield a
        return
    if tag == "fstr":
        for part in t[1]:
            if part[0] == "fmt":
                yield part[1]
            else:
                yield part
        return
    if tag == "comp":
        yield t[2]
        yield t[4]
        if isinstance(t[5], tuple):
            for c in t[5]:
                if isinstance(c, tuple) and c and isinstance(c[0], str) and c[0] != "nested":
                    yield c
        return
    # generic: every element that is itself a term
    for x in t[1:]:
        if isinstance(x, tuple) and x and isinstance(x[0], str):
            yield x
        elif isinstance(x, tuple):
            for y in x:
                if isinstance(y, tuple) and y and isinstance(y[0], str):
                    yield y
        elif isinstance(x, frozenset):
            for y in x:
                if isinstance(y, tuple) and y and isinstance(y[0], str):
                    yield y


def walk(t):
    """Pre-order walk of all sub-terms."""
    stack = [t]
    while stack:
        x = stack.pop()
        yield x
        stack.extend(children(x))


_TAGS = {"const", "param", "self", "attr", "global", "call", "sub", "col", "cols", "bin",
         "neg", "not", "inv", "cmp", "isnone", "and", "or", "ifexp", "tuple", "list", "set",
         "dict", "phi", "idx", "comp", "func", "fstr", "counter", "unknown", "slice", "star",
         "item", "cyc", "pos", "freevar", "poly", "rat", "pow"}


def contains(t, pred):
    return any(pred(s) for s in walk(t))


def mentions(t, sub):
    return any(s == sub for s in walk(t))


def subst(t, mapping):
    """Replace sub-terms according to mapping (term -> term), bottom-up rebuild."""
    if t in mapping:
        return mapping[t]
    if not isinstance(t, tuple):
        return t
    if t and isinstance(t[0], str) and t[0] in ("const", "global", "param", "self", "unknown"):
        return t
    out = []
    for x in t:
        if isinstance(x, tuple):
            out.append(subst(x, mapping))
        elif isinstance(x, frozenset):
            out.append(frozenset(subst(y, mapping) for y in x))
        else:
            out.append(x)
    res = tuple(out)
    if res and res[0] in ("sub", "attr", "call", "item", "phi", "col", "cmp"):
        res = recanon(res)
    return res


def degrade(t):
    """The term with every guarded or conditional choice read as a plain join (gphi / ifexp -> phi): the common form in
    which a term of a guarded builder can be compared with a term of a plain one."""
    if not isinstance(t, tuple) or not t:
        return t
    if isinstance(t[0], str):
        if t[0] == "gphi":
            return phi(degrade(v) for _k, v in t[1])
        if t[0] == "ifexp":
            return phi([degrade(t[2]), degrade(t[3])])
        if t[0] in ("const", "global", "param", "self", "unknown", "func", "local"):
            return t
    out = []
    for x in t:
        if isinstance(x, tuple):
            out.append(degrade(x))
        elif isinstance(x, frozenset):
            out.append(frozenset(degrade(y) for y in x))
        else:
            out.append(x)
    res = tuple(out)
    if res and isinstance(res[0], str) and res[0] in ("sub", "attr", "call", "item", "phi", "col", "cmp"):
        res = recanon(res)
    return res


def recanon(t):
    tag = t[0]
    if tag == "sub":
        return canon_sub(t[1], t[2])
    if tag == "attr":
        return canon_attr(t[1], t[2])
    if tag == "item":
        return canon_item(t[1], t[2])
    if tag == "call":
        return canon_call(t[1], t[2], t[3])
    if tag == "phi":
        return phi(t[1])
    if tag == "col":
        return canon_col(t[1], t[2])
    if tag == "cmp":
        return CMP(t[1], t[2], t[3])
    return t


def is_slice(t):
    return t[0] == "slice"


FULL = ("slice", NONE, NONE, NONE)


def canon_col(base, k):
    if base[0] == "cols" and k[0] == "const" and isinstance(k[1], int) and -len(base[1]) <= k[1] < len(base[1]):
        return base[1][k[1]]
    return ("col", base, k)


def canon_sub(base, idx):
    base = strip_none(base)
    # np.c_[u, v]
    if base == G("numpy.c_") and idx[0] == "tuple":
        return ("cols", idx[1])
    if idx[0] == "tuple" and len(idx[1]) == 2:
        a, b = idx[1]
        if a == FULL and not is_slice(b):
            return canon_col(base, b)
        if not is_slice(a) and not is_slice(b) and a != ("const", Ellipsis) and a != NONE and b != NONE:
            return canon_sub(canon_col(base, b), a)
    if base[0] in ("tuple", "list") and idx[0] == "const" and isinstance(idx[1], int):
        n = len(base[1])
        if -n <= idx[1] < n and not any(x[0] == "star" for x in base[1]):
            return base[1][idx[1]]
    if base[0] == "dict" and idx[0] == "const":
        for k, v in base[1]:
            if k == idx:
                return v
    if base[0] == "cols" and idx[0] == "tuple" and len(idx[1]) == 2 and idx[1][0] == FULL:
        return canon_col(base, idx[1][1])
    # list(zip(A, B))[i] / zip(A, B)[i]  ->  (A[i], B[i])
    zt = base[2][0] if (base[0] == "call" and base[1] == G("list") and len(base[2]) == 1 and not base[3]) else base
    if zt[0] == "call" and zt[1] == G("zip") and not [k_ for k_ in zt[3] if k_[0] != "strict"] and zt[2] and not is_slice(idx) and idx[0] != "tuple" and not any(a[0] == "star" for a in zt[2]):
        return ("tuple", tuple(canon_sub(a, idx) for a in zt[2]))
    # [f(d) for d in range(n)][k]  ->  f(k)
    if (base[0] == "comp" and base[1] == "list" and base[5] == () and base[4][0] == "call"
            and base[4][1] == G("range") and not is_slice(idx) and idx[0] != "tuple"):
        rargs = base[4][2]
        if len(rargs) == 1 or (len(rargs) == 2 and rargs[0] == ("const", 0)):
            var = ("idx", base[3], "range", rargs)
            return subst(base[2], {var: idx})
    return ("sub", base, idx)


def canon_item(base, k):
    """k-th element of an unpacked value."""
    if base[0] in ("tuple", "list") and isinstance(k, int) and not any(x[0] == "star" for x in base[1]):
        if k < len(base[1]):
            return base[1][k]
    if base[0] == "attr" and base[2] == "T" and isinstance(k, int):
        return canon_col(base[1], ("const", k))
    # a, b = map(f, (p, q)): the k-th result is f(k-th item)   (one iterable of known items)
    if base[0] == "call" and base[1] == G("map") and len(base[2]) == 2 and not base[3] and isinstance(k, int) and base[2][1][0] in ("tuple", "list") \
            and not any(x[0] == "star" for x in base[2][1][1]) and k < len(base[2][1][1]):
        return ("call", base[2][0], (base[2][1][1][k],), ())
    # a, b = {..}.values() / .keys() / .items() of a dict display
    if base[0] == "call" and base[1][0] == "attr" and base[1][1][0] == "dict" and not base[2] and isinstance(k, int) and k < len(base[1][1][1]):
        kv = base[1][1][1][k]
        if base[1][2] == "values":
            return kv[1]
        if base[1][2] == "keys":
            return kv[0]
        if base[1][2] == "items":
            return ("tuple", (kv[0], kv[1]))
    if base[0] == "phi":
        return phi(canon_item(a, k) for a in base[1])
    if base[0] == "gphi":
        return ("gphi", frozenset((lits, canon_item(a, k)) for lits, a in base[1]))
    if base[0] == "ifexp":
        return ("ifexp", base[1], canon_item(base[2], k), canon_item(base[3], k))
    if isinstance(k, int):
        return canon_sub(base, ("const", k))
    return ("item", base, k)


def _seq_items(t):
    if t[0] in ("tuple", "list"):
        return t[1]
    return None


def canon_attr(base, name):
    base = strip_none(base)
    if base[0] == "global":
        d = base[1] + "." + name
        return G(_SYNONYM.get(d, d))
    if name == "T":
        # np.stack((u, v)).T / np.array([u, v]).T / np.vstack((u, v)).T
        if base[0] == "call" and base[1] in (G("numpy.stack"), G("numpy.array"), G("numpy.vstack"), G("numpy.asarray")):
            if base[2] and not any(k == "axis" for k, _ in base[3]):
                items = _seq_items(base[2][0])
                if items is not None and len(items) >= 2 and all(k in ("dtype",) for k, _ in base[3]):
                    return ("cols", items)
        if base[0] == "cols":
            return ("rows", base[1])
    return ("attr", base, name)


# array reductions / scans that exist both as ndarray methods and as numpy functions with the array as first argument
_ARRAY_METHODS = {"sum", "prod", "max", "min", "mean", "std", "var", "all", "any", "cumsum", "cumprod", "argmax", "argmin", "argsort", "ravel", "nonzero"}


_UNARY_PURE = {"numpy.exp", "numpy.log", "numpy.sqrt", "numpy.log10", "numpy.log1p", "numpy.expm1", "numpy.reciprocal", "numpy.abs", "numpy.square",
               "math.exp", "math.log", "math.sqrt", "numpy.asarray", "numpy.array", "float"}


def _boolish(t):
    """a term whose value is a truth value / boolean array whatever its operands are"""
    if t[0] in ("cmp", "not", "isnone", "and", "or"):
        return True
    if t[0] == "bin" and t[1] in ("&", "|"):
        return _boolish(t[2]) and _boolish(t[3])
    if t[0] == "call" and t[1][0] == "global" and t[1][1] in ("numpy.isnan", "numpy.isfinite", "numpy.isinf", "numpy.isin", "numpy.logical_not", "numpy.isclose"):
        return True
    return False


def canon_call(func, args, kws):
    func = strip_none(func)
    kwd = dict(kws)
    if func[0] == "attr" and func[2] in _ARRAY_METHODS and func[1][0] not in ("global", "self", "func", "const", "dict") and not any(a[0] == "star" for a in args):
        # X.sum(axis=k) is np.sum(X, axis=k)
        return canon_call(G("numpy." + func[2]), (func[1],) + tuple(args), kws)
    if func in (G("numpy.stack"),) and args:
        items = _seq_items(args[0])
        ax = kwd.get("axis", args[1] if len(args) > 1 else None)
        if items is not None and ax in (("const", 1), ("const", -1)) and len(items) >= 2:
            return ("cols", items)
    if func == G("numpy.column_stack") and args:
        items = _seq_items(args[0])
        if items is not None and len(items) >= 2:
            return ("cols", items)
    if func == G("numpy.transpose") and len(args) == 1 and not kws:
        return canon_attr(args[0], "T")
    if func == G("numpy.arange") and kws and all(k in ("start", "stop", "step") for k, _ in kws) and not any(a[0] == "star" for a in args):
        # keyword spelling of arange -> positional (start, stop[, step])
        kd = dict(kws)
        pos = list(args)
        if len(pos) == 1 and ("start" in kd or "stop" not in kd) is False:
            pass
        vals = {}
        if len(pos) == 1 and "stop" not in kd and "start" not in kd:
            vals["stop"] = pos[0]
        else:
            for n_, a_ in zip(("start", "stop", "step"), pos):
                vals[n_] = a_
        vals.update(kd)
        if "stop" in vals:
            out = [vals.get("start", ("const", 0)), vals["stop"]] + ([vals["step"]] if "step" in vals else [])
            if "start" not in vals and "step" not in vals:
                out = [vals["stop"]]
            return ("call", func, tuple(out), ())
    if func == G("dict") and len(args) == 1 and not kws and args[0][0] == "dict":
        return args[0]   # dict(d) of a display: a copy with the same entries
    if func == G("dict") and not args and all(k != "**" for k, _ in kws):
        # dict(a=x, b=y) is {"a": x, "b": y} (same insertion order)
        return ("dict", tuple((("const", k), v) for k, v in kws))
    if func == G("getattr") and len(args) == 2 and not kws and args[1][0] == "const" and isinstance(args[1][1], str):
        return canon_attr(args[0], args[1][1])

    if func[0] == "global" and func[1] in _CMP_FUNCS and len(args) == 2 and not kws:
        return CMP(_CMP_FUNCS[func[1]], args[0], args[1])
    # f(a if c else b) is f(a) if c else f(b) for a one-argument numerical function
    if func[0] == "global" and func[1] in _UNARY_PURE and len(args) == 1 and not kws and args[0][0] == "ifexp":
        a_ = args[0]
        return ("ifexp", a_[1], canon_call(func, (a_[2],), ()), canon_call(func, (a_[3],), ()))
    # np.logical_and(a, b), np.logical_and.reduce([a, b, c]), functools.reduce(np.logical_and, (a, b, c)) of truth-valued
    # operands are a & b & c (same for or / |)
    for fname, op in (("numpy.logical_and", "&"), ("numpy.logical_or", "|")):
        items = None
        if func == G(fname) and len(args) == 2 and not kws:
            items = tuple(args)
        elif func in (("attr", G(fname), "reduce"), G(fname + ".reduce")) and len(args) == 1 and not kws:
            items = _seq_items(args[0])
        elif func == G("functools.reduce") and len(args) == 2 and not kws and args[0] == G(fname):
            items = _seq_items(args[1])
        if items is not None and len(items) >= 2 and all(_boolish(x) for x in items):
            out = items[0]
            for x in items[1:]:
                out = ("bin", op, out, x)
            return out
    # expand *tuple
    if any(a[0] == "star" for a in args):
        new = []
        for a in args:
            if a[0] == "star" and a[1][0] in ("tuple", "list") and not any(x[0] == "star" for x in a[1][1]):
                new.extend(a[1][1])
            else:
                new.append(a)
        args = tuple(new)
    return ("call", func, tuple(args), tuple(sorted(kws, key=lambda kv: kv[0])))


def show(t, depth=0):
    """Readable rendering of a term for reports."""
    if not isinstance(t, tuple) or not t:
        return repr(t)
    tag = t[0]
    if tag == "const":
        return repr(t[1])
    if tag == "param":
        return t[1]
    if tag == "local":
        return t[1]
    if tag == "self":
        return "self"
    if tag == "global":
        return t[1]
    if tag == "attr":
        return f"{show(t[1])}.{t[2]}"
    if tag == "call":
        a = [show(x) for x in t[2]] + [f"{k}={show(v)}" for k, v in t[3]]
        return f"{show(t[1])}({', '.join(a)})"
    if tag == "sub":
        return f"{show(t[1])}[{show(t[2])}]"
    if tag == "col":
        return f"{show(t[1])}[:, {show(t[2])}]"
    if tag == "cols":
        return "cols(" + ", ".join(show(x) for x in t[1]) + ")"
    if tag == "rows":
        return "rows(" + ", ".join(show(x) for x in t[1]) + ")"
    if tag == "slice":
        p = [("" if x == NONE else show(x)) for x in t[1:]]
        return ":".join(p[:2]) + ("" if t[3] == NONE else ":" + p[2])
    if tag == "bin":
        return f"({show(t[2])} {t[1]} {show(t[3])})"
    if tag == "neg":
        return f"-{show(t[1])}"
    if tag == "not":
        return f"not {show(t[1])}"
    if tag == "inv":
        return f"~{show(t[1])}"
    if tag == "cmp":
        return f"({show(t[2])} {t[1]} {show(t[3])})"
    if tag == "isnone":
        return f"({show(t[1])} is None)"
    if tag in ("and", "or"):
        return "(" + f" {tag} ".join(show(x) for x in t[1]) + ")"
    if tag == "ifexp":
        return f"({show(t[2])} if {show(t[1])} else {show(t[3])})"
    if tag in ("tuple", "list", "set"):
        br = {"tuple": "()", "list": "[]", "set": "{}"}[tag]
        return br[0] + ", ".join(show(x) for x in t[1]) + br[1]
    if tag == "dict":
        return "{" + ", ".join(f"{show(k)}: {show(v)}" for k, v in t[1]) + "}"
    if tag == "phi":
        return "phi{" + " | ".join(sorted(show(x) for x in t[1])) + "}"
    if tag == "gphi":
        return "gphi{" + " | ".join(sorted(("&".join(show(l) for l in k) + " -> " + show(v)) for k, v in t[1])) + "}"
    if tag == "idx":
        return f"<{t[2]}@{t[1]}>"
    if tag == "star":
        return "*" + show(t[1])
    if tag == "item":
        return f"{show(t[1])}#{t[2]}"
    if tag == "counter":
        return f"<counter {t[1]} from {show(t[2])} step {show(t[3])}>"
    if tag == "func":
        return f"<func {t[1]}>"
    if tag == "comp":
        conds = t[5] if isinstance(t[5], tuple) else ()
        cs = " and ".join(show(c) if isinstance(c, tuple) and c and isinstance(c[0], str) else str(c) for c in conds)
        return f"[{show(t[2])} for {t[3]} in {show(t[4])}" + (f" if {cs}" if cs else "") + "]"
    if tag == "fstr":
        return "f'" + "".join(x[1] if x[0] == "const" and isinstance(x[1], str) else "{" + show(x) + "}" for x in t[1]) + "'"
    if tag == "unknown":
        return f"<?{t[1]}>"
    return "<" + tag + " " + " ".join(show(x) if isinstance(x, tuple) else str(x) for x in t[1:]) + ">"


class TermBuilder:
    def __init__(self, prog, fn, self_cls=None, inline=True, depth=MAX_DEPTH, bindings=None, _stack=()):
        self.prog = prog
        self.fn = fn
        self.self_cls = self_cls if self_cls is not None else fn.cls
        self.inline = inline
        self.depth = depth
        self.rd = rd_of(fn)
        self.cfg = self.rd.cfg
        self.memo = {}
        self._active = []
        self._call_stack = _stack
        self.bindings = bindings or {}  # param name -> term (for inlining)
        self._parent_builder = None
        self.guarded = False
        self.shallow = False
        self.no_inline = frozenset()
        self._pcs = None
        self._pc_busy = False
        self._no_prune = False

    # --------------------------------------------------------------- helpers
    def _node(self, at):
        if isinstance(at, (int, str)):
            return at
        return self.cfg.node(at)

    def parent_builder(self):
        if self._parent_builder is None and self.fn.parent is not None:
            self._parent_builder = TermBuilder(self.prog, self.fn.parent, self.self_cls, self.inline,
                                               self.depth, _stack=self._call_stack)
        return self._parent_builder

    # ------------------------------------------------------------------ names
    def name(self, ident, at, env):
        if ident in env:
            return env[ident]
        if self.shallow and self.rd.all_defs(ident) and ident not in self.rd.global_names:
            d = self.rd.all_defs(ident)
            if all(x.kind == "param" for x in d):
                if ident == "self" and self.fn.cls is not None and not self.fn.is_static:
                    return SELF
                return ("param", ident)
            return ("local", ident)
        node = self._node(at)
        if ident in self.rd.global_names:
            return self.global_name(ident)
        defs = self.rd.reaching(ident, node)
        defs = [d for d in defs if d.kind != "del"]
        if not defs:
            anyd = self.rd.all_defs(ident)
            if anyd and ident not in self.rd.nonlocal_names:
                # defined somewhere in the function but no def reaches: use all (flow-insensitive)
                return phi(self.def_term(d) for d in anyd if d.kind != "del") if any(d.kind != "del" for d in anyd) else ("unknown", f"undefined {ident}")
            return self.free_name(ident)
        c = self._counter(ident, defs)
        if c is not None:
            return c
        self._use_site = at
        if len(defs) > 1 and not self._pc_busy and not self._no_prune:
            defs = self._prune_by_bindings(defs)
        if self.guarded and len(defs) > 1:
            g = self._guarded(defs)
            if g is not None:
                return g
        return phi(self.def_term(d) for d in defs)

    def _prune_by_bindings(self, defs):
        """In a helper that is looked through with a CONSTANT actual argument (a flag), a definition under a branch that the
        constant rules out does not reach: f(x, flag=False) with 'if flag and ...: v = g(v)' leaves v as it was."""
        if self._pc_busy or any(d.kind not in ("assign", "unpack", "param", "aug") or getattr(d, "stmt", None) is None and d.kind != "param" for d in defs):
            return defs
        from .guards import PathConditions
        if self._pcs is None:
            plain = TermBuilder(self.prog, self.fn, self.self_cls, self.inline, self.depth)
            plain._no_prune = True
            self._pcs = PathConditions(self.fn, plain)
        m = {("param", k): v for k, v in self.bindings.items() if v[0] in ("const", "tuple", "list", "dict", "set")}

        def truth(t):
            if t in m:
                t = m[t]
            if t[0] == "const":
                return bool(t[1])
            if t[0] == "not":
                v = truth(t[1])
                return None if v is None else not v
            if t[0] == "isnone":
                x = m.get(t[1], t[1])
                if x[0] in ("tuple", "list", "dict", "set"):
                    return False    # a display is never None
                return x == ("const", None) if x[0] == "const" else None
            if t[0] in ("and", "or"):
                vs = [truth(x) for x in t[1]]
                if t[0] == "and":
                    return False if False in vs else True if all(v is True for v in vs) else None
                return True if True in vs else False if all(v is False for v in vs) else None
            return None
        keep = []
        certain = []   # definitions whose branch is certainly taken
        for d in defs:
            if d.kind == "param" or getattr(d, "stmt", None) is None:
                keep.append(d)
                continue
            try:
                lits = self._pcs.of(d.stmt)
            except Exception:
                return defs
            tv = [truth(l) for l in lits]
            if any(v is False for v in tv):
                continue
            keep.append(d)
            if lits and all(v is True for v in tv) and not self.cfg.enclosing_loops(d.stmt) and self.cfg.enclosing(d.stmt):
                certain.append(d)
        # 'v = a; if <certainly true>: v = b; use(v)': the earlier definition does not survive the branch
        use = getattr(self, "_use_site", None)
        for d2 in certain:
            top = self.cfg.enclosing(d2.stmt)[0][0]
            try:
                tn, un = self.cfg.node(top), self._node(use)
                if not self.cfg.dominates(tn, un) or any(p_ is top for p_, _w in self.cfg.enclosing(use)) if not isinstance(use, (int, str)) else not self.cfg.dominates(tn, un):
                    continue
            except Exception:
                continue
            keep = [d for d in keep if d is d2 or not (d.kind == "param" or (getattr(d, "stmt", None) is not None and not self.cfg.enclosing(d.stmt) and self.cfg.dominates(self.cfg.node(d.stmt), tn)))]
        return keep or defs

    def _guarded(self, defs):
        """('gphi', frozenset{(literals, term)}): alternatives of a multiply-defined name keyed by the path
        condition of the defining statement (common literals removed), so that correlated choices
        (x_idx/y_idx under swap_axis) stay distinguishable."""
        if self._pc_busy or any(d.kind not in ("assign", "unpack", "param") for d in defs):
            return None
        from .guards import PathConditions
        if self._pcs is None:
            # literals are computed by a separate, unguarded builder so that no half-built guarded term is memoised
            plain = TermBuilder(self.prog, self.fn, self.self_cls, self.inline, self.depth)
            plain._no_prune = True
            self._pcs = PathConditions(self.fn, plain)
        pcs = [tuple(self._pcs.of(d.stmt)) for d in defs]
        common = set(pcs[0])
        for pc in pcs[1:]:
            common &= set(pc)
        keyed = [tuple(l for l in pc if l not in common) for pc in pcs]
        empty = [i for i, k in enumerate(keyed) if not k]
        if len(empty) == 1 and all(len(k) == 1 for i, k in enumerate(keyed) if i != empty[0]):
            # one unconditional definition overridden inside if-branches: it survives where none of them ran
            keyed[empty[0]] = tuple(neg_test(k[0]) for i, k in enumerate(keyed) if i != empty[0])
        elif len(empty) == 1 and all(keyed[i] for i in range(len(keyed)) if i != empty[0]):
            # ... overridden under compound conditions: it survives 'otherwise' (the complement is not a conjunction of literals)
            keyed[empty[0]] = (("otherwise", tuple(sorted((repr(k) for i, k in enumerate(keyed) if i != empty[0])))),)
        if any(not k for k in keyed) or len(set(keyed)) != len(keyed):
            return None
        return ("gphi", frozenset((k, self.def_term(d)) for k, d in zip(keyed, defs)))

    def built_lists(self):
        """[(name, defining statement, loop, append statement, comprehension term)] for every list this function builds
        with one append in one for loop."""
        out = []
        for name in sorted(self.rd.names()) if hasattr(self.rd, "names") else []:
            pass
        seen = set()
        for st in self.cfg.all_stmts():
            if isinstance(st, ast.Assign) and len(st.targets) == 1 and isinstance(st.targets[0], ast.Name):
                nm = st.targets[0].id
                for d in self.rd.all_defs(nm):
                    if d.stmt is st and d.kind == "assign" and d.idx not in seen:
                        seen.add(d.idx)
                        t = self._built_list(nm, d, st)
                        if t is not None:
                            loop, app = self.memo[("built", d.idx)]
                            out.append((nm, st, loop, app, t))
        return out

    def list_values(self):
        """[(statement whose path condition applies, name, list-valued term)]: comprehensions (or choices between them)
        assigned to a name, and lists built by one append loop (statement = the append)."""
        out = []
        for st in self.cfg.all_stmts():
            if isinstance(st, ast.Assign) and len(st.targets) == 1 and isinstance(st.targets[0], ast.Name) and isinstance(st.value, (ast.ListComp, ast.IfExp)):
                out.append((st, st.targets[0].id, self.term(st.value, st)))
        for nm, dst, loop, app, t in self.built_lists():
            out.append((app, nm, t))
        return out

    def is_builder_append(self, stmt):
        return any(app is stmt for _n, _d, _l, app, _t in self.built_lists())

    def _built_list(self, ident, d, at):
        """``name = []`` filled by ONE ``name.append(elt)`` inside ONE for loop and read after that loop is the
        comprehension ``[elt for target in iter if conds]`` (same term as the comprehension spelling)."""
        v = d.value
        empty = (isinstance(v, ast.List) and not v.elts) or (isinstance(v, ast.Call) and isinstance(v.func, ast.Name) and v.func.id == "list" and not v.args and not v.keywords)
        if not empty or not isinstance(at, ast.AST) or d.stmt is None or not isinstance(d.stmt, ast.Assign) \
                or len(d.stmt.targets) != 1 or not isinstance(d.stmt.targets[0], ast.Name):
            return None
        key = ("built", d.idx)
        if key not in self.memo:
            self.memo[key] = None
            app = []
            ok = True
            stmt_of = {}
            for s_ in self.cfg.all_stmts():
                for n_ in ast.walk(s_) if not isinstance(s_, (ast.For, ast.While, ast.If, ast.Try, ast.With)) else ast.walk(getattr(s_, "test", None) or getattr(s_, "iter", None) or ast.Pass()):
                    stmt_of.setdefault(id(n_), s_)
            def mine(node):
                # only mutations of the list THIS definition created count (another branch may build or edit its own)
                host = stmt_of.get(id(node))
                return host is not None and [x.idx for x in self.rd.reaching(ident, self.cfg.node(host)) if x.kind != "del"] == [d.idx]

            own_loops = self.cfg.enclosing_loops(d.stmt)
            for n in _own_walk(self.fn.node):
                if isinstance(n, ast.Attribute) and isinstance(n.value, ast.Name) and n.value.id == ident:
                    if not mine(n):
                        continue
                    if n.attr == "append":
                        host = stmt_of.get(id(n))
                        if [l for l in self.cfg.enclosing_loops(host) if l not in own_loops]:
                            app.append(n)
                        # an append after the loop (closing element ...) is not part of the comprehension; as before, the
                        # term of the name does not model it
                    elif n.attr in ("extend", "insert", "pop", "remove", "clear", "sort", "reverse", "__setitem__"):
                        ok = False
                elif isinstance(n, (ast.Subscript,)) and isinstance(n.value, ast.Name) and n.value.id == ident and not isinstance(n.ctx, ast.Load):
                    if mine(n):
                        ok = False
            for s_ in self.cfg.all_stmts():
                if isinstance(s_, ast.AugAssign) and isinstance(s_.target, ast.Name) and s_.target.id == ident:
                    ok = False
            st = None
            if ok and len(app) == 1:
                for s_ in self.cfg.all_stmts():
                    if isinstance(s_, ast.Expr) and isinstance(s_.value, ast.Call) and s_.value.func is app[0] and len(s_.value.args) == 1 and not s_.value.keywords:
                        st = s_
            if st is not None:
                loops = [l for l in self.cfg.enclosing_loops(st) if l not in self.cfg.enclosing_loops(d.stmt)]
                if len(loops) == 1 and isinstance(loops[0], ast.For) and not loops[0].orelse \
                        and not any(isinstance(n, (ast.Break, ast.Return)) for n in ast.walk(loops[0])):
                    self.memo[key] = (loops[0], st)
        hit = self.memo[key]
        if hit is None:
            return None
        loop, st = hit
        if any(n is at for n in ast.walk(loop)):
            return None  # read inside the loop: still being built
        tkey = ("builtterm", d.idx)
        if tkey not in self.memo:
            from .guards import literals as _lits
            conds = []
            inside = False
            for parent, which in self.cfg.enclosing(st):
                if parent is loop:
                    inside = True
                    continue
                if not inside:
                    continue
                if isinstance(parent, ast.If):
                    conds += _lits(self.term(parent.test, parent), which == "body")
                else:
                    self.memo[tkey] = None  # nested loop / try / with between the loop and the append: not a plain comprehension
                    return None
            lid = f"{loop.lineno}:{loop.col_offset}"
            self.memo[tkey] = ("comp", "list", self.term(st.value.args[0], st), lid, self.term(loop.iter, loop), tuple(conds))
        return self.memo[tkey]

    def _counter(self, ident, defs):
        if len(defs) != 2:
            return None
        inc = other = None
        for d in defs:
            step = None
            if d.kind == "aug" and isinstance(d.stmt.op, (ast.Add, ast.Sub)):
                step = d.stmt.value
                sign = 1 if isinstance(d.stmt.op, ast.Add) else -1
            elif d.kind == "assign" and isinstance(d.value, ast.BinOp) and isinstance(d.value.op, (ast.Add, ast.Sub)):
                l, r = d.value.left, d.value.right
                if isinstance(l, ast.Name) and l.id == ident:
                    step = r
                    sign = 1 if isinstance(d.value.op, ast.Add) else -1
                elif isinstance(r, ast.Name) and r.id == ident and isinstance(d.value.op, ast.Add):
                    step = l
                    sign = 1
            if step is not None and isinstance(step, ast.Constant) and inc is None:
                inc = (d, ("const", sign * step.value))
            else:
                other = d
        if inc is None or other is None:
            return None
        loops = self.cfg.enclosing_loops(inc[0].stmt)
        if not loops:
            return None
        lp = loops[-1]
        return ("counter", ident, self.def_term(other), inc[1], f"{lp.lineno}")

    def _built_dict(self, ident, d, at):
        """``name = {}`` filled by ONE store ``name[key] = value`` inside ONE for loop (no other change of the dict) and read after that loop
        is the comprehension ``{key: value for target in iter if conds}``."""
        v = d.value
        empty = (isinstance(v, ast.Dict) and not v.keys) or (isinstance(v, ast.Call) and isinstance(v.func, ast.Name) and v.func.id == "dict" and not v.args and not v.keywords)
        if not empty or not isinstance(at, ast.AST) or d.stmt is None or not isinstance(d.stmt, ast.Assign) \
                or len(d.stmt.targets) != 1 or not isinstance(d.stmt.targets[0], ast.Name):
            return None
        key = ("builtdict", d.idx)
        if key not in self.memo:
            self.memo[key] = None
            stores = []
            ok = True
            own_loops = self.cfg.enclosing_loops(d.stmt)
            for s_ in self.cfg.all_stmts():
                for n in _stmt_own_walk(s_):
                    if isinstance(n, ast.Subscript) and isinstance(n.value, ast.Name) and n.value.id == ident and not isinstance(n.ctx, ast.Load):
                        if [x.idx for x in self.rd.reaching(ident, s_) if x.kind != "del"] != [d.idx]:
                            continue
                        if isinstance(s_, ast.Assign) and len(s_.targets) == 1 and s_.targets[0] is n and [l for l in self.cfg.enclosing_loops(s_) if l not in own_loops]:
                            stores.append(s_)
                        else:
                            ok = False
                    if isinstance(n, ast.Attribute) and isinstance(n.value, ast.Name) and n.value.id == ident and n.attr in ("update", "pop", "setdefault", "clear", "popitem"):
                        if [x.idx for x in self.rd.reaching(ident, s_) if x.kind != "del"] == [d.idx]:
                            ok = False
            if ok and len(stores) == 1:
                st = stores[0]
                loops = [l for l in self.cfg.enclosing_loops(st) if l not in own_loops]
                if len(loops) == 1 and isinstance(loops[0], ast.For) and not loops[0].orelse \
                        and not any(isinstance(n, (ast.Break, ast.Return)) for n in ast.walk(loops[0])):
                    self.memo[key] = (loops[0], st)
        hit = self.memo[key]
        if hit is None:
            return None
        loop, st = hit
        if any(n is at for n in ast.walk(loop)):
            return None
        tkey = ("builtdictterm", d.idx)
        if tkey not in self.memo:
            from .guards import literals as _lits
            conds = []
            inside = False
            for parent, which in self.cfg.enclosing(st):
                if parent is loop:
                    inside = True
                    continue
                if not inside:
                    continue
                if isinstance(parent, ast.If):
                    conds += _lits(self.term(parent.test, parent), which == "body")
                else:
                    self.memo[tkey] = None
                    return None
            lid = f"{loop.lineno}:{loop.col_offset}"
            self.memo[tkey] = ("comp", "dict", ("tuple", (self.term(st.targets[0].slice, st), self.term(st.value, st))), lid, self.term(loop.iter, loop), tuple(conds))
        return self.memo[tkey]

    def def_term(self, d):
        if d.kind == "assign" and isinstance(d.value, (ast.List, ast.Call)):
            bt = self._built_list(d.name, d, getattr(self, "_use_site", None))
            if bt is not None:
                return bt
        if d.kind == "assign" and isinstance(d.value, (ast.Dict, ast.Call)):
            bd = self._built_dict(d.name, d, getattr(self, "_use_site", None))
            if bd is not None:
                return bd
        key = ("def", d.idx)
        if key in self.memo:
            return self.memo[key]
        if key in self._active or len(self._active) > self.depth:
            return ("cyc", d.name)
        self._active.append(key)
        try:
            t = self._def_term(d)
        finally:
            self._active.pop()
        if not contains(t, lambda s: s[0] == "cyc"):
            self.memo[key] = t
        return t

    def _def_term(self, d):
        k = d.kind
        if k == "param":
            if d.name in self.bindings:
                return self.bindings[d.name]
            if d.name == "self" and self.fn.cls is not None and not self.fn.is_static and self.fn.positional_params[:1] == ["self"]:
                return SELF
            return ("param", d.name)
        if k == "assign":
            return self.term(d.value, d.stmt)
        if k == "unpack":
            t = self.term(d.value, d.stmt)
            for p in d.path:
                if isinstance(p, tuple):
                    t = ("item", t, p)
                else:
                    t = canon_item(t, p)
            return t
        if k == "aug":
            prev = self.name(d.name, d.stmt, {})
            op = _BINOP[type(d.stmt.op)]
            return ("bin", op, prev, self.term(d.value, d.stmt))
        if k == "for":
            return self.loop_target(d.stmt, d.value, d.path, d.stmt, {})
        if k == "def":
            sub = self.fn.children.get(d.stmt.name)
            return ("func", sub.qualname if sub else d.stmt.name)
        if k == "class":
            return G(f"{self.fn.qualname}.{d.stmt.name}")
        if k == "import":
            return ("unknown", "local import")
        if k == "with":
            return ("unknown", "with-as")
        if k == "except":
            return ("unknown", "exception object")
        return ("unknown", k)

    def loop_target(self, loop_node, iter_expr, path, at, env):
        """Term for the target (at tuple path) of ``for <target> in <iter_expr>``."""
        lid = f"{loop_node.lineno}:{loop_node.col_offset}"
        it = self.term(iter_expr, at, env)
        if it[0] == "call" and it[1] == G("enumerate") and it[2]:
            idx = ("idx", lid, "enumerate")
            if path and path[0] == 0:
                start = dict(it[3]).get("start", it[2][1] if len(it[2]) > 1 else None)
                if start is not None and start != ("const", 0):
                    return ("bin", "+", idx, start)
                return idx
            if path and path[0] == 1:
                t = canon_sub(it[2][0], idx)
                for p in path[1:]:
                    t = canon_item(t, p)
                return t
        if it[0] == "call" and it[1] == G("zip") and path and isinstance(path[0], int) and path[0] < len(it[2]):
            idx = ("idx", lid, "zip")
            t = canon_sub(it[2][path[0]], idx)
            for p in path[1:]:
                t = canon_item(t, p)
            return t
        if it[0] == "call" and it[1] == G("zip") and not path and it[2] and not [k_ for k_ in it[3] if k_[0] != "strict"]:
            # the whole element of a zip: the tuple of the zipped sequences' elements
            idx = ("idx", lid, "zip")
            return ("tuple", tuple(canon_sub(a_, idx) for a_ in it[2]))
        if it[0] == "call" and it[1] == G("range") and not path:
            return ("idx", lid, "range", it[2])
        if it[0] == "call" and it[0:2] == ("call", ("attr", None, "items"))[0:1] and False:
            pass
        # items of a dict comprehension {k(e): v(e) for e in seq}: the pairs are (k(e), v(e)) for the comprehension's own element
        if it[0] == "call" and it[1][0] == "attr" and it[1][2] == "items" and not it[2] and path and path[0] in (0, 1) \
                and it[1][1][0] == "comp" and it[1][1][1] == "dict" and it[1][1][2][0] == "tuple" and len(it[1][1][2][1]) == 2:
            t = it[1][1][2][1][path[0]]
            for p in path[1:]:
                t = canon_item(t, p)
            return t
        # dict.items()
        if it[0] == "call" and it[1][0] == "attr" and it[1][2] == "items" and not it[2] and path and path[0] in (0, 1):
            idx = ("idx", lid, "items")
            if path[0] == 0:
                return ("key", it[1][1], idx)
            t = canon_sub(it[1][1], ("key", it[1][1], idx))
            for p in path[1:]:
                t = canon_item(t, p)
            return t
        # for k in d.keys() / for k in <**kwargs formal>
        if it[0] == "call" and it[1][0] == "attr" and it[1][2] == "keys" and not it[2] and not path:
            return ("key", it[1][1], ("idx", lid, "items"))
        if it[0] == "param" and self.fn.node.args.kwarg is not None and self.fn.node.args.kwarg.arg == it[1] and not path:
            return ("key", it, ("idx", lid, "items"))
        if it[0] == "comp" and it[1] in ("list", "gen") and isinstance(it[5], tuple) and (not it[5] or it[5][0] != "nested"):
            # iterating a comprehension: the element is the comprehension's own element (for its own index)
            t = it[2]
            for p in path:
                t = canon_item(t, p)
            return t
        idx = ("idx", lid, "iter")
        t = canon_sub(it, idx)
        for p in path:
            t = canon_item(t, p)
        return t

    def global_name(self, ident):
        mod = self.fn.module
        if ident in mod.imports or ident in mod.classes or ident in mod.functions:
            d = self.prog.resolve_name(mod, ident)
            if d in self.prog.functions and d not in self.prog.classes:
                return ("func", d)
            return G(_SYNONYM.get(d, d))
        if ident in mod.constants:
            return G(f"{mod.name}.{ident}")
        import builtins
        if hasattr(builtins, ident):
            return G(ident)
        return ("unknown", f"name {ident}")

    def free_name(self, ident):
        """A name that is not local: enclosing function scope, then module, then builtins."""
        outer = getattr(self.fn, "outer", None)
        if self.fn.parent is not None or outer is not None:
            pb = self.parent_builder() if self.fn.parent is not None else TermBuilder(self.prog, outer, None, self.inline, self.depth)
            prd = pb.rd
            defs = [d for d in prd.all_defs(ident) if d.kind != "del"]
            if defs:
                # value at the point of the nested def if unique there, else all defs
                at = None
                for n, st in pb.cfg.stmt.items():
                    if st is self.fn.node:
                        at = n
                if at is not None and self.fn.parent is not None:
                    reach = [d for d in prd.reaching(ident, at) if d.kind != "del"]
                    # closures see later rebinding too; if the name is rebound after the def use all
                    later = [d for d in defs if d not in reach and d.node != ENTRY and pb.cfg.reachable(at, d.node)]
                    if reach and not later:
                        return phi(pb.def_term(d) for d in reach)
                return phi(pb.def_term(d) for d in defs)
            return pb.free_name(ident) if (pb.fn.parent is not None or getattr(pb.fn, "outer", None)) else pb.global_name(ident)
        return self.global_name(ident)

    # ------------------------------------------------------------ expressions
    def term(self, e, at, env=None):
        env = env or {}
        key = (id(e), self._node(at) if not env else None)
        if not env and key in self.memo:
            return self.memo[key]
        t = self._term(e, at, env)
        if not env and not contains(t, lambda s: s[0] == "cyc"):
            self.memo[key] = t
        return t

    def _term(self, e, at, env):
        T = lambda x: self.term(x, at, env)
        if isinstance(e, ast.Constant):
            return ("const", e.value)
        if isinstance(e, ast.Name):
            return self.name(e.id, at, env)
        if isinstance(e, ast.Attribute):
            base = T(e.value)
            return self.attr(base, e.attr)
        if isinstance(e, ast.Subscript):
            base = T(e.value)
            idx = self.index(e.slice, at, env)
            r = self.dict_store_lookup(e, base, idx, at)
            if r is not None:
                return r
            return canon_sub(base, idx)
        if isinstance(e, ast.Call):
            return self.call(e, at, env)
        if isinstance(e, ast.BinOp):
            l_, r_, op_ = T(e.left), T(e.right), _BINOP[type(e.op)]
            # 1 / (a if c else b) is (1 / a) if c else (1 / b): a choice is lifted out of an arithmetic operation with a constant
            if r_[0] == "ifexp" and l_[0] == "const":
                return ("ifexp", r_[1], ("bin", op_, l_, r_[2]), ("bin", op_, l_, r_[3]))
            if l_[0] == "ifexp" and r_[0] == "const":
                return ("ifexp", l_[1], ("bin", op_, l_[2], r_), ("bin", op_, l_[3], r_))
            return ("bin", op_, l_, r_)
        if isinstance(e, ast.UnaryOp):
            o = T(e.operand)
            if isinstance(e.op, ast.USub):
                if o[0] == "const" and isinstance(o[1], (int, float)) and not isinstance(o[1], bool):
                    return ("const", -o[1])
                return ("neg", o)
            if isinstance(e.op, ast.UAdd):
                return o
            if isinstance(e.op, ast.Not):
                return neg_test(o)
            return ("inv", o)
        if isinstance(e, ast.Compare):
            parts = []
            left = T(e.left)
            for op, right in zip(e.ops, e.comparators):
                r = T(right)
                parts.append(self.cmp(_CMPOP[type(op)], left, r))
                left = r
            return parts[0] if len(parts) == 1 else ("and", tuple(parts))
        if isinstance(e, ast.BoolOp):
            tag = "and" if isinstance(e.op, ast.And) else "or"
            return (tag, tuple(T(v) for v in e.values))
        if isinstance(e, ast.IfExp):
            tt, ta, tb = T(e.test), T(e.body), T(e.orelse)
            if tt[0] == "const" and isinstance(tt[1], (bool, int)) and not isinstance(tt[1], float):
                return ta if tt[1] else tb   # a flag known at this (inlined) call site chooses the branch
            if tt[0] == "not" and tt[1][0] == "const" and isinstance(tt[1][1], (bool, int)):
                return tb if tt[1][1] else ta
            if self.guarded:
                from .guards import literals as _lits
                return ("gphi", frozenset({(tuple(_lits(tt, True)), ta), (tuple(_lits(tt, False)), tb)}))
            return ("ifexp", tt, ta, tb)
        if isinstance(e, (ast.Tuple, ast.List, ast.Set)):
            tag = {ast.Tuple: "tuple", ast.List: "list", ast.Set: "set"}[type(e)]
            items = []
            for x in e.elts:
                if isinstance(x, ast.Starred):
                    s = T(x.value)
                    if s[0] in ("tuple", "list") and not any(y[0] == "star" for y in s[1]):
                        items.extend(s[1])
                    else:
                        items.append(("star", s))
                else:
                    items.append(T(x))
            if tag == "list" and items and items[0][0] == "star" and not any(y[0] == "star" for y in items[1:]) and len(items) >= 2:
                # [*a, b, c] is a + [b, c] (for a list a; a plain iterable gives the same elements, which is all the rules compare)
                return ("bin", "+", items[0][1], ("list", tuple(items[1:])))
            return (tag, tuple(items))
        if isinstance(e, ast.Dict):
            items = []
            for k, v in zip(e.keys, e.values):
                if k is None:
                    items.append((("const", "**"), T(v)))
                else:
                    items.append((T(k), T(v)))
            return ("dict", tuple(items))
        if isinstance(e, ast.Starred):
            return ("star", T(e.value))
        if isinstance(e, ast.Lambda):
            for sub in self.fn.children.values():
                if sub.node is e:
                    return ("func", sub.qualname)
            return ("unknown", "lambda")
        if isinstance(e, (ast.ListComp, ast.GeneratorExp, ast.SetComp, ast.DictComp)):
            return self.comp(e, at, env)
        if isinstance(e, ast.JoinedStr):
            parts = []
            for v in e.values:
                if isinstance(v, ast.Constant):
                    parts.append(("const", v.value))
                elif isinstance(v, ast.FormattedValue):
                    spec = ast.unparse(v.format_spec) if v.format_spec is not None else ""
                    parts.append(("fmt", T(v.value), v.conversion, spec))
            # an f-string all of whose pieces are constant strings (a name substituted by an inlined call) is that string
            if all(p_[0] == "const" or (p_[0] == "fmt" and p_[1][0] == "const" and isinstance(p_[1][1], str) and p_[2] == -1 and not p_[3]) for p_ in parts):
                return ("const", "".join(str(p_[1]) if p_[0] == "const" else p_[1][1] for p_ in parts))
            return ("fstr", tuple(parts))
        if isinstance(e, ast.Slice):
            return self.index(e, at, env)
        if isinstance(e, ast.NamedExpr):
            return T(e.value)
        return ("unknown", type(e).__name__)

    def cmp(self, op, l, r):
        if op == "is" and r == NONE:
            return ("isnone", l)
        if op == "isnot" and r == NONE:
            return ("not", ("isnone", l))
        if op == "is" and l == NONE:
            return ("isnone", r)
        if op == "isnot" and l == NONE:
            return ("not", ("isnone", r))
        if op == "notin":
            return ("not", ("cmp", "in", l, r))
        if op == "!=":
            return ("not", CMP("==", l, r))
        if op == "isnot":
            return ("not", CMP("is", l, r))
        return CMP(op, l, r)

    def index(self, s, at, env):
        T = lambda x: NONE if x is None else self.term(x, at, env)
        if isinstance(s, ast.Slice):
            return ("slice", T(s.lower), T(s.upper), T(s.step))
        if isinstance(s, ast.Tuple):
            return ("tuple", tuple(self.index(x, at, env) for x in s.elts))
        return self.term(s, at, env)

    def attr(self, base, name):
        if base == SELF and self.self_cls is not None and self.inline:
            ci = self.self_cls
            if self.prog.is_property(ci, name):
                getter = self.prog.lookup_method(ci, name)
                r = self.inline_call(getter, SELF, (), ())
                if r is not None:
                    return r
            # class attribute constant
        return canon_attr(base, name)

    # ------------------------------------------------------------------ calls
    def call(self, e, at, env):
        T = lambda x: self.term(x, at, env)
        func = T(e.func)
        args = []
        for a in e.args:
            if isinstance(a, ast.Starred):
                args.append(("star", T(a.value)))
            else:
                args.append(T(a))
        kws = []
        star_choice = None
        for k in e.keywords:
            if k.arg is None:
                v = T(k.value)
                # f(**{"a": x}) is f(a=x), and so is a forwarded **kwargs whose content the inliner knows; a local dict
                # that is filled by later stores is NOT expanded (its term is only the initial display)
                if v[0] == "dict" and all(kk[0] == "const" and isinstance(kk[1], str) and kk[1] != "**" for kk, _ in v[1]) \
                        and (isinstance(k.value, ast.Dict) or self._is_forwarded_kwargs(k.value)):
                    kws.extend((kk[1], vv) for kk, vv in v[1])
                elif v[0] in ("gphi", "phi", "ifexp") and star_choice is None and all(
                        a_[0] == "dict" and all(kk[0] == "const" and isinstance(kk[1], str) and kk[1] != "**" for kk, _ in a_[1]) for _l, a_ in top_alts(v)) \
                        and not self._mutated_local(k.value):
                    # f(x, **kw) with kw chosen between dict displays: the call is chosen between the corresponding calls
                    star_choice = (len(kws), v)
                    kws.append(("**", v))
                else:
                    upd = self._dict_updates(k.value, at, env)
                    if upd is None:
                        kws.append(("**", v))
                    elif upd == "opaque" and v[0] == "comp" and v[1] == "dict" and self._is_built_dict(k.value, at):
                        # filled by ONE store in ONE loop and nothing else: its term already is that comprehension (_built_dict)
                        kws.append(("**", v))
                    elif upd == "opaque":
                        # filled by stores this builder does not model (in a loop, under a condition, computed keys, update()):
                        # the call does not pass the dict its name was bound to
                        kws.append(("**", ("mutated", v)))
                    else:
                        # d = <dict>; d["k"] = x; f(**d)  is  f(**<dict>, k=x)
                        base = [("**", v)]
                        if v[0] == "dict" and all(kk[0] == "const" and isinstance(kk[1], str) and kk[1] != "**" for kk, _ in v[1]):
                            base = [(kk[1], vv) for kk, vv in v[1]]
                        for kk, vv in upd:
                            base = [x for x in base if x[0] != kk] + [(kk, vv)]
                        kws.extend(base)
            else:
                kws.append((k.arg, T(k.value)))
        if star_choice is not None:
            pos_, v_ = star_choice
            outs = []
            for lits, d_ in top_alts(v_):
                kk = kws[:pos_] + [(x[0][1], x[1]) for x in d_[1]] + kws[pos_ + 1:]
                outs.append((tuple(lits), self._finish_call(canon_call(func, tuple(args), tuple(kk)))))
            if all(l for l, _ in outs) and len({l for l, _ in outs}) == len(outs):
                return ("gphi", frozenset(outs))
            return phi(c for _l, c in outs)
        return self._finish_call(canon_call(func, tuple(args), tuple(kws)))

    def _dict_updates(self, node, at, env):
        """For a local name passed as **name: None when its object is never changed in place; [(key, value term)] when every
        change is a plain store name["const"] = value that is executed exactly once between the binding and the call
        (same block nesting as the call, no loop); "opaque" otherwise."""
        if not isinstance(node, ast.Name) or not self._mutated_local(node):
            return None
        cfg = cfg_of(self.fn)
        try:
            use = cfg.node(at)
        except Exception:
            return "opaque"
        defs = [d for d in self.rd.reaching(node.id, at) if d.kind != "param"] if hasattr(self, "rd") else []
        if len(defs) != 1 or getattr(defs[0], "stmt", None) is None:
            return "opaque"
        dnode = cfg.node(defs[0].stmt)
        out = []
        for st in cfg.all_stmts():
            hit = None
            for n in _stmt_own_walk(st):
                if isinstance(n, ast.Subscript) and isinstance(n.value, ast.Name) and n.value.id == node.id and not isinstance(n.ctx, ast.Load):
                    hit = n
                if isinstance(n, ast.Attribute) and isinstance(n.value, ast.Name) and n.value.id == node.id and n.attr in ("update", "pop", "setdefault", "clear", "popitem"):
                    return "opaque"
            if hit is None:
                continue
            sn = cfg.node(st)
            if not (cfg.reachable(dnode, sn) and cfg.reachable(sn, use)):
                if cfg.reachable(sn, use) or cfg.reachable(dnode, sn):
                    return "opaque"
                continue
            simple = isinstance(st, ast.Assign) and len(st.targets) == 1 and st.targets[0] is hit and isinstance(hit.slice, ast.Constant) \
                and isinstance(hit.slice.value, str) and not cfg.enclosing_loops(st) \
                and cfg.dominates(dnode, sn) and cfg.dominates(sn, use) and [id(p) for p, _ in cfg.enclosing(st)] == [id(p) for p, _ in cfg.enclosing(at)][:len(cfg.enclosing(st))]
            if not simple:
                return "opaque"
            out.append((st.lineno, hit.slice.value, self.term(st.value, st, env)))
        return [(k, v) for _ln, k, v in sorted(out, key=lambda x: x[0])]

    def _is_built_dict(self, node, at):
        """the local name's only definition reaching `at` is an empty dict whose filling loop _built_dict has read as a comprehension"""
        try:
            defs = [x for x in self.rd.reaching(node.id, at) if x.kind != "del"]
        except Exception:
            return False
        return len(defs) == 1 and defs[0].kind == "assign" and self._built_dict(defs[0].name, defs[0], at) is not None

    def _mutated_local(self, node):
        """node is a local name whose object is filled by later stores (its term is then only the initial display)."""
        if not isinstance(node, ast.Name):
            return False
        for n in _own_walk(self.fn.node):
            if isinstance(n, ast.Subscript) and isinstance(n.value, ast.Name) and n.value.id == node.id and not isinstance(n.ctx, ast.Load):
                return True
            if isinstance(n, ast.Attribute) and isinstance(n.value, ast.Name) and n.value.id == node.id and n.attr in ("update", "pop", "setdefault", "clear", "popitem"):
                return True
        return False

    _OPERATOR_CMP = {"operator.le": "<=", "operator.lt": "<", "operator.ge": ">=", "operator.gt": ">", "operator.eq": "==", "operator.ne": "!=",
                     "numpy.less_equal": "<=", "numpy.less": "<", "numpy.greater_equal": ">=", "numpy.greater": ">"}

    def _finish_call(self, t):
        if t[0] != "call":
            return t
        # a callable chosen by a test and applied: (f if c else g)(args) is f(args) if c else g(args)
        if t[1][0] == "ifexp":
            return ("ifexp", t[1][1], self._finish_call(("call", t[1][2], t[2], t[3])), self._finish_call(("call", t[1][3], t[2], t[3])))
        # operator.le(a, b) is a <= b
        if t[1][0] == "global" and t[1][1] in self._OPERATOR_CMP and t[1][1].startswith("operator.") and len(t[2]) == 2 and not t[3]:
            return self.cmp(self._OPERATOR_CMP[t[1][1]], t[2][0], t[2][1])
        callee, recv = self.resolve_callee(t[1])
        if callee is not None and t[3] and not isinstance(callee.node, ast.Lambda) and not any(a[0] == "star" for a in t[2]) and not any(k == "**" for k, _ in t[3]):
            # a call of a package function: keywords that name positional formals are put at their positions (f(a, y=b) is f(a, b))
            formals = list(callee.positional_params)
            if formals and formals[0] == "self" and callee.cls is not None and not callee.is_static and t[1][0] == "attr":
                formals = formals[1:]
            kw = dict(t[3])
            args = list(t[2])
            while len(args) < len(formals) and formals[len(args)] in kw:
                args.append(kw.pop(formals[len(args)]))
            if len(args) != len(t[2]) and not any(f in kw for f in formals[:len(args)]):
                t = ("call", t[1], tuple(args), tuple(sorted(kw.items(), key=lambda kv: kv[0])))
        applied_lambda = callee is not None and isinstance(callee.node, ast.Lambda) and t[1][0] == "func" and callee.parent is self.fn
        if not self.inline and not (callee is not None and _free_helper(callee)) and not applied_lambda:
            # a non-inlining builder still looks through small private helpers that no rule names (see vstat/inliner.py)
            return t
        if callee is not None:
            r = self.inline_call(callee, recv, t[2], t[3])
            if r is not None:
                return r
        return t

    def _is_forwarded_kwargs(self, node):
        """node is the function's own **kwargs formal, bound by the inliner and never rebound or mutated here."""
        kw = getattr(self.fn.node.args, "kwarg", None)
        if not (isinstance(node, ast.Name) and kw is not None and kw.arg == node.id and node.id in self.bindings):
            return False
        if any(d.kind != "param" for d in self.rd.all_defs(node.id)):
            return False
        for n in _own_walk(self.fn.node):
            if isinstance(n, (ast.Subscript, ast.Attribute)) and isinstance(n.value, ast.Name) and n.value.id == node.id:
                if isinstance(n, ast.Subscript) and not isinstance(n.ctx, ast.Load):
                    return False
                if isinstance(n, ast.Attribute) and n.attr in ("update", "pop", "setdefault", "clear", "popitem"):
                    return False
        return True

    def resolve_callee(self, f):
        """Return (FunctionInfo, receiver term) for a statically resolvable repo callee."""
        f = strip_none(f)
        if f[0] == "func":
            fi = self.prog.functions.get(f[1])
            return fi, None
        cls = self.self_cls or self.fn.cls
        if f[0] == "attr" and f[1] == SELF and cls is not None:
            m = self.prog.lookup_method(cls, f[2])
            if m is not None and not self.prog.is_property(cls, f[2]) and (self.self_cls is not None or _free_helper(m)):
                return m, (None if m.is_static else SELF)
        if f[0] == "global":
            d = f[1]
            if d in self.prog.functions:
                fi = self.prog.functions[d]
                if fi.cls is not None and fi.is_static:
                    return fi, None
                if fi.cls is None:
                    return fi, None
        return None, None

    def inline_call(self, callee, recv, args, kws):
        """Look through a repo function that has exactly one ``return`` and no loop:
        its return term with the formals replaced by the actual arguments."""
        if len(self._call_stack) > 6 or callee.qualname in self._call_stack or callee.qualname in self.no_inline or callee.name in self.no_inline:
            return None
        node = callee.node
        if isinstance(node, ast.Lambda):
            rets = [callee.body[0]]
        else:
            rets = [n for n in _own_walk(node) if isinstance(n, ast.Return)]
            if not rets or len(rets) > 4 or any(r_.value is None for r_ in rets):
                return None
            if any(isinstance(n, (ast.For, ast.While, ast.With)) for n in _own_walk(node)):
                return None
            # a validating try statement (every handler ends by raising, no return inside) does not choose the result
            if any(isinstance(n, ast.Try) and (n.finalbody or n.orelse or any(isinstance(r_, ast.Return) for r_ in ast.walk(n))
                                               or not all(h.body and isinstance(h.body[-1], ast.Raise) for h in n.handlers)) for n in _own_walk(node)):
                return None
            if any(isinstance(n, (ast.Yield, ast.YieldFrom)) for n in ast.walk(node)):
                return None
            if len(list(_own_walk(node))) > 600:
                return None
        star_kw = [v for k, v in kws if k == "**"]
        if any(a[0] == "star" for a in args) or len(star_kw) > 1 or (star_kw and not callee.node.args.kwarg):
            return None
        kws = tuple((k, v) for k, v in kws if k != "**")
        # bind formals
        formals = callee.positional_params
        bind = {}
        pos = list(formals)
        if recv is not None and pos and pos[0] == "self":
            pos = pos[1:]
        elif recv is None and pos and pos[0] == "self" and callee.cls is not None and not callee.is_static:
            return None
        if len(args) > len(pos) and not callee.node.args.vararg:
            return None
        for p, a in zip(pos, args):
            bind[p] = a
        if callee.node.args.vararg:
            bind[callee.node.args.vararg.arg] = ("tuple", tuple(args[len(pos):]))
        extra = []
        for k, v in kws:
            if k in pos or k in callee.kwonly_params:
                bind[k] = v
            elif not callee.node.args.kwarg:
                return None
            else:
                extra.append((("const", k), v))
        if callee.node.args.kwarg:
            if star_kw and not extra:
                bind[callee.node.args.kwarg.arg] = star_kw[0]      # f(**d): the keyword formal is d
            elif star_kw:
                bind[callee.node.args.kwarg.arg] = ("dict", tuple(extra) + ((("const", "**"), star_kw[0]),))
            else:
                bind[callee.node.args.kwarg.arg] = ("dict", tuple(extra))
        sub = TermBuilder(self.prog, callee, self.self_cls if recv == SELF else callee.cls, True, self.depth,
                          _stack=self._call_stack + (callee.qualname,))
        sub.no_inline = self.no_inline
        # defaults
        for p, dnode in callee.defaults().items():
            if p not in bind:
                bind[p] = sub.term(dnode, ENTRY)
        for p in pos + callee.kwonly_params:
            if p not in bind:
                return None
        sub.bindings = bind
        if isinstance(node, ast.Lambda):
            t = sub._term(node.body, ENTRY, {})
        else:
            ts = [sub.term(r_.value, r_) for r_ in rets]
            if len(ts) > 1 and all(x[0] == "tuple" and len(x[1]) == len(ts[0][1]) for x in ts):
                # tuple results are joined slot by slot
                t = ("tuple", tuple(phi(x[1][k] for x in ts) for k in range(len(ts[0][1]))))
            elif len(ts) > 1:
                # several returns of the helper: alternatives keyed by the helper's own path conditions (over the actual arguments)
                from .guards import PathConditions
                hp = PathConditions(callee, sub)
                keys = [tuple(hp.of(r_)) for r_ in rets]
                common = set(keys[0])
                for k_ in keys[1:]:
                    common &= set(k_)
                keys = [tuple(l for l in k_ if l not in common) for k_ in keys]
                if self.guarded and all(keys) and len(set(keys)) == len(keys):
                    t = ("gphi", frozenset(zip(keys, ts)))
                elif len(ts) == 2 and len(keys[0]) == 1 and len(keys[1]) == 1 and keys[1][0] == neg_test(keys[0][0]):
                    # 'if c: return A' / 'return B' is the conditional expression 'A if c else B'
                    c0 = keys[0][0]
                    t = ("ifexp", c0[1], ts[1], ts[0]) if c0[0] == "not" else ("ifexp", c0, ts[0], ts[1])
                else:
                    t = phi(ts)
            else:
                t = phi(ts)
        if any(s_[0] == "func" and s_[1].startswith(callee.qualname + ".") for s_ in walk(t)):
            return None  # the helper returns a closure over its own parameters: the call is kept, it carries the bindings
        # a cycle the callee itself introduces makes the result useless; cycles already inside the arguments are the caller's
        given_cyc = {s_ for a_ in list(args) + [v_ for _k, v_ in kws] + ([recv] if recv is not None else []) for s_ in walk(a_) if s_[0] == "cyc"}
        if any(s_[0] == "cyc" and s_ not in given_cyc for s_ in walk(t)):
            return None
        if recv is not None and recv != SELF:
            t = subst(t, {SELF: recv})
        return t

    # --------------------------------------------------------- comprehensions
    def comp(self, e, at, env):
        env = dict(env)
        gens = []
        for g in e.generators:
            from .dataflow import _targets
            for nm, path in _targets(g.target):
                env[nm.id] = self.loop_target(g.target, g.iter, path, at, env)
            it = self.term(g.iter, at, env)
            conds = tuple(self.term(c, at, env) for c in g.ifs)
            if it[0] == "comp" and it[1] in ("list", "gen") and isinstance(it[5], tuple) and (not it[5] or it[5][0] != "nested"):
                # [f(e) for e in [g(x) for x in S if c] if d]  is  [f(g(x)) for x in S if c and d]
                gens.append((it[3], it[4], tuple(it[5]) + conds))
            else:
                gens.append((f"{g.target.lineno}:{g.target.col_offset}", it, conds))
        if isinstance(e, ast.DictComp):
            elt = ("tuple", (self.term(e.key, at, env), self.term(e.value, at, env)))
            kind = "dict"
        else:
            elt = self.term(e.elt, at, env)
            kind = {ast.ListComp: "list", ast.GeneratorExp: "gen", ast.SetComp: "set"}[type(e)]
        g0 = gens[0]
        return ("comp", kind, elt, g0[0], g0[1], g0[2] if len(gens) == 1 else ("nested", tuple(gens[1:])))

    # -------------------------------------------------------- dict store look
    def dict_store_lookup(self, e, base, idx, at):
        """``name[const]`` where name is a local dict that is also filled by
        ``name[const] = v`` stores: the stored value(s) under that key."""
        if not (isinstance(e.value, ast.Name) and idx[0] == "const" and isinstance(idx[1], str)):
            return None
        if not isinstance(e.ctx, ast.Load):
            return None
        nm = e.value.id
        found = []
        for st in self.cfg.all_stmts():
            if isinstance(st, ast.Assign):
                for tg in st.targets:
                    if (isinstance(tg, ast.Subscript) and isinstance(tg.value, ast.Name) and tg.value.id == nm
                            and isinstance(tg.slice, ast.Constant) and tg.slice.value == idx[1]):
                        found.append(st)
        if not found:
            return None
        out = [self.term(st.value, st) for st in found]
        for a in alts(base):
            if a[0] == "dict":
                for k, v in a[1]:
                    if k == idx:
                        out.append(v)
        return phi(out)


def _free_helper(fi):
    """A private helper of the package that no rule names: looked through wherever it is called."""
    from .inliner import anchor_names, named_by_rules
    n = fi.name
    if isinstance(fi.node, ast.Lambda):
        return False
    if fi.parent is not None:
        # a local helper function of the enclosing function (a small closure), unless some rule talks about it
        return not n.startswith("__") and not named_by_rules(n)
    return n.startswith("_") and not n.startswith("__") and n not in anchor_names()


def _stmt_own_walk(st):
    """Nodes evaluated by the statement itself (not by the statements nested in its blocks)."""
    todo = []
    for name, val in ast.iter_fields(st):
        if name in ("body", "orelse", "finalbody", "handlers"):
            continue
        todo.extend(val if isinstance(val, list) else [val])
    for v in todo:
        if isinstance(v, ast.AST):
            yield from ast.walk(v)


def _own_walk(fnode):
    """Walk a function body without descending into nested functions / lambdas / classes."""
    stack = list(ast.iter_child_nodes(fnode))
    while stack:
        n = stack.pop()
        yield n
        if isinstance(n, (ast.FunctionDef, ast.AsyncFunctionDef, ast.Lambda, ast.ClassDef)):
            continue
        stack.extend(ast.iter_child_nodes(n))


def neg_test(t):
    if t[0] == "not":
        return t[1]
    return ("not", t)


_builders = {}


def builder(prog, fn, self_cls=None, inline=True, guarded=False, shallow=False, no_inline=()):
    key = (id(prog), fn.qualname, self_cls.qualname if self_cls else None, inline, guarded, shallow, tuple(sorted(no_inline)))
    if key not in _builders:
        _builders[key] = TermBuilder(prog, fn, self_cls, inline)
        _builders[key].guarded = guarded
        _builders[key].shallow = shallow
        _builders[key].no_inline = frozenset(no_inline)
    return _builders[key]


def top_alts(t):
    """[(literals, term)]: the alternatives of a value that is chosen as a whole (conditional expression, guarded or
    plain join), without pushing the choice through operators."""
    from .guards import literals as _lits
    if t[0] == "ifexp":
        return [(tuple(_lits(t[1], True)) + l, v) for l, v in top_alts(t[2])] + [(tuple(_lits(t[1], False)) + l, v) for l, v in top_alts(t[3])]
    if t[0] == "gphi":
        out = []
        for k, v in sorted(t[1], key=repr):
            out += [(tuple(k) + l, vv) for l, vv in top_alts(v)]
        return out
    if t[0] == "phi":
        out = []
        for v in sorted(t[1], key=repr):
            out += top_alts(v)
        return out
    return [((), t)]


def dict_entries(t):
    """[(key, value, literals)] of a dict-valued term: displays, ** merges, dict(k=v) calls and comprehensions over the
    items of such a dict (their conditions become the entry's literals, e.g. 'value is not None'); None if not enumerable.
    Later entries with the same key override earlier ones, as in Python."""
    from .guards import literals as _lits
    if t[0] == "dict":
        out = []
        for k, v in t[1]:
            if k == ("const", "**"):
                sub = dict_entries(v)
                if sub is None:
                    return None
                out += sub
            else:
                out.append((k, v, ()))
        return out
    if t[0] == "call" and t[1] == G("dict") and not t[2]:
        return [(("const", k), v, ()) for k, v in t[3]]
    if t[0] == "comp" and t[1] == "dict" and isinstance(t[5], tuple) and (not t[5] or t[5][0] != "nested"):
        it = t[4]
        if it[0] == "call" and it[1][0] == "attr" and it[1][2] == "items" and not it[2] and not it[3]:
            D = it[1][1]
            base = dict_entries(D)
            if base is None:
                return None
            keyt = ("key", D, ("idx", t[3], "items"))
            valt = ("sub", D, keyt)
            out = []
            for k, v, l in base:
                m = {valt: v, keyt: k}
                conds = []
                for c in t[5]:
                    conds += _lits(subst(c, m), True)
                # 'x is not None' of a constant is decided here: the entry is always / never there
                keep = True
                kept = []
                for c in conds:
                    core = c[1] if c[0] == "not" else c
                    if core[0] == "isnone" and core[1][0] == "const":
                        val = (core[1][1] is None) != (c[0] == "not")
                        if not val:
                            keep = False
                        continue
                    kept.append(c)
                if keep:
                    out.append((subst(t[2][1][0], m), subst(t[2][1][1], m), tuple(l) + tuple(kept)))
            return out
        # a comprehension over some other sequence: ONE symbolic entry (key and value terms over the loop index)
        conds = []
        for c in t[5]:
            conds += _lits(c, True)
        return [(t[2][1][0], t[2][1][1], tuple(conds))]
    return None


def galts(t):
    """{literals: term} of a guarded phi; {(): t} otherwise."""
    if t[0] == "gphi":
        return {k: v for k, v in t[1]}
    return {(): t}


_CONV_FUNCS = {"numpy.asarray", "numpy.array", "numpy.asanyarray", "numpy.asarray_chkfinite"}


def strip_conv(t):
    """t with every value-preserving array conversion np.asarray(X) / np.array(X) / np.asarray_chkfinite(X) (optionally dtype=float) replaced by X.
    For rules about WHICH value flows where; whether a value is converted (array-like, finite, float) is decided by obligations of their own."""
    if isinstance(t, frozenset):
        return frozenset(strip_conv(x) for x in t)
    if not isinstance(t, tuple) or not t:
        return t
    if isinstance(t[0], str):
        if t[0] == "call" and len(t) == 4 and t[1][0] == "global" and t[1][1] in _CONV_FUNCS and len(t[2]) == 1 \
                and all(k == "dtype" and v in (("global", "float"), ("global", "numpy.float64"), ("global", "numpy.double")) for k, v in t[3]):
            return strip_conv(t[2][0])
        if t[0] in ("const", "param", "global", "self", "unknown", "func"):
            return t
    return tuple(strip_conv(x) if isinstance(x, (tuple, frozenset)) else x for x in t)


class ConvTransparent:
    """A builder whose terms have the value-preserving array conversions removed (strip_conv): for rules about which value flows where."""

    def __init__(self, b):
        self._b = b

    def term(self, *a, **k):
        return strip_conv(self._b.term(*a, **k))

    def name(self, *a, **k):
        return strip_conv(self._b.name(*a, **k))

    def index(self, *a, **k):
        return strip_conv(self._b.index(*a, **k))

    def def_term(self, *a, **k):
        return strip_conv(self._b.def_term(*a, **k))

    def __getattr__(self, n):
        return getattr(self._b, n)


class ConvTransparentPC:
    """path conditions with the conversions removed from every literal (companion of ConvTransparent)"""

    def __init__(self, pcs):
        self._p = pcs

    def of(self, st):
        return tuple(strip_conv(l) for l in self._p.of(st))

    def __getattr__(self, n):
        return getattr(self._p, n)
