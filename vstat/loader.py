"""Parse the package, build module / class / function tables.

Nothing of the analysed package is ever imported or executed; everything is
read with ``ast`` from the files below ``root`` on every run.
"""
import ast
import hashlib
import os


class AnalysisError(Exception):
    """A frozen anchor vanished or the program has a shape the engine does not
    model.  Reported as ANALYSIS-ERROR (exit 2), never as a verdict."""


PKG = "virocon"


class FunctionInfo:
    def __init__(self, qualname, node, module, cls=None, parent=None):
        self.qualname = qualname
        self.node = node
        self.module = module
        self.cls = cls  # ClassInfo or None (for methods: the class, also for nested in methods)
        self.parent = parent  # enclosing FunctionInfo for nested defs / lambdas
        self.children = {}
        self._cfg = None
        self._rd = None

    @property
    def name(self):
        return self.qualname.rsplit(".", 1)[-1]

    @property
    def params(self):
        a = self.node.args
        names = [x.arg for x in a.posonlyargs + a.args]
        if a.vararg:
            names.append("*" + a.vararg.arg)
        names += [x.arg for x in a.kwonlyargs]
        if a.kwarg:
            names.append("**" + a.kwarg.arg)
        return names

    @property
    def positional_params(self):
        a = self.node.args
        return [x.arg for x in a.posonlyargs + a.args]

    @property
    def kwonly_params(self):
        return [x.arg for x in self.node.args.kwonlyargs]

    def defaults(self):
        """name -> default expr node (positional and keyword-only)."""
        a = self.node.args
        pos = a.posonlyargs + a.args
        out = {}
        for p, d in zip(pos[len(pos) - len(a.defaults):], a.defaults):
            out[p.arg] = d
        for p, d in zip(a.kwonlyargs, a.kw_defaults):
            if d is not None:
                out[p.arg] = d
        return out

    @property
    def is_method(self):
        return self.cls is not None and self.parent is None

    @property
    def decorators(self):
        out = []
        for d in getattr(self.node, "decorator_list", []):
            out.append(ast.unparse(d))
        return out

    @property
    def is_static(self):
        return "staticmethod" in self.decorators

    @property
    def body(self):
        if isinstance(self.node, ast.Lambda):
            return [ast.Return(value=self.node.body, lineno=self.node.lineno,
                               col_offset=self.node.col_offset,
                               end_lineno=self.node.end_lineno,
                               end_col_offset=self.node.end_col_offset)]
        return self.node.body

    @property
    def file(self):
        return self.module.relpath

    def where(self, node=None):
        n = node if node is not None else self.node
        return f"{self.module.relpath}:{getattr(n, 'lineno', '?')}"

    def __repr__(self):
        return f"<fn {self.qualname}>"


class ClassInfo:
    def __init__(self, qualname, node, module):
        self.qualname = qualname
        self.node = node
        self.module = module
        self.methods = {}  # name -> FunctionInfo (getter for properties)
        self.setters = {}  # name -> FunctionInfo
        self.properties = set()
        self.base_names = []  # resolved dotted names
        self.class_attrs = {}  # name -> value expr

    @property
    def name(self):
        return self.qualname.rsplit(".", 1)[-1]

    def __repr__(self):
        return f"<class {self.qualname}>"


class ModuleInfo:
    def __init__(self, name, path, relpath, src):
        self.name = name
        self.path = path
        self.relpath = relpath
        self.src = src
        self.sha256 = hashlib.sha256(src.encode()).hexdigest()
        tree = _fold_return_temporaries(_normalise_blocks(ast.parse(src, filename=path)))
        from .inliner import inline_free_helpers
        self.inlined_sites = inline_free_helpers(tree)
        if self.inlined_sites:
            tree = _fold_return_temporaries(_normalise_blocks(tree))
        self.tree = tree
        self.imports = {}  # local name -> dotted name
        self.functions = {}
        self.classes = {}
        self.constants = {}  # name -> value expr (module-level simple assigns)
        self.all_assign_targets = {}  # name -> [Assign nodes] at module level


def _blocks(tree):
    for holder in ast.walk(tree):
        for field in ("body", "orelse", "finalbody"):
            blk = getattr(holder, field, None)
            if isinstance(blk, list) and blk and isinstance(blk[0], ast.stmt):
                yield holder, field, blk
        if isinstance(holder, ast.Try):
            for h in holder.handlers:
                pass  # handler bodies are reached through ast.walk (ExceptHandler has .body)


def _leaves(stmts):
    return bool(stmts) and isinstance(stmts[-1], (ast.Return, ast.Raise, ast.Continue, ast.Break))


def _normalise_walrus_in_comprehensions(tree):
    """``{k: v for x in it if (v := E) is not None}`` -> ``{k: E for x in it if E is not None}`` (E is evaluated for its value only)."""
    import copy as _copy

    class _Sub(ast.NodeTransformer):
        def __init__(self, name, expr):
            self.name, self.expr = name, expr

        def visit_Name(self, node):
            if node.id == self.name and isinstance(node.ctx, ast.Load):
                new = _copy.deepcopy(self.expr)
                return ast.copy_location(new, node)
            return node

    for comp in ast.walk(tree):
        if not isinstance(comp, (ast.ListComp, ast.SetComp, ast.DictComp, ast.GeneratorExp)):
            continue
        for gen in comp.generators:
            for ci, cond in enumerate(list(gen.ifs)):
                for w in [w for w in ast.walk(cond) if isinstance(w, ast.NamedExpr) and isinstance(w.target, ast.Name)]:
                    name, expr = w.target.id, w.value
                    if any(isinstance(x, (ast.NamedExpr, ast.Await, ast.Yield)) for x in ast.walk(expr)):
                        continue
                    # the walrus itself becomes its value
                    class _Unwrap(ast.NodeTransformer):
                        def visit_NamedExpr(self, node):
                            if node is w:
                                return node.value
                            return self.generic_visit(node)
                    gen.ifs[ci] = _Unwrap().visit(gen.ifs[ci])
                    sub = _Sub(name, expr)
                    for later in range(ci + 1, len(gen.ifs)):
                        gen.ifs[later] = sub.visit(gen.ifs[later])
                    if isinstance(comp, ast.DictComp):
                        comp.key = sub.visit(comp.key)
                        comp.value = sub.visit(comp.value)
                    else:
                        comp.elt = sub.visit(comp.elt)
    ast.fix_missing_locations(tree)


def _spread_comprehension(value, n):
    """``(f(v) for v in (p, q, ...))`` / ``[f(v) for v in [p, q, ...]]`` (also under tuple() / list()) unpacked into n targets: the tuple
    ``(f(p), f(q), ...)``; None when the value is not of that shape (one generator over a literal of n elements, a plain-name variable, no condition)."""
    import copy
    v = value
    if isinstance(v, ast.Call) and isinstance(v.func, ast.Name) and v.func.id in ("tuple", "list") and len(v.args) == 1 and not v.keywords:
        v = v.args[0]
    if not (isinstance(v, (ast.GeneratorExp, ast.ListComp)) and len(v.generators) == 1):
        return None
    g = v.generators[0]
    if g.ifs or g.is_async or not isinstance(g.target, ast.Name) or not isinstance(g.iter, (ast.Tuple, ast.List)) or len(g.iter.elts) != n \
            or any(isinstance(e, ast.Starred) for e in g.iter.elts):
        return None
    if any(isinstance(x, (ast.Lambda, ast.GeneratorExp, ast.ListComp, ast.SetComp, ast.DictComp, ast.NamedExpr)) for x in ast.walk(v.elt)):
        return None     # nested scopes may rebind the variable

    class _Sub(ast.NodeTransformer):
        def __init__(self, name, repl):
            self.name, self.repl = name, repl

        def visit_Name(self, node):
            if node.id == self.name and isinstance(node.ctx, ast.Load):
                return ast.copy_location(copy.deepcopy(self.repl), node)
            return node

    elts = [_Sub(g.target.id, e).visit(copy.deepcopy(v.elt)) for e in g.iter.elts]
    out = ast.Tuple(elts=elts, ctx=ast.Load())
    ast.copy_location(out, value)
    ast.fix_missing_locations(out)
    return out


def _normalise_self_aliases(tree):
    """``name = self.attr = X``  ->  ``self.attr = X; name = self.attr``; and a local name that is bound ONCE, to ``self.attr``, outside every loop,
    after the function itself has bound ``self.attr``, while no later statement of the function - and no other method of the class except __init__ - binds ``self.attr`` again, is another spelling
    of ``self.attr``: its reads are replaced and the binding dropped (``lst = self.results = []; lst.append(x)`` is ``self.results.append(x)``)."""
    import copy

    def self_attr(e):
        return isinstance(e, ast.Attribute) and isinstance(e.value, ast.Name) and e.value.id == "self"

    def stores_of(fn):
        out = {}
        for n in ast.walk(fn):
            if self_attr(n) and isinstance(n.ctx, (ast.Store, ast.Del)):
                out.setdefault(n.attr, []).append(n)
        return out

    for cls in [c for c in ast.walk(tree) if isinstance(c, ast.ClassDef)]:
        methods = [m for m in cls.body if isinstance(m, ast.FunctionDef)]
        for fn in methods:
            if not (fn.args.args and fn.args.args[0].arg == "self"):
                continue
            # chained assignment with one self attribute and plain names
            for holder in ast.walk(fn):
                for field in ("body", "orelse", "finalbody"):
                    blk = getattr(holder, field, None)
                    if not (isinstance(blk, list) and blk and isinstance(blk[0], ast.stmt)):
                        continue
                    out = []
                    for st in blk:
                        if isinstance(st, ast.Assign) and len(st.targets) >= 2 and sum(1 for t in st.targets if self_attr(t)) == 1 \
                                and all(self_attr(t) or isinstance(t, ast.Name) for t in st.targets):
                            attr = next(t for t in st.targets if self_attr(t))
                            first = ast.Assign(targets=[attr], value=st.value)
                            ast.copy_location(first, st)
                            out.append(first)
                            for t in st.targets:
                                if isinstance(t, ast.Name):
                                    ld = copy.deepcopy(attr)
                                    ld.ctx = ast.Load()
                                    a2 = ast.Assign(targets=[t], value=ld)
                                    ast.copy_location(a2, st)
                                    ast.fix_missing_locations(a2)
                                    out.append(a2)
                        else:
                            out.append(st)
                    setattr(holder, field, out)
            own = stores_of(fn)
            others = {}
            for m in methods:
                if m is not fn and m.name != "__init__":
                    for a_, ns in stores_of(m).items():
                        others.setdefault(a_, []).extend(ns)
            params = {a.arg for a in fn.args.args + fn.args.kwonlyargs + fn.args.posonlyargs} | ({fn.args.vararg.arg} if fn.args.vararg else set()) | ({fn.args.kwarg.arg} if fn.args.kwarg else set())
            nested = {n.id for d in ast.walk(fn) if isinstance(d, (ast.FunctionDef, ast.Lambda, ast.ListComp, ast.SetComp, ast.DictComp, ast.GeneratorExp)) and d is not fn
                      for n in ast.walk(d) if isinstance(n, ast.Name)}
            for k, st in enumerate(list(fn.body)):
                if not (isinstance(st, ast.Assign) and len(st.targets) == 1 and isinstance(st.targets[0], ast.Name) and self_attr(st.value)):
                    continue
                name, attr = st.targets[0].id, st.value.attr
                if name in params or name in nested or others.get(attr):
                    continue
                binds = [n for n in ast.walk(fn) if isinstance(n, ast.Name) and n.id == name and isinstance(n.ctx, (ast.Store, ast.Del))]
                if len(binds) != 1:
                    continue
                if any(n.lineno > st.lineno or (n.lineno == st.lineno and n.col_offset > st.col_offset) for n in own.get(attr, [])):
                    continue
                if not own.get(attr):
                    continue    # only an attribute this function has bound itself (the fresh object of `name = self.attr = []`); an alias of older state stays a name
                if any(isinstance(n, (ast.Global, ast.Nonlocal)) for n in ast.walk(fn)):
                    continue

                class _R(ast.NodeTransformer):
                    def visit_Name(self, node):
                        if node.id == name and isinstance(node.ctx, ast.Load):
                            new = copy.deepcopy(st.value)
                            return ast.copy_location(new, node)
                        return node
                fn.body = [_R().visit(x) for x in fn.body if x is not st]
                ast.fix_missing_locations(fn)
    return tree


def _normalise_blocks(tree):
    """Spelling normalisations applied to every module before analysis (positions of the original nodes are kept):
      * ``a, b = X, Y`` with plain-name targets and Y not reading a  ->  ``a = X; b = Y`` (also ``self.a, self.b = x, y`` of plain names);
      * ``if c: ...leave  else: REST``  ->  ``if c: ...leave`` followed by REST   (leave = return / raise / continue / break);
      * in a loop body ``if c: continue`` followed by REST  ->  ``if not c: REST``.
    Rules then meet one statement shape for each of these equivalent spellings."""
    _normalise_walrus_in_comprehensions(tree)
    _normalise_self_aliases(tree)
    changed = True
    rounds = 0
    while changed and rounds < 20:
        changed = False
        rounds += 1
        for holder, field, blk in list(_blocks(tree)):
            out = []
            k = 0
            while k < len(blk):
                st = blk[k]
                if isinstance(st, ast.Assign) and len(st.targets) == 1 and isinstance(st.targets[0], ast.Tuple):
                    spread = _spread_comprehension(st.value, len(st.targets[0].elts))
                    if spread is not None:
                        # a, b = (f(v) for v in (p, q))  ->  a, b = f(p), f(q)
                        st.value = spread
                        changed = True
                if isinstance(st, ast.Assign) and len(st.targets) == 1 and isinstance(st.targets[0], ast.Tuple) and isinstance(st.value, ast.Tuple) \
                        and len(st.targets[0].elts) == len(st.value.elts) >= 2 \
                        and all(isinstance(e, ast.Name) or (isinstance(e, ast.Attribute) and isinstance(e.value, ast.Name) and e.value.id == "self") for e in st.targets[0].elts) \
                        and not any(isinstance(v, ast.Starred) for v in st.value.elts):
                    # targets: plain names, or attributes of self when every value is a plain name / constant (nothing can read them back)
                    names = [e.id if isinstance(e, ast.Name) else "self." + e.attr for e in st.targets[0].elts]
                    indep = len(set(names)) == len(names)
                    if any(isinstance(e, ast.Attribute) for e in st.targets[0].elts) and not all(isinstance(v, (ast.Name, ast.Constant)) for v in st.value.elts):
                        indep = False
                    for i, v in enumerate(st.value.elts):
                        used = {n.id for n in ast.walk(v) if isinstance(n, ast.Name)}
                        if used & set(names[:i]):
                            indep = False
                    if indep:
                        for tgt, v in zip(st.targets[0].elts, st.value.elts):
                            a = ast.Assign(targets=[tgt], value=v)
                            ast.copy_location(a, st)
                            a.end_lineno, a.end_col_offset = getattr(v, "end_lineno", st.end_lineno), getattr(v, "end_col_offset", st.end_col_offset)
                            out.append(a)
                        changed = True
                        k += 1
                        continue
                if isinstance(st, ast.If) and st.orelse and _leaves(st.body):
                    new = ast.If(test=st.test, body=st.body, orelse=[])
                    ast.copy_location(new, st)
                    new.end_lineno, new.end_col_offset = st.body[-1].end_lineno, st.body[-1].end_col_offset
                    out.append(new)
                    out.extend(st.orelse)
                    changed = True
                    k += 1
                    continue
                if isinstance(holder, (ast.For, ast.While)) and field == "body" and isinstance(st, ast.If) and not st.orelse \
                        and len(st.body) == 1 and isinstance(st.body[0], ast.Continue) and k + 1 < len(blk):
                    test = st.test.operand if isinstance(st.test, ast.UnaryOp) and isinstance(st.test.op, ast.Not) else ast.UnaryOp(op=ast.Not(), operand=st.test)
                    ast.copy_location(test, st.test)
                    ast.fix_missing_locations(test)
                    new = ast.If(test=test, body=blk[k + 1:], orelse=[])
                    ast.copy_location(new, st)
                    new.end_lineno, new.end_col_offset = blk[-1].end_lineno, blk[-1].end_col_offset
                    out.append(new)
                    changed = True
                    k = len(blk)
                    continue
                out.append(st)
                k += 1
            if changed:
                setattr(holder, field, out)
                break
    return tree


def _fold_return_temporaries(tree):
    """Normalisation: ``tmp = <expr>`` immediately followed by ``return tmp`` with no other use of ``tmp`` in the function
    is read as ``return <expr>`` (positions of the original nodes are kept), so that rules see one form of a result."""
    for fn in ast.walk(tree):
        if not isinstance(fn, (ast.FunctionDef, ast.AsyncFunctionDef)):
            continue
        uses = {}
        for n in ast.walk(fn):
            if isinstance(n, ast.Name):
                uses[n.id] = uses.get(n.id, 0) + 1
        for holder in ast.walk(fn):
            for field in ("body", "orelse", "finalbody"):
                blk = getattr(holder, field, None)
                if not (isinstance(blk, list) and len(blk) >= 2 and isinstance(blk[0], ast.stmt)):
                    continue
                k = 1
                while k < len(blk):
                    a, r = blk[k - 1], blk[k]
                    if (isinstance(r, ast.Return) and isinstance(r.value, ast.Name) and isinstance(a, ast.Assign) and len(a.targets) == 1
                            and isinstance(a.targets[0], ast.Name) and a.targets[0].id == r.value.id and uses.get(r.value.id) == 2):
                        new = ast.Return(value=a.value)
                        ast.copy_location(new, a)
                        new.end_lineno, new.end_col_offset = r.end_lineno, r.end_col_offset
                        blk[k - 1:k + 1] = [new]
                    else:
                        k += 1
    return tree


class Program:
    def __init__(self, root, extra_client_dirs=(), min_modules=10):
        self.root = os.path.abspath(root)
        self.modules = {}
        self.functions = {}
        self.classes = {}
        pkgdir = os.path.join(self.root, PKG)
        if not os.path.isdir(pkgdir):
            raise AnalysisError(f"package directory {pkgdir} not found")
        for fn in sorted(os.listdir(pkgdir)):
            if fn.endswith(".py"):
                self._load(os.path.join(pkgdir, fn))
        if len(self.modules) < min_modules:
            raise AnalysisError(f"only {len(self.modules)} modules parsed below {pkgdir}")
        self._resolve_bases()

    # ------------------------------------------------------------------ load
    def _load(self, path):
        rel = os.path.relpath(path, self.root)
        modname = rel[:-3].replace(os.sep, ".")
        if modname.endswith(".__init__"):
            modname = modname[: -len(".__init__")]
        try:
            with open(path, encoding="utf-8") as fh:
                src = fh.read()
            import warnings
            with warnings.catch_warnings():
                warnings.simplefilter("ignore")
                mod = ModuleInfo(modname, path, rel, src)
        except SyntaxError as e:
            raise AnalysisError(f"cannot parse {rel}: {e}")
        self.modules[modname] = mod
        for st in mod.tree.body:
            self._module_stmt(mod, st)

    def _module_stmt(self, mod, st):
        if isinstance(st, ast.Import):
            for a in st.names:
                mod.imports[a.asname or a.name.split(".")[0]] = a.name if a.asname else a.name.split(".")[0]
        elif isinstance(st, ast.ImportFrom):
            base = st.module or ""
            for a in st.names:
                mod.imports[a.asname or a.name] = f"{base}.{a.name}"
        elif isinstance(st, (ast.FunctionDef, ast.AsyncFunctionDef)):
            self._function(mod, st, f"{mod.name}.{st.name}", None, None)
        elif isinstance(st, ast.ClassDef):
            self._class(mod, st)
        elif isinstance(st, ast.Assign):
            for t in st.targets:
                if isinstance(t, ast.Name):
                    mod.constants[t.id] = st.value
                    mod.all_assign_targets.setdefault(t.id, []).append(st)
        elif isinstance(st, ast.AnnAssign) and isinstance(st.target, ast.Name) and st.value is not None:
            mod.constants[st.target.id] = st.value
            mod.all_assign_targets.setdefault(st.target.id, []).append(st)
        elif isinstance(st, (ast.If, ast.Try)):
            # e.g. ``if __name__ == "__main__":`` -- not part of the library
            pass

    def _class(self, mod, node):
        ci = ClassInfo(f"{mod.name}.{node.name}", node, mod)
        mod.classes[node.name] = ci
        self.classes[ci.qualname] = ci
        ci.raw_bases = [ast.unparse(b) for b in node.bases]
        for st in node.body:
            if isinstance(st, (ast.FunctionDef, ast.AsyncFunctionDef)):
                decos = [ast.unparse(d) for d in st.decorator_list]
                fi = self._function(mod, st, f"{ci.qualname}.{st.name}", ci, None,
                                    register=not any(d.endswith(".setter") for d in decos))
                if any(d.endswith(".setter") for d in decos):
                    ci.setters[st.name] = fi
                    fi.qualname = f"{ci.qualname}.{st.name}.setter"
                    self.functions[fi.qualname] = fi
                else:
                    ci.methods[st.name] = fi
                    if "property" in decos:
                        ci.properties.add(st.name)
            elif isinstance(st, ast.Assign):
                for t in st.targets:
                    if isinstance(t, ast.Name):
                        ci.class_attrs[t.id] = st.value
            elif isinstance(st, ast.AnnAssign) and isinstance(st.target, ast.Name):
                ci.class_attrs[st.target.id] = st.value

    def _function(self, mod, node, qualname, cls, parent, register=True):
        fi = FunctionInfo(qualname, node, mod, cls, parent)
        if register:
            self.functions[qualname] = fi
            if cls is None and parent is None:
                mod.functions[node.name] = fi
        # nested functions and lambdas
        lam_count = [0]

        def visit(n):
            for ch in ast.iter_child_nodes(n):
                if isinstance(ch, (ast.FunctionDef, ast.AsyncFunctionDef)):
                    sub = self._function(mod, ch, f"{fi.qualname}.{ch.name}", cls, fi)
                    fi.children[ch.name] = sub
                elif isinstance(ch, ast.Lambda):
                    lam_count[0] += 1
                    nm = f"<lambda{lam_count[0]}>"
                    sub = self._function(mod, ch, f"{fi.qualname}.{nm}", cls, fi)
                    fi.children[nm] = sub
                    sub.lambda_node = ch
                elif isinstance(ch, ast.ClassDef):
                    # local class (plotting.MarginalDistWrapper)
                    lci = ClassInfo(f"{fi.qualname}.{ch.name}", ch, mod)
                    lci.raw_bases = []
                    self.classes[lci.qualname] = lci
                    for st in ch.body:
                        if isinstance(st, ast.FunctionDef):
                            m = self._function(mod, st, f"{lci.qualname}.{st.name}", lci, None)
                            lci.methods[st.name] = m
                            m.outer = fi
                else:
                    visit(ch)

        visit(node)
        return fi

    def _resolve_bases(self):
        for ci in self.classes.values():
            ci.bases = []
            for b in getattr(ci, "raw_bases", []):
                tgt = self.resolve_name(ci.module, b)
                if tgt in self.classes:
                    ci.bases.append(self.classes[tgt])
        for ci in self.classes.values():
            ci.mro = self._mro(ci)

    def _mro(self, ci):
        out = [ci]
        for b in ci.bases:
            for x in self._mro(b):
                if x not in out:
                    out.append(x)
        return out

    # --------------------------------------------------------------- queries
    def resolve_name(self, mod, dotted):
        """Resolve a dotted source name in module ``mod`` to a global dotted name."""
        head, _, rest = dotted.partition(".")
        if head in mod.classes:
            base = mod.classes[head].qualname
        elif head in mod.functions:
            base = mod.functions[head].qualname
        elif head in mod.imports:
            base = mod.imports[head]
            # ``from virocon import X`` -> find the defining module
            base = self._follow_reexport(base)
        elif head in mod.constants:
            base = f"{mod.name}.{head}"
        else:
            base = head
        return base + ("." + rest if rest else "")

    def _follow_reexport(self, dotted):
        if dotted in self.functions or dotted in self.classes or dotted in self.modules:
            return dotted
        pkg, _, name = dotted.rpartition(".")
        if pkg == PKG:
            for m in self.modules.values():
                if name in m.classes:
                    return m.classes[name].qualname
                if name in m.functions:
                    return m.functions[name].qualname
            if f"{PKG}.{name}" in self.modules:
                return f"{PKG}.{name}"
        return dotted

    def func(self, qualname):
        if qualname not in self.functions:
            raise AnalysisError(f"anchor function {qualname} not found in {self.root}")
        return self.functions[qualname]

    def implementation(self, qualname):
        """The function that does the work of ``qualname``: itself, or - when its body is only
        ``return super().<same name>(<its own parameters>)`` - the inherited implementation (followed transitively);
        for a method that the class no longer defines at all, the inherited one."""
        if qualname not in self.functions:
            cq, _, name = qualname.rpartition(".")
            if cq in self.classes:
                m = self.lookup_method(self.classes[cq], name)
                if m is not None:
                    return self.implementation(m.qualname)
            raise AnalysisError(f"anchor function {qualname} not found in {self.root}")
        fn = self.functions[qualname]
        body = [s for s in fn.body if not (isinstance(s, ast.Expr) and isinstance(s.value, ast.Constant))]
        if fn.cls is not None and len(body) == 1 and isinstance(body[0], ast.Return) and isinstance(body[0].value, ast.Call):
            c = body[0].value
            f = c.func
            if isinstance(f, ast.Attribute) and f.attr == fn.name and isinstance(f.value, ast.Call) and isinstance(f.value.func, ast.Name) and f.value.func.id == "super" \
                    and not c.keywords and [getattr(a, "id", None) for a in c.args] == [p for p in fn.positional_params if p != "self"]:
                for base in fn.cls.mro[1:]:
                    if fn.name in base.methods:
                        return self.implementation(base.methods[fn.name].qualname)
        return fn

    def cls(self, qualname):
        if qualname not in self.classes:
            raise AnalysisError(f"anchor class {qualname} not found in {self.root}")
        return self.classes[qualname]

    def lookup_method(self, ci, name):
        for c in ci.mro:
            if name in c.methods:
                return c.methods[name]
        return None

    def lookup_setter(self, ci, name):
        for c in ci.mro:
            if name in c.setters:
                return c.setters[name]
        return None

    def is_property(self, ci, name):
        for c in ci.mro:
            if name in c.methods:
                return name in c.properties
        return False

    def subclasses(self, ci, strict=False):
        out = []
        for c in self.classes.values():
            if ci in c.mro and (c is not ci or not strict):
                out.append(c)
        return sorted(out, key=lambda c: c.node.lineno if c.module is ci.module else 10**6)

    def digests(self, modnames=None):
        return {m.relpath: m.sha256 for n, m in sorted(self.modules.items())
                if modnames is None or n in modnames}
