"""Exact normal forms for arithmetic terms (DESIGN.md A.5).

Polynomial: dict {monomial: Fraction}; monomial = tuple of sorted (atom, int exponent).
Rational function: (num, den).  Atoms are canonical non-arithmetic terms (with
their own arguments normalised).  Equality of rational functions is decided by
cross-multiplication.  No evaluation, no solver.
"""
from fractions import Fraction

from .terms import G, walk

ONE = ()


class Poly:
    __slots__ = ("t",)

    def __init__(self, t=None):
        self.t = {m: c for m, c in (t or {}).items() if c != 0}

    @staticmethod
    def const(c):
        return Poly({ONE: Fraction(c)})

    @staticmethod
    def atom(a):
        return Poly({((a, 1),): Fraction(1)})

    def __add__(self, o):
        r = dict(self.t)
        for m, c in o.t.items():
            r[m] = r.get(m, 0) + c
        return Poly(r)

    def __neg__(self):
        return Poly({m: -c for m, c in self.t.items()})

    def __sub__(self, o):
        return self + (-o)

    def __mul__(self, o):
        r = {}
        for m1, c1 in self.t.items():
            for m2, c2 in o.t.items():
                m = _mmul(m1, m2)
                r[m] = r.get(m, 0) + c1 * c2
        return Poly(r)

    def is_zero(self):
        return not self.t

    def is_const(self):
        return all(m == ONE for m in self.t)

    def const_value(self):
        return self.t.get(ONE, Fraction(0))

    def key(self):
        return tuple(sorted(((m, c) for m, c in self.t.items()), key=lambda mc: repr(mc[0])))

    def __eq__(self, o):
        return isinstance(o, Poly) and self.t == o.t

    def __hash__(self):
        return hash(self.key())

    def pow(self, n):
        r = Poly.const(1)
        for _ in range(n):
            r = r * self
        return r

    def atoms(self):
        out = set()
        for m in self.t:
            for a, _ in m:
                out.add(a)
        return out

    def __repr__(self):
        from .terms import show
        parts = []
        for m, c in sorted(self.t.items(), key=lambda mc: repr(mc[0])):
            ms = "*".join((show(a) if isinstance(a, tuple) else str(a)) + (f"^{e}" if e != 1 else "") for a, e in m)
            parts.append(f"{c}" + ("*" + ms if ms else ""))
        return " + ".join(parts) or "0"


def _mmul(m1, m2):
    d = dict(m1)
    for a, e in m2:
        d[a] = d.get(a, 0) + e
    return tuple(sorted(((a, e) for a, e in d.items() if e != 0), key=lambda ae: repr(ae[0])))


class Rat:
    __slots__ = ("n", "d")

    def __init__(self, n, d=None):
        self.n = n
        self.d = d if d is not None else Poly.const(1)
        if self.d.is_const() and not self.d.is_zero():
            c = self.d.const_value()
            if c != 1:
                self.n = self.n * Poly.const(1 / c)
                self.d = Poly.const(1)

    def __add__(self, o):
        if self.d == o.d:
            return Rat(self.n + o.n, self.d)
        return Rat(self.n * o.d + o.n * self.d, self.d * o.d)

    def __neg__(self):
        return Rat(-self.n, self.d)

    def __sub__(self, o):
        return self + (-o)

    def __mul__(self, o):
        return Rat(self.n * o.n, self.d * o.d)

    def inv(self):
        return Rat(self.d, self.n)

    def __truediv__(self, o):
        return self * o.inv()

    def equals(self, o):
        return (self.n * o.d - o.n * self.d).is_zero()

    def is_poly(self):
        return self.d.is_const()

    def key(self):
        return ("rat", self.n.key(), self.d.key())

    def __repr__(self):
        if self.is_poly():
            return repr(self.n)
        return f"({self.n!r}) / ({self.d!r})"


_SQRT = G("numpy.sqrt")
_SQUARE = G("numpy.square")
_ARITH_CALLS = {G("numpy.multiply"): "*", G("numpy.divide"): "/", G("numpy.add"): "+",
                G("numpy.subtract"): "-", G("numpy.power"): "**", G("numpy.true_divide"): "/"}


def to_rat(t, atom_norm=None):
    """Term -> Rat.  Non-arithmetic sub-terms become atoms (normalised recursively)."""
    an = atom_norm or norm
    tag = t[0]
    if tag == "const" and isinstance(t[1], (int, float)) and not isinstance(t[1], bool):
        v = t[1]
        if isinstance(v, float):
            if v != v or v in (float("inf"), float("-inf")):
                return Rat(Poly.atom(t))
            return Rat(Poly.const(Fraction(v).limit_denominator(10**12) if abs(Fraction(v) - Fraction(v).limit_denominator(10**12)) < Fraction(1, 10**15) else Fraction(v)))
        return Rat(Poly.const(v))
    if tag == "neg":
        return -to_rat(t[1], an)
    if tag == "bin":
        op = t[1]
        if op in "+-*/":
            a, b = to_rat(t[2], an), to_rat(t[3], an)
            if op == "+":
                return a + b
            if op == "-":
                return a - b
            if op == "*":
                return a * b
            if b.n.is_zero():
                return Rat(Poly.atom(an_atom(t, an)))
            return a / b
        if op == "**":
            e = to_rat(t[3], an)
            if e.is_poly() and e.n.is_const():
                ev = e.n.const_value()
                if ev.denominator == 1 and abs(ev.numerator) <= 8:
                    b = to_rat(t[2], an)
                    n = int(ev)
                    if n >= 0:
                        return Rat(b.n.pow(n), b.d.pow(n))
                    return Rat(b.d.pow(-n), b.n.pow(-n))
            return Rat(Poly.atom(("pow", rat_term(to_rat(t[2], an)), rat_term(e))))
    if tag == "call" and not t[3]:
        if t[1] == _SQUARE and len(t[2]) == 1:
            b = to_rat(t[2][0], an)
            return b * b
        if t[1] == _SQRT and len(t[2]) == 1:
            return Rat(Poly.atom(("pow", rat_term(to_rat(t[2][0], an)), ("q", 1, 2))))
        if t[1] in _ARITH_CALLS and len(t[2]) == 2:
            return to_rat(("bin", _ARITH_CALLS[t[1]], t[2][0], t[2][1]), an)
    if tag == "call" and t[1] == G("numpy.arange") and len(t[2]) == 2 and not t[3]:
        a, b = to_rat(t[2][0], an), to_rat(t[2][1], an)
        n = b - a
        return Rat(Poly.atom(("call", G("numpy.arange"), (rat_term(n),), ()))) + a
    if tag == "call" and t[1] == G("numpy.arange") and len(t[2]) == 1 and not t[3]:
        return Rat(Poly.atom(("call", G("numpy.arange"), (rat_term(to_rat(t[2][0], an)),), ())))
    return Rat(Poly.atom(an_atom(t, an)))


def an_atom(t, an):
    return an(t)


def rat_term(r):
    """Hashable canonical form of a Rat (used inside atoms)."""
    if r.is_poly() and r.n.is_const():
        c = r.n.const_value()
        return ("q", c.numerator, c.denominator)
    if r.is_poly():
        if len(r.n.t) == 1:
            (m, c), = r.n.t.items()
            if c == 1 and len(m) == 1 and m[0][1] == 1:
                return m[0][0]
        return ("poly", r.n.key())
    return r.key()


_ARITH_TAGS = {"bin", "neg"}


def is_arith(t):
    if t[0] == "neg":
        return True
    if t[0] == "bin" and t[1] in ("+", "-", "*", "/", "**"):
        return True
    if t[0] == "call" and (t[1] in (_SQRT, _SQUARE) or t[1] in _ARITH_CALLS) and not t[3]:
        return True
    if t[0] == "call" and t[1] == G("numpy.arange") and len(t[2]) in (1, 2) and not t[3]:
        return True
    return False


_norm_memo = {}


def norm(t):
    """Structural normal form: every maximal arithmetic sub-term is replaced by the
    canonical key of its rational normal form; other nodes are rebuilt with
    normalised children.  Two terms are 'the same value' if their norms are equal."""
    if not isinstance(t, tuple) or not t:
        return t
    if t in _norm_memo:
        return _norm_memo[t]
    if t[0] == "call" and t[1] == ("global", "numpy.log1p") and len(t[2]) == 1 and not t[3]:
        # log1p(y) IS ln(1 + y); which spelling a numerically delicate place uses is the business of the ':stable' obligations
        r = norm(("call", ("global", "numpy.log"), (("bin", "+", ("const", 1), t[2][0]),), ()))
        _norm_memo[t] = r
        return r
    if is_arith(t):
        r = rat_term(to_rat(t, norm))
    elif t[0] in ("const", "global", "param", "self", "unknown", "idx", "func", "q", "poly", "rat"):
        r = t
        if t[0] == "const" and isinstance(t[1], (int, float)) and not isinstance(t[1], bool):
            r = rat_term(to_rat(t))
    else:
        out = []
        for x in t:
            if isinstance(x, tuple):
                if x and isinstance(x[0], str):
                    out.append(norm(x))
                else:
                    out.append(tuple(norm(y) if (isinstance(y, tuple) and y and isinstance(y[0], str)) else
                                     (tuple(norm(z) if isinstance(z, tuple) and z and isinstance(z[0], str) else z for z in y)
                                      if isinstance(y, tuple) else y) for y in x))
            elif isinstance(x, frozenset):
                out.append(frozenset(norm(y) for y in x))
            else:
                out.append(x)
        r = tuple(out)
    _norm_memo[t] = r
    return r


def same(a, b):
    """Value equality of two terms modulo arithmetic normal form."""
    if a == b:
        return True
    na, nb = norm(a), norm(b)
    if na == nb:
        return True
    if is_arith(a) or is_arith(b):
        return to_rat(a).equals(to_rat(b))
    return False


def equal_rat(a, b):
    return to_rat(a).equals(to_rat(b))


# --------------------------------------------------------------------------
# Laurent monomials with rational exponents over positive symbols (A.5)
class Mono:
    """sign * coef * prod(sym ** exp), coef > 0, symbols positive."""
    __slots__ = ("sign", "coef", "exps")

    def __init__(self, sign=1, coef=1, exps=None):
        self.sign = sign
        self.coef = Fraction(coef)
        self.exps = {k: Fraction(v) for k, v in (exps or {}).items() if v != 0}
        if self.coef < 0:
            self.coef, self.sign = -self.coef, -self.sign
        if self.coef == 0:
            self.sign, self.exps = 0, {}

    def __mul__(self, o):
        e = dict(self.exps)
        for k, v in o.exps.items():
            e[k] = e.get(k, 0) + v
        return Mono(self.sign * o.sign, self.coef * o.coef, e)

    def inv(self):
        return Mono(self.sign, 1 / self.coef, {k: -v for k, v in self.exps.items()})

    def pow(self, q):
        q = Fraction(q)
        if self.sign < 0 and q.denominator != 1:
            return None
        c = _frac_pow(self.coef, q)
        if c is None:
            return None
        sg = self.sign if (q.denominator == 1 and q.numerator % 2) else (1 if self.sign else 0)
        return Mono(sg, c, {k: v * q for k, v in self.exps.items()})

    def abs(self):
        return Mono(1 if self.sign else 0, self.coef, self.exps)

    def diff(self, sym):
        e = self.exps.get(sym, 0)
        if e == 0:
            return Mono(0, 0)
        ex = dict(self.exps)
        ex[sym] = e - 1
        return Mono(self.sign, self.coef * e, ex) if e > 0 else Mono(-self.sign, self.coef * (-e), ex)

    def key(self):
        return (self.sign, self.coef, tuple(sorted(self.exps.items())))

    def __eq__(self, o):
        return isinstance(o, Mono) and self.key() == o.key()

    def __hash__(self):
        return hash(self.key())

    def __repr__(self):
        if self.sign == 0:
            return "0"
        s = "-" if self.sign < 0 else ""
        return s + str(self.coef) + "".join(f"*{k}^{v}" for k, v in sorted(self.exps.items()))


def _frac_pow(c, q):
    if q.denominator == 1:
        return c ** int(q) if q >= 0 else 1 / (c ** int(-q))
    # only perfect roots are representable
    def root(n, d):
        r = round(n ** (1.0 / d))
        for cand in (r - 1, r, r + 1):
            if cand >= 0 and cand ** d == n:
                return cand
        return None
    a, b = root(c.numerator, q.denominator), root(c.denominator, q.denominator)
    if a is None or b is None:
        return None
    return Fraction(a, b) ** q.numerator if q.numerator >= 0 else Fraction(b, a) ** (-q.numerator)


def to_mono(t, env, const_lookup=None):
    """Term -> Mono over the symbols in env ({term: symbol name}); None if outside the monomial domain."""
    if t in env:
        return Mono(1, 1, {env[t]: 1})
    k = t[0]
    if k == "const" and isinstance(t[1], (int, float)) and not isinstance(t[1], bool):
        f = Fraction(t[1]).limit_denominator(10**9)
        return Mono(1 if f > 0 else -1 if f < 0 else 0, abs(f))
    if k == "neg":
        m = to_mono(t[1], env, const_lookup)
        return None if m is None else Mono(-m.sign, m.coef, m.exps)
    if k == "bin":
        a = to_mono(t[2], env, const_lookup)
        b = to_mono(t[3], env, const_lookup)
        if t[1] == "*":
            return None if a is None or b is None else a * b
        if t[1] == "/":
            return None if a is None or b is None or b.sign == 0 else a * b.inv()
        if t[1] == "**":
            if a is None or b is None or b.exps or b.sign == 0 and False:
                return None
            return a.pow(b.coef * b.sign)
        if t[1] in ("+", "-") and a is not None and b is not None and a.exps == b.exps:
            v = a.sign * a.coef + (b.sign * b.coef if t[1] == "+" else -b.sign * b.coef)
            return Mono(1 if v > 0 else -1 if v < 0 else 0, abs(v), a.exps)
        return None
    if k == "call" and not t[3] and len(t[2]) == 1:
        if t[1] == G("numpy.sqrt"):
            a = to_mono(t[2][0], env, const_lookup)
            return None if a is None else a.pow(Fraction(1, 2))
        if t[1] == G("numpy.square"):
            a = to_mono(t[2][0], env, const_lookup)
            return None if a is None else a * a
        if t[1] == G("numpy.abs"):
            a = to_mono(t[2][0], env, const_lookup)
            return None if a is None else a.abs()
    if k == "global" and const_lookup is not None:
        d = const_lookup(t[1])
        if d is not None:
            return to_mono(d, env, const_lookup)
    return None
