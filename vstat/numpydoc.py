"""Minimal numpydoc 'Parameters' section reader (name -> type text)."""
import ast
import re


def parameters(fnode):
    doc = ast.get_docstring(fnode, clean=True) or ""
    lines = doc.splitlines()
    out = {}
    i = 0
    while i < len(lines):
        if lines[i].strip() == "Parameters" and i + 1 < len(lines) and set(lines[i + 1].strip()) == {"-"}:
            i += 2
            while i < len(lines):
                ln = lines[i]
                if ln.strip() and i + 1 < len(lines) and set(lines[i + 1].strip()) <= {"-"} and lines[i + 1].strip():
                    break  # next section
                m = re.match(r"^(\S[^:]*?)\s*:\s*(.*)$", ln)
                if m and not ln.startswith(" "):
                    for nm in m.group(1).split(","):
                        out[nm.strip().lstrip("*")] = m.group(2).strip()
                i += 1
            break
        i += 1
    return out
