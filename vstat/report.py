"""Obligations, known findings, evidence, exit codes."""
import json
import os
import sys
import time

VERIF = os.path.dirname(os.path.dirname(os.path.abspath(__file__)))


class Obligation:
    __slots__ = ("rule", "instance", "site", "status", "detail", "nontrivial")

    def __init__(self, rule, instance, site, status, detail, nontrivial=True):
        self.rule, self.instance, self.site = rule, instance, site
        self.status, self.detail, self.nontrivial = status, detail, nontrivial

    def as_dict(self):
        return {"rule": self.rule, "instance": self.instance, "site": self.site,
                "status": self.status, "detail": self.detail}


class Relabel:
    """Adapter that files another property's rule part under one rule of this property (shared rows): the obligations
    are the same, the report names the property whose statement also depends on them."""

    def __init__(self, rep, rule, keep=None):
        # keep(rule, instance) selects the rows that this property's statement depends on (default: all of them)
        object.__setattr__(self, "keep", keep)
        self.rep, self.rule = rep, rule

    def _k(self, rule, instance):
        return self.keep is None or self.keep(rule, instance)

    def ok(self, rule, instance, site, detail="", nontrivial=True):
        if self._k(rule, instance):
            self.rep.ok(self.rule, f"{rule}:{instance}", site, detail, nontrivial)

    def fail(self, rule, instance, site, detail):
        if self._k(rule, instance):
            self.rep.fail(self.rule, f"{rule}:{instance}", site, detail)

    def check(self, cond, rule, instance, site, ok_detail="", fail_detail=""):
        if self._k(rule, instance):
            return self.rep.check(cond, self.rule, f"{rule}:{instance}", site, ok_detail, fail_detail)
        return cond

    def expect_min(self, rule, n):
        pass

    def part(self, f, *a, **k):
        return self.rep.part(f, *a, **k)

    def __getattr__(self, n):
        return getattr(self.rep, n)

    def __setattr__(self, n, v):
        if n in ("rep", "rule"):
            object.__setattr__(self, n, v)
        # explanation / assumptions of the borrowed rule are not taken over


class Report:
    def __init__(self, prop, tier="quick", root="/repo", seed=0):
        self.prop = prop
        self.tier = tier
        self.root = root
        self.seed = seed
        self.obs = []
        self.t0 = time.time()
        self.minimum = {}
        self.functions = set()
        self.call_sites = 0
        self.assumptions = []
        self.explanation = ""
        self.extra = {}
        self.errors = []

    # ------------------------------------------------------------ recording
    def ok(self, rule, instance, site, detail="", nontrivial=True):
        self.obs.append(Obligation(rule, instance, site, "ok", detail, nontrivial))

    def fail(self, rule, instance, site, detail):
        self.obs.append(Obligation(rule, instance, site, "FAIL", detail))

    def check(self, cond, rule, instance, site, ok_detail="", fail_detail=""):
        if cond:
            self.ok(rule, instance, site, ok_detail)
        else:
            self.fail(rule, instance, site, fail_detail or ok_detail)
        return bool(cond)

    def expect_min(self, rule, n):
        self.minimum[rule] = n

    def analysed(self, *fns):
        for f in fns:
            self.functions.add(f if isinstance(f, str) else f.qualname)

    def error(self, msg):
        self.errors.append(msg)

    def part(self, f, *a, **k):
        """Run one rule part; an analysis gap in it is recorded and the remaining parts still run."""
        from .loader import AnalysisError
        try:
            return f(*a, **k)
        except AnalysisError as e:
            self.error(str(e))
        except Exception as e:  # a rule that cannot read the code is an analysis gap, not a verdict
            import traceback
            tb = traceback.extract_tb(e.__traceback__)[-1]
            self.error(f"internal error in {getattr(f, '__name__', f)}: {type(e).__name__}: {e} ({os.path.basename(tb.filename)}:{tb.lineno})")
        return None

    # -------------------------------------------------------------- finish
    def _known(self):
        path = os.path.join(VERIF, "known_findings.json")
        if not os.path.exists(path):
            return []
        with open(path) as fh:
            data = json.load(fh)
        return [f for f in data.get("findings", []) if f.get("property") == self.prop]

    def finish(self, prog=None, write=True):
        wall = time.time() - self.t0
        # minimum instance counts: a rule matching fewer sites than confirmed is broken
        counts = {}
        for o in self.obs:
            counts[o.rule] = counts.get(o.rule, 0) + 1
        for rule, n in self.minimum.items():
            if counts.get(rule, 0) < n:
                self.errors.append(f"rule {rule} produced {counts.get(rule, 0)} obligations, fewer than the {n} confirmed by hand")
        known = self._known()
        fails = [o for o in self.obs if o.status == "FAIL"]
        violations, knowns = [], []
        for o in fails:
            hit = None
            for k in known:
                if k["rule"] == o.rule and k["construct"] == o.instance:
                    hit = k
            if hit:
                knowns.append((o, hit))
            else:
                violations.append(o)
        evdir = os.path.join(VERIF, "evidence")
        os.makedirs(evdir, exist_ok=True)
        evpath = os.path.join(evdir, f"{self.prop}.json")
        vpath = os.path.join(evdir, f"{self.prop}.violations.json")
        distinct = len({(o.rule, o.instance, o.site) for o in self.obs if o.nontrivial})
        samples = [o.as_dict() for o in self.obs[:12]]
        if fails:
            samples = [o.as_dict() for o in fails[:6]] + samples[:6]
        ev = {
            "property_id": self.prop,
            "tier": self.tier,
            "seed": int(self.seed),
            "level": "other",
            "coverage": {
                "explanation": self.explanation or "static wiring rules, see DESIGN.md",
                "obligations": len(self.obs),
                "discharged": len(self.obs) - len(fails),
                "evaluations": len(self.obs),
                "distinct_nontrivial": distinct,
                "rule": "one obligation per (rule, frozen instance, site); non-trivial = the verdict needed at least one resolved definition / callee / path condition",
                "samples": samples,
                "rules": counts,
                "functions_analysed": sorted(self.functions),
                "n_functions_analysed": len(self.functions),
                "known_findings_matched": [k["construct"] for _, k in knowns],
                "analysed_root": self.root,
                "files": prog.digests() if prog is not None else {},
                "exhaustive": False,
            },
            "assumptions": self.assumptions,
            "wall_s": round(wall, 3),
            "violations": len(violations),
        }
        ev["coverage"].update(self.extra)
        if self.errors:
            ev["coverage"]["analysis_errors"] = self.errors
        if write:
            with open(evpath, "w") as fh:
                json.dump(ev, fh, indent=1, sort_keys=True, default=str)
                fh.write("\n")
        print(f"[{self.prop}] tier={self.tier} root={self.root} obligations={len(self.obs)} "
              f"discharged={len(self.obs) - len(fails)} functions={len(self.functions)} wall={wall:.2f}s")
        for rule in sorted(counts):
            nf = sum(1 for o in fails if o.rule == rule)
            print(f"  rule {rule}: {counts[rule]} obligations" + (f", {nf} FAILED" if nf else ""))
        if self.errors:
            for e in self.errors:
                print(f"ANALYSIS-ERROR property={self.prop} {e}")
            if not violations:
                return 2
        for o, k in knowns:
            print(f"KNOWN-FINDING: property={self.prop} {o.rule} {o.instance}: {k.get('what', o.detail)} [{o.site}]")
        if violations:
            if write:
                with open(vpath, "w") as fh:
                    json.dump({"property_id": self.prop, "root": self.root,
                               "violations": [o.as_dict() for o in violations]}, fh, indent=1)
                    fh.write("\n")
            for o in violations:
                print(f"  FAIL {o.rule} [{o.instance}] at {o.site}: {o.detail}")
            print(f"VIOLATION property={self.prop} replay={vpath}")
            return 1
        if write and os.path.exists(vpath):
            os.remove(vpath)
        return 0
