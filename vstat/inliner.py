"""Source-level inlining of small private helpers, applied to every module before analysis.

A rule recognises what a function computes; "extract helper" is the refactoring that most often moves part of that
computation out of sight.  Private helpers (leading underscore) of the same module that no rule names as an anchor
are therefore looked through: a statement-level call ``t = _helper(a, b)`` / ``_helper(a)`` / ``return _helper(a)`` /
``x, y = self._helper()`` is replaced by the helper's body with its parameters bound to the arguments and its locals
renamed.  The helper itself stays in the module and is still analysed as a function of its own.  Nothing is executed.

Not inlined: anything the rules mention by name, decorated functions (except staticmethod), generators, functions with
*args/**kwargs, nested functions, recursion, returns that are not in tail position, calls with * or ** arguments, helpers
that are not unique by name in their module, bodies longer than ``MAX_STMTS`` statements.
"""
import ast
import copy
import glob
import os
import re

MAX_STMTS = 40
MAX_ROUNDS = 3
_anchors = None


def anchor_names():
    """Identifiers beginning with an underscore that some rule mentions: these functions are analysed as units."""
    global _anchors
    if _anchors is None:
        here = os.path.dirname(os.path.dirname(os.path.abspath(__file__)))
        names = set()
        for p in glob.glob(os.path.join(here, "rules", "*.py")):
            with open(p, encoding="utf-8") as fh:
                names |= set(re.findall(r"[.\"'`{ (]_([A-Za-z][A-Za-z0-9_]*)\b", fh.read()))
        _anchors = {"_" + n for n in names}
    return _anchors


_rules_src = None


def named_by_rules(name):
    """The identifier occurs in some rule (as an attribute, in a qualified name or in a string)."""
    global _rules_src
    if _rules_src is None:
        here = os.path.dirname(os.path.dirname(os.path.abspath(__file__)))
        _rules_src = "\n".join(open(p, encoding="utf-8").read() for p in glob.glob(os.path.join(here, "rules", "*.py")))
    return re.search(r"[.\"'`{ (]" + re.escape(name) + r"\b", _rules_src) is not None


class NotInlinable(Exception):
    pass


def _own(fn):
    stack = list(fn.body)
    while stack:
        n = stack.pop()
        yield n
        if isinstance(n, (ast.FunctionDef, ast.AsyncFunctionDef, ast.ClassDef)):
            continue
        stack.extend(ast.iter_child_nodes(n))


def _candidate(fn, cls):
    name = fn.name
    if not name.startswith("_") or name.startswith("__") or name in anchor_names():
        return False
    decos = [ast.unparse(d) for d in fn.decorator_list]
    if any(d != "staticmethod" for d in decos):
        return False
    a = fn.args
    if a.posonlyargs:
        return False
    n_stmts = 0
    for n in _own(fn):
        if isinstance(n, (ast.Yield, ast.YieldFrom, ast.Await, ast.Global, ast.Nonlocal, ast.FunctionDef, ast.AsyncFunctionDef, ast.ClassDef, ast.Lambda)):
            return False
        if isinstance(n, ast.stmt):
            n_stmts += 1
        if isinstance(n, ast.Call) and ((isinstance(n.func, ast.Name) and n.func.id == name) or (isinstance(n.func, ast.Attribute) and n.func.attr == name)):
            return False  # recursion
    if n_stmts > MAX_STMTS:
        return False
    if cls is not None and "staticmethod" not in decos and not (a.args and a.args[0].arg == "self"):
        return False
    return True


def _tail(stmts, make):
    """Rewrite returns in tail position with make(value); (statements, every path ended in a return)."""
    out = []
    for i, s in enumerate(stmts):
        if isinstance(s, ast.Return):
            out.extend(make(s))
            return out, True
        if isinstance(s, ast.If):
            body, bret = _tail(s.body, make)
            orelse, oret = _tail(s.orelse, make)
            if bret or oret:
                rest, rret = _tail(stmts[i + 1:], make)
                if bret and oret:
                    new = ast.If(test=s.test, body=body or [ast.Pass()], orelse=orelse)
                    out.append(ast.copy_location(new, s))
                    return out, True
                if bret:
                    new = ast.If(test=s.test, body=body or [ast.Pass()], orelse=orelse + rest)
                    out.append(ast.copy_location(new, s))
                    return out, rret or _raises(orelse + rest)
                new = ast.If(test=s.test, body=(body + rest) or [ast.Pass()], orelse=orelse or [])
                out.append(ast.copy_location(new, s))
                return out, rret or _raises(body + rest)
            out.append(s)
            continue
        if isinstance(s, (ast.For, ast.While)) and not s.orelse and any(isinstance(n, ast.Return) for n in ast.walk(s)):
            # a loop that is left by 'return': the return becomes 'result = value; break', what follows the loop runs only
            # when the loop was NOT left that way, i.e. it is the loop's else clause
            if any(isinstance(n, ast.Break) for n in ast.walk(s)) or any(
                    isinstance(n, (ast.For, ast.While, ast.Try, ast.With)) and any(isinstance(r, ast.Return) for r in ast.walk(n)) for b_ in s.body for n in ast.walk(b_)):
                raise NotInlinable("return inside a nested loop / a loop that also breaks")

            def in_loop(stmts_):
                res = []
                for x in stmts_:
                    if isinstance(x, ast.Return):
                        res.extend(make(x))
                        res.append(ast.copy_location(ast.Break(), x))
                        return res
                    if isinstance(x, ast.If):
                        new_if = ast.If(test=x.test, body=in_loop(x.body) or [ast.Pass()], orelse=in_loop(x.orelse))
                        res.append(ast.copy_location(new_if, x))
                    else:
                        res.append(x)
                return res

            rest, rret = _tail(stmts[i + 1:], make)
            new_loop = copy.copy(s)
            new_loop.body = in_loop(s.body)
            new_loop.orelse = rest
            out.append(new_loop)
            return out, rret
        if isinstance(s, ast.Try) and i == len(stmts) - 1 and not s.finalbody and not s.orelse and any(isinstance(n, ast.Return) for n in ast.walk(s)):
            # a try statement in tail position: 'return value' at the end of its body / handlers is 'result = value' there
            body, bret = _tail(s.body, make)
            new_try = copy.copy(s)
            new_try.body = body or [ast.Pass()]
            new_handlers = []
            ended = bret
            for h in s.handlers:
                hb, hret = _tail(h.body, make)
                nh = copy.copy(h)
                nh.body = hb or [ast.Pass()]
                new_handlers.append(nh)
                ended = ended and (hret or _raises(hb))
            new_try.handlers = new_handlers
            out.append(new_try)
            return out, ended
        if isinstance(s, ast.With) and i == len(stmts) - 1 and any(isinstance(n, ast.Return) for n in ast.walk(s)):
            # a with statement in tail position: 'return value' at the end of its body is 'result = value' there (the context is
            # left right after it either way)
            body, bret = _tail(s.body, make)
            new_with = copy.copy(s)
            new_with.body = body or [ast.Pass()]
            out.append(new_with)
            return out, bret
        if any(isinstance(n, ast.Return) for n in ast.walk(s)):
            raise NotInlinable("return inside a try / with")
        out.append(s)
    return out, _raises(out)


def _raises(stmts):
    return bool(stmts) and isinstance(stmts[-1], ast.Raise)


class _Subst(ast.NodeTransformer):
    def __init__(self, mapping):
        self.mapping = mapping

    def visit_Name(self, node):
        if node.id in self.mapping:
            new = copy.deepcopy(self.mapping[node.id])
            if isinstance(new, ast.Name):
                new.ctx = node.ctx
            if not hasattr(new, "lineno"):
                ast.copy_location(new, node)
                ast.fix_missing_locations(new)
            return new
        return node


def _expand(call, fn, is_method, kind, targets, counter):
    """Statements replacing one statement-level call of helper fn; kind in assign / expr / return."""
    if any(isinstance(a, ast.Starred) for a in call.args) or any(k.arg is None for k in call.keywords):
        raise NotInlinable("star arguments")
    a = fn.args
    params = [p.arg for p in a.args]
    defaults = dict(zip(params[len(params) - len(a.defaults):], a.defaults))
    for p, d in zip(a.kwonlyargs, a.kw_defaults):
        params.append(p.arg)
        if d is not None:
            defaults[p.arg] = d
    bind = {}
    pos = params[1:] if is_method else params
    if is_method:
        bind["self"] = call.func.value
    npos = len(a.args) - (1 if is_method else 0)
    if len(call.args) > npos and not a.vararg:
        raise NotInlinable("too many positional arguments")
    for p, v in zip(pos, call.args):
        bind[p] = v
    extra_kw = []
    for k in call.keywords:
        if k.arg in bind:
            raise NotInlinable("duplicate keyword")
        if k.arg not in pos:
            if not a.kwarg:
                raise NotInlinable("unknown keyword")
            extra_kw.append(k)
            continue
        bind[k.arg] = k.value
    if a.vararg:
        # the surplus positional arguments, as a tuple display
        bind[a.vararg.arg] = ast.Tuple(elts=list(call.args[npos:]), ctx=ast.Load())
    if a.kwarg:
        # the surplus keyword arguments, as a dict display (f(**{"k": v}) reads as f(k=v))
        bind[a.kwarg.arg] = ast.Dict(keys=[ast.Constant(value=k.arg) for k in extra_kw], values=[k.value for k in extra_kw])
    for p in pos:
        if p not in bind:
            if p not in defaults:
                raise NotInlinable("missing argument")
            bind[p] = defaults[p]
    stored = {n.id for n in _own(fn) if isinstance(n, ast.Name) and isinstance(n.ctx, (ast.Store, ast.Del))}
    for n in _own(fn):
        if isinstance(n, ast.arg):
            pass
    pre = []
    mapping = {}
    tag = f"_h{counter}_"

    def simple(e):
        return isinstance(e, (ast.Name, ast.Constant)) or (isinstance(e, ast.Attribute) and simple(e.value))

    def literal(e):
        """a display of constants / simple expressions: may be written where the parameter is read (so that a loop over it can be unrolled)"""
        if isinstance(e, ast.Dict):
            return all(isinstance(k, ast.Constant) for k in e.keys) and all(simple(v) for v in e.values)
        if isinstance(e, (ast.Tuple, ast.List)):
            return all(simple(x) or (isinstance(x, (ast.Tuple, ast.List)) and all(simple(y) for y in x.elts)) for x in e.elts)
        return False

    mutated = {n.value.id for n in _own(fn) if isinstance(n, ast.Subscript) and isinstance(n.value, ast.Name) and not isinstance(n.ctx, ast.Load)} | \
              {n.value.id for n in _own(fn) if isinstance(n, ast.Attribute) and isinstance(n.value, ast.Name) and n.attr in ("update", "pop", "setdefault", "clear", "append", "extend", "insert", "sort", "reverse", "remove", "popitem")}

    for p, v in bind.items():
        if isinstance(v, (ast.Dict, ast.Tuple)) and p in ((a.kwarg.arg if a.kwarg else None), (a.vararg.arg if a.vararg else None)) and p not in stored \
                and all(simple(x) for x in (v.values if isinstance(v, ast.Dict) else v.elts)):
            mapping[p] = v
        elif (simple(v) or (literal(v) and p not in mutated)) and p not in stored:
            mapping[p] = v
        else:
            tmp = ast.Name(id=tag + p, ctx=ast.Store())
            asg = ast.Assign(targets=[tmp], value=copy.deepcopy(v))
            ast.copy_location(asg, call)
            ast.fix_missing_locations(asg)
            pre.append(asg)
            mapping[p] = ast.Name(id=tag + p, ctx=ast.Load())
    # 'T = helper(..)' where the helper ends in 'return local': the helper's local IS T (no copy through a renamed temporary),
    # provided T does not occur in the arguments
    direct = None
    if kind == "assign" and len(targets) == 1 and isinstance(targets[0], ast.Name):
        rets_ = [n for n in _own(fn) if isinstance(n, ast.Return)]
        last_ = fn.body[-1] if fn.body else None
        if len(rets_) == 1 and rets_[0] is last_ and isinstance(last_.value, ast.Name) and last_.value.id in stored and last_.value.id not in bind \
                and not any(isinstance(n, ast.Name) and n.id == targets[0].id for v in bind.values() for n in ast.walk(v)):
            direct = last_.value.id
    for nm in stored:
        if nm not in bind:
            mapping[nm] = ast.Name(id=targets[0].id if nm == direct else tag + nm, ctx=ast.Load())
    body = copy.deepcopy(fn.body)
    if body and isinstance(body[0], ast.Expr) and isinstance(body[0].value, ast.Constant) and isinstance(body[0].value.value, str):
        body = body[1:]
    body = [_Subst(mapping).visit(s) for s in body]

    if kind == "return":
        out = pre + body
        if not _all_paths_leave(body):
            r = ast.Return(value=ast.Constant(value=None))
            out.append(ast.copy_location(r, call))
    else:
        def make(ret):
            if kind == "expr":
                if ret.value is None:
                    return []
                e = ast.Expr(value=ret.value)
                return [ast.copy_location(e, ret)]
            val = ret.value if ret.value is not None else ast.Constant(value=None)
            if direct is not None and isinstance(val, ast.Name) and val.id == targets[0].id:
                return []   # the local already carries the target's name
            asg = ast.Assign(targets=copy.deepcopy(targets), value=val)
            return [ast.copy_location(asg, ret)]

        has_value_return = any(isinstance(n, ast.Return) and n.value is not None for s in body for n in ast.walk(s))
        new, ended = _tail(body, make)
        if kind == "assign" and has_value_return and not ended:
            raise NotInlinable("some path falls off the end of a value-returning helper")
        if kind == "assign" and not has_value_return:
            asg = ast.Assign(targets=copy.deepcopy(targets), value=ast.Constant(value=None))
            new.append(ast.copy_location(asg, call))
        out = pre + new
    for s in out:
        ast.fix_missing_locations(s)
    return out or [ast.copy_location(ast.Pass(), call)]


def _all_paths_leave(stmts):
    if not stmts:
        return False
    last = stmts[-1]
    if isinstance(last, (ast.Return, ast.Raise)):
        return True
    if isinstance(last, ast.If):
        return bool(last.orelse) and _all_paths_leave(last.body) and _all_paths_leave(last.orelse)
    return False


def _literal_items(it):
    """[(values for the loop targets)] when the loop runs over a literal: {..}.items(), a dict display (its keys), a tuple / list
    display of constants or of equally long tuples; None otherwise."""
    def const_like(e):
        return isinstance(e, ast.Constant) or (isinstance(e, (ast.Name, ast.Attribute)) and const_like(getattr(e, "value", ast.Constant(value=0))) if isinstance(e, ast.Attribute) else isinstance(e, ast.Constant))
    if isinstance(it, ast.Call) and isinstance(it.func, ast.Attribute) and it.func.attr in ("items", "keys", "values") and isinstance(it.func.value, ast.Dict) \
            and not it.args and not it.keywords and all(isinstance(k, ast.Constant) for k in it.func.value.keys):
        d = it.func.value
        if it.func.attr == "items":
            return [(k, v) for k, v in zip(d.keys, d.values)]
        return [(k,) for k in d.keys] if it.func.attr == "keys" else [(v,) for v in d.values]
    if isinstance(it, ast.Dict) and all(isinstance(k, ast.Constant) for k in it.keys):
        return [(k,) for k in it.keys]
    if isinstance(it, ast.Call) and isinstance(it.func, ast.Name) and it.func.id == "zip" and not it.keywords and len(it.args) >= 2 \
            and all(isinstance(a, (ast.Tuple, ast.List)) and a.elts and len(a.elts) == len(it.args[0].elts) for a in it.args):
        # zip(("a", "b"), (x, y)): pairs of plain values (constants, names, attribute reads)
        def plain(e):
            return isinstance(e, (ast.Constant, ast.Name)) or (isinstance(e, ast.Attribute) and plain(e.value))
        if all(plain(e) for a in it.args for e in a.elts):
            return [tuple(a.elts[k] for a in it.args) for k in range(len(it.args[0].elts))]
    if isinstance(it, (ast.Tuple, ast.List)) and it.elts:
        if all(isinstance(e, ast.Constant) for e in it.elts):
            return [(e,) for e in it.elts]
        if all(isinstance(e, (ast.Tuple, ast.List)) and len(e.elts) == len(it.elts[0].elts) for e in it.elts):
            return [tuple(e.elts) for e in it.elts]
        # (x_idx, y_idx): plain values (names, attribute reads, constants) - the unroller checks that the body does not rebind them
        def plain1(e):
            return isinstance(e, (ast.Constant, ast.Name)) or (isinstance(e, ast.Attribute) and plain1(e.value))
        if all(plain1(e) for e in it.elts):
            return [(e,) for e in it.elts]
    return None


def _in_order_names(node):
    """Name nodes of a statement in evaluation order (value before targets for an assignment)"""
    if isinstance(node, ast.Assign):
        out = list(_in_order_names(node.value))
        for t_ in node.targets:
            out += list(_in_order_names(t_))
        return out
    if isinstance(node, ast.AugAssign):
        return list(_in_order_names(node.target)) + list(_in_order_names(node.value))
    if isinstance(node, ast.Name):
        return [node]
    out = []
    for ch in ast.iter_child_nodes(node):
        out += _in_order_names(ch)
    return out


def _read_elsewhere(tree, holder, loop, name):
    """is `name` mentioned in the function that encloses `loop`, outside the loop?"""
    fn = None
    for f_ in ast.walk(tree):
        if isinstance(f_, (ast.FunctionDef, ast.AsyncFunctionDef)) and any(x is loop for x in ast.walk(f_)):
            fn = f_     # the innermost one is visited last among nested definitions containing the loop
    scope = fn if fn is not None else tree
    inside = {id(x) for x in ast.walk(loop)}
    return any(isinstance(x, ast.Name) and x.id == name and id(x) not in inside for x in ast.walk(scope))


def merge_list_appends(tree):
    """``L = []`` ... ``L.append(a)`` ... ``L.append(b)`` in ONE block, with nothing else touching L in between, is ``L = [a, b]`` placed at the last
    append - provided no name read by a or b is bound between its append and the last one.  (Makes a list built by an unrolled loop a display.)"""
    n = 0
    for holder in ast.walk(tree):
        for field in ("body", "orelse", "finalbody"):
            blk = getattr(holder, field, None)
            if not (isinstance(blk, list) and blk and isinstance(blk[0], ast.stmt)):
                continue
            i = 0
            while i < len(blk):
                st = blk[i]
                if not (isinstance(st, ast.Assign) and len(st.targets) == 1 and isinstance(st.targets[0], ast.Name) and isinstance(st.value, ast.List)
                        and not any(isinstance(e, ast.Starred) for e in st.value.elts)):
                    i += 1
                    continue
                L = st.targets[0].id
                appends = []
                j = i + 1
                while j < len(blk):
                    s2 = blk[j]
                    mentions = [x for x in ast.walk(s2) if isinstance(x, ast.Name) and x.id == L]
                    is_app = isinstance(s2, ast.Expr) and isinstance(s2.value, ast.Call) and isinstance(s2.value.func, ast.Attribute) and s2.value.func.attr == "append" \
                        and isinstance(s2.value.func.value, ast.Name) and s2.value.func.value.id == L and len(s2.value.args) == 1 and not s2.value.keywords \
                        and len(mentions) == 1
                    if is_app:
                        appends.append(j)
                    elif mentions or isinstance(s2, (ast.For, ast.While, ast.If, ast.With, ast.Try, ast.FunctionDef, ast.Return, ast.Raise, ast.Break, ast.Continue)):
                        break
                    j += 1
                if not appends:
                    i += 1
                    continue
                last = appends[-1]
                ok = True
                for a_ in appends:
                    read = {x.id for x in ast.walk(blk[a_].value.args[0]) if isinstance(x, ast.Name)}
                    for k_ in range(a_ + 1, last + 1):
                        if any(isinstance(x, ast.Name) and x.id in read and not isinstance(x.ctx, ast.Load) for x in ast.walk(blk[k_])):
                            ok = False
                if not ok:
                    i += 1
                    continue
                merged = ast.Assign(targets=[ast.Name(id=L, ctx=ast.Store())], value=ast.List(elts=list(st.value.elts) + [blk[a_].value.args[0] for a_ in appends], ctx=ast.Load()))
                ast.copy_location(merged, blk[last])
                ast.fix_missing_locations(merged)
                new_blk = [b_ for k_, b_ in enumerate(blk) if k_ != i and k_ not in appends[:-1] and k_ != last]
                pos = last - 1 - len(appends[:-1])      # the index of `last` after the removals before it (i and the earlier appends)
                new_blk.insert(pos, merged)
                blk[:] = new_blk
                n += 1
                i = pos + 1
    return n


def unroll_literal_loops(tree, max_items=8, max_body=12):
    """``for k, v in {"a": x, "b": y}.items(): BODY`` (a literal that became visible by inlining a helper) is BODY with
    (k, v) = ("a", x) followed by BODY with (k, v) = ("b", y).  Only loops without break / continue / else whose targets are
    plain names that the body does not rebind."""
    n = 0
    for holder in ast.walk(tree):
        for field in ("body", "orelse", "finalbody"):
            blk = getattr(holder, field, None)
            if not (isinstance(blk, list) and blk and isinstance(blk[0], ast.stmt)):
                continue
            out = []
            for st in blk:
                items = _literal_items(st.iter) if isinstance(st, ast.For) and not st.orelse else None
                tg = st.target if items is not None else None
                names = [tg.id] if isinstance(tg, ast.Name) else [e.id for e in tg.elts] if isinstance(tg, ast.Tuple) and all(isinstance(e, ast.Name) for e in tg.elts) else None
                if items is None or names is None or not (0 < len(items) <= max_items) or any(len(v) != len(names) for v in items) \
                        or sum(1 for x in st.body for _ in ast.walk(x) if isinstance(_, ast.stmt)) > max_body \
                        or any(isinstance(x, (ast.Break, ast.Continue, ast.FunctionDef, ast.Lambda, ast.Yield)) for b_ in st.body for x in ast.walk(b_)) \
                        or any(isinstance(x, ast.Name) and x.id in names and not isinstance(x.ctx, ast.Load) for b_ in st.body for x in ast.walk(b_)) \
                        or (items is not None and {x.id for v in items for e in v for x in ast.walk(e) if isinstance(x, ast.Name)}
                            & {x.id for b_ in st.body for x in ast.walk(b_) if isinstance(x, ast.Name) and not isinstance(x.ctx, ast.Load)}):
                    out.append(st)
                    continue
                # temporaries of one iteration (first touched by a plain top-level assignment of the body, never read outside the loop) get a
                # name of their own per copy, so that the copies do not overwrite each other's values
                stored = [t_.id for b_ in st.body if isinstance(b_, ast.Assign) for t_ in b_.targets if isinstance(t_, ast.Name)]
                local_tmp = []
                for nm_ in dict.fromkeys(stored):
                    first = next((x for b_ in st.body for x in _in_order_names(b_) if x.id == nm_), None)
                    outside = any(isinstance(x, ast.Name) and x.id == nm_ for o_ in blk if o_ is not st for x in ast.walk(o_)) or _read_elsewhere(tree, holder, st, nm_)
                    if first is not None and isinstance(first.ctx, ast.Store) and not outside and nm_ not in names:
                        local_tmp.append(nm_)
                for k_, vals in enumerate(items):
                    mapping = dict(zip(names, vals))
                    for nm_ in local_tmp:
                        mapping[nm_] = ast.Name(id=f"{nm_}__it{k_}", ctx=ast.Load())
                    for b_ in copy.deepcopy(st.body):
                        new = _Subst(mapping).visit(b_)
                        ast.fix_missing_locations(new)
                        out.append(new)
                n += 1
            setattr(holder, field, out)
    return n


def _comprehension_as_loop(st, resolve, owner, counter):
    """``T = [helper(...) for v in it]`` with an inlinable helper as the element: the helper has statements (early returns, a raise), which have no
    place inside an expression - the comprehension is read as the loop it abbreviates (fresh list, one append per element, then bound to T), whose
    ``item = helper(...)`` statement the inliner expands.  merge_list_appends gives rules one form for both spellings afterwards."""
    if not (isinstance(st, ast.Assign) and len(st.targets) == 1 and isinstance(st.targets[0], ast.Name) and isinstance(st.value, ast.ListComp)):
        return [st]
    lc = st.value
    if len(lc.generators) != 1 or not isinstance(lc.elt, ast.Call):
        return [st]
    g = lc.generators[0]
    if g.ifs or g.is_async or not isinstance(g.target, ast.Name):
        return [st]
    fn, _m = resolve(lc.elt)
    if fn is None or fn is owner or not any(isinstance(x, (ast.Return, ast.Raise)) for b_ in fn.body[:-1] for x in ast.walk(b_)):
        return [st]      # an expression helper is inlined where it stands
    counter[0] += 1
    k = counter[0]
    lst, item, var = f"_lc{k}", f"_lc{k}_item", f"_lc{k}_{g.target.id}"
    import copy
    elt = _Subst({g.target.id: ast.Name(id=var, ctx=ast.Load())}).visit(copy.deepcopy(lc.elt))
    new = [ast.Assign(targets=[ast.Name(id=lst, ctx=ast.Store())], value=ast.List(elts=[], ctx=ast.Load())),
           ast.For(target=ast.Name(id=var, ctx=ast.Store()), iter=g.iter, orelse=[], body=[
               ast.Assign(targets=[ast.Name(id=item, ctx=ast.Store())], value=elt),
               ast.Expr(value=ast.Call(func=ast.Attribute(value=ast.Name(id=lst, ctx=ast.Load()), attr="append", ctx=ast.Load()),
                                       args=[ast.Name(id=item, ctx=ast.Load())], keywords=[]))]),
           ast.Assign(targets=[st.targets[0]], value=ast.Name(id=lst, ctx=ast.Load()))]
    for n_ in new:
        ast.copy_location(n_, st)
        for sub in ast.walk(n_):
            if not hasattr(sub, "lineno"):
                ast.copy_location(sub, st)
        ast.fix_missing_locations(n_)
    return new


def _sink_item_appends(tree):
    """After a comprehension was read as a loop and its helper expanded, the element is assigned on every path of an if / else and appended once after it:
    ``if c: item = A  else: item = B`` + ``L.append(item)``  ->  ``if c: L.append(A)  else: L.append(B)`` (only for the temporaries made here), the
    form of a hand-written filling loop."""
    def leaves_assign(stmts, name):
        """every path through stmts ends with `name = X` (or leaves by raise)"""
        if not stmts:
            return False
        last = stmts[-1]
        if isinstance(last, ast.Assign) and len(last.targets) == 1 and isinstance(last.targets[0], ast.Name) and last.targets[0].id == name:
            return True
        if isinstance(last, ast.Raise):
            return True
        if isinstance(last, ast.If) and last.orelse:
            return leaves_assign(last.body, name) and leaves_assign(last.orelse, name)
        return False

    def rewrite(stmts, name, app):
        last = stmts[-1]
        if isinstance(last, ast.Assign):
            call = copy.deepcopy(app)
            call.value.args = [last.value]
            ast.copy_location(call, last)
            ast.fix_missing_locations(call)
            stmts[-1] = call
        elif isinstance(last, ast.If):
            rewrite(last.body, name, app)
            rewrite(last.orelse, name, app)

    for holder in ast.walk(tree):
        for field in ("body", "orelse", "finalbody"):
            blk = getattr(holder, field, None)
            if not (isinstance(blk, list) and len(blk) >= 2 and isinstance(blk[0], ast.stmt)):
                continue
            k = 1
            while k < len(blk):
                a, app = blk[k - 1], blk[k]
                if isinstance(app, ast.Expr) and isinstance(app.value, ast.Call) and isinstance(app.value.func, ast.Attribute) and app.value.func.attr == "append" \
                        and len(app.value.args) == 1 and isinstance(app.value.args[0], ast.Name) and app.value.args[0].id.startswith("_lc") and app.value.args[0].id.endswith("_item") \
                        and isinstance(a, ast.If) and a.orelse and leaves_assign([a], app.value.args[0].id):
                    rewrite([a], app.value.args[0].id, app)
                    del blk[k]
                else:
                    k += 1


def inline_free_helpers(tree):
    """Inline the module's own free private helpers at statement-level call sites (in place); returns the number of sites."""
    total = 0
    unroll_literal_loops(tree)      # a helper that loops over a literal (for k in ("a", "b"): if x == k: return k) becomes a chain of tests first
    for _round in range(MAX_ROUNDS):
        funcs, classes = {}, {}
        for st in tree.body:
            if isinstance(st, ast.FunctionDef):
                funcs.setdefault(st.name, []).append((st, None))
            elif isinstance(st, ast.ClassDef):
                classes[st.name] = st
                for m in st.body:
                    if isinstance(m, ast.FunctionDef):
                        funcs.setdefault(m.name, []).append((m, st))
        cands = {}
        for name, defs in funcs.items():
            if len(defs) == 1 and _candidate(defs[0][0], defs[0][1]):
                cands[name] = defs[0]
        if not cands:
            break
        n_round = 0
        counter = [total]

        def resolve(call):
            f = call.func
            if isinstance(f, ast.Name) and f.id in cands and cands[f.id][1] is None:
                return cands[f.id][0], False
            if isinstance(f, ast.Attribute) and f.attr in cands and cands[f.attr][1] is not None:
                fn, cls = cands[f.attr]
                static = any(ast.unparse(d) == "staticmethod" for d in fn.decorator_list)
                if isinstance(f.value, ast.Name) and f.value.id == "self":
                    return fn, not static
                if isinstance(f.value, ast.Name) and f.value.id == cls.name and static:
                    return fn, False
            return None, False

        def block(stmts, owner):
            nonlocal n_round
            out = []
            stmts = [x_ for st in stmts for x_ in _comprehension_as_loop(st, resolve, owner, counter)]
            for st in stmts:
                call = kind = targets = None
                if isinstance(st, ast.Assign) and isinstance(st.value, ast.Call):
                    call, kind, targets = st.value, "assign", st.targets
                elif isinstance(st, ast.Expr) and isinstance(st.value, ast.Call):
                    call, kind = st.value, "expr"
                elif isinstance(st, ast.Return) and isinstance(st.value, ast.Call):
                    call, kind = st.value, "return"
                if call is not None:
                    fn, is_method = resolve(call)
                    if fn is not None and fn is not owner:
                        try:
                            counter[0] += 1
                            new = _expand(call, fn, is_method, kind, targets, counter[0])
                            out.extend(new)
                            n_round += 1
                            continue
                        except NotInlinable:
                            pass
                for f in ("body", "orelse", "finalbody"):
                    v = getattr(st, f, None)
                    if isinstance(v, list) and v and isinstance(v[0], ast.stmt):
                        setattr(st, f, block(v, owner))
                if isinstance(st, ast.Try):
                    for h in st.handlers:
                        h.body = block(h.body, owner)
                out.append(st)
            return out

        for name, defs in funcs.items():
            for fn, cls in defs:
                fn.body = block(fn.body, fn)
        total = counter[0]
        if n_round == 0:
            break
    unroll_literal_loops(tree)
    _sink_item_appends(tree)
    merge_list_appends(tree)
    return total
