"""Positional signatures of the external callables whose arguments the rules bind
(read from the numpy/scipy documentation of the pinned versions)."""
from .terms import G

SIGS = {
    "numpy.linspace": ["start", "stop", "num", "endpoint", "retstep", "dtype", "axis"],
    "numpy.arange": None,  # special (1-3 positional)
    "numpy.quantile": ["a", "q", "axis", "out", "overwrite_input", "method", "keepdims"],
    "numpy.savetxt": ["fname", "X", "fmt", "delimiter", "newline", "header", "footer", "comments", "encoding"],
    "numpy.append": ["arr", "values", "axis"],
    "numpy.where": ["condition", "x", "y"],
    "numpy.linalg.norm": ["x", "ord", "axis", "keepdims"],
    "scipy.stats.norm.ppf": ["q", "loc", "scale"],
    "scipy.stats.norm.isf": ["q", "loc", "scale"],
    "scipy.stats.norm.cdf": ["x", "loc", "scale"],
    "scipy.stats.chi2.ppf": ["q", "df", "loc", "scale"],
    "scipy.stats.chi2.isf": ["q", "df", "loc", "scale"],
    "scipy.optimize.curve_fit": ["f", "xdata", "ydata", "p0", "sigma", "absolute_sigma", "check_finite", "bounds", "method", "jac"],
    "scipy.optimize.minimize": ["fun", "x0", "args", "method", "jac", "hess", "hessp", "bounds", "constraints", "tol", "callback", "options"],
    "scipy.optimize.fmin": ["func", "x0", "args", "xtol", "ftol", "maxiter", "maxfun", "full_output", "disp", "retall", "callback", "initial_simplex"],
    "scipy.integrate.nquad": ["func", "ranges", "args", "opts", "full_output"],
    "scipy.ndimage.binary_erosion": ["input", "structure", "iterations", "mask", "output", "border_value", "origin", "brute_force"],
    "scipy.ndimage.label": ["input", "structure", "output"],
    "pandas.read_csv": ["filepath_or_buffer"],
    "numpy.argsort": ["a", "axis", "kind", "order"],
    "numpy.unravel_index": ["indices", "shape", "order"],
    "numpy.logical_and": ["x1", "x2"],
    "numpy.logical_or": ["x1", "x2"],
}


def bind_arange(call):
    """{start, stop, step} of np.arange in any of its spellings (arange(stop) / (start, stop[, step]) / keywords); None if not an arange call."""
    if call[0] != "call" or call[1] != G("numpy.arange") or any(a[0] == "star" for a in call[2]):
        return None
    pos, kw = list(call[2]), dict(call[3])
    kw.pop("dtype", None)
    if "**" in kw or len(pos) > 3:
        return None
    out = {"start": ("const", 0), "step": ("const", 1)}
    if len(pos) == 1 and "stop" not in kw:
        out["stop"] = pos[0]
    else:
        for n, a in zip(("start", "stop", "step"), pos):
            out[n] = a
    for n in ("start", "stop", "step"):
        if n in kw:
            out[n] = kw[n]
    return out if "stop" in out else None


def bind(call, names=None):
    """{formal: term} for a call term of a known external callable; None if it cannot be bound."""
    if call[0] != "call":
        return None
    if names is None:
        if call[1][0] != "global" or call[1][1] not in SIGS or SIGS[call[1][1]] is None:
            return None
        names = SIGS[call[1][1]]
    out = {}
    if len(call[2]) > len(names):
        return None
    for n, a in zip(names, call[2]):
        if a[0] == "star":
            return None
        out[n] = a
    for k, v in call[3]:
        if k == "**" or k in out:
            return None
        out[k] = v
    return out
