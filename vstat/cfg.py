"""Statement-level control-flow graph (DESIGN.md A.2) on networkx.

Nodes are integers; ``ENTRY``, ``EXIT`` (normal return / fall off the end) and
``RAISE`` (exception leaves the function) are special.  Compound statements get
a *header* node (the ``if``/``while`` test, the ``for`` iteration step, the
``with`` entry, the ``try`` entry); ``node_of[stmt]`` is the header for these.
"""
import ast

import networkx as nx

from .loader import AnalysisError

ENTRY, EXIT, RAISE = "ENTRY", "EXIT", "RAISE"


class CFG:
    def __init__(self, fn):
        self.fn = fn
        self.g = nx.DiGraph()
        self.g.add_nodes_from([ENTRY, EXIT, RAISE])
        self.stmt = {}  # node id -> ast stmt
        self.node_of = {}  # id(ast stmt) -> node id
        self.kind = {}  # node id -> 'stmt' | 'if' | 'while' | 'for' | 'with' | 'try'
        self.parent_stmt = {}  # id(stmt) -> enclosing compound stmt (or None)
        self.branch = {}  # id(stmt) -> (compound stmt, 'body'|'orelse'|'handler'|'final')
        self._n = 0
        outs = self._block(fn.body, {ENTRY}, loops=[], tries=[], parent=None, which=None)
        for o in outs:
            self.g.add_edge(o, EXIT)
        self._dom = None
        self._pdom = None

    # ----------------------------------------------------------- construction
    def _new(self, st, kind="stmt"):
        self._n += 1
        n = self._n
        self.stmt[n] = st
        self.kind[n] = kind
        self.node_of[id(st)] = n
        self.g.add_node(n)
        return n

    def _link(self, preds, n):
        for p in preds:
            self.g.add_edge(p, n)

    def _exc_targets(self, tries):
        if tries:
            return tries[-1]
        return [RAISE]

    def _block(self, stmts, preds, loops, tries, parent, which):
        cur = set(preds)
        for st in stmts:
            self.parent_stmt[id(st)] = parent
            self.branch[id(st)] = (parent, which)
            cur = self._stmt(st, cur, loops, tries)
        return cur

    def _stmt(self, st, preds, loops, tries):
        g = self.g
        if isinstance(st, (ast.Assign, ast.AugAssign, ast.AnnAssign, ast.Expr, ast.Pass,
                           ast.Delete, ast.Global, ast.Nonlocal, ast.Import, ast.ImportFrom,
                           ast.FunctionDef, ast.AsyncFunctionDef, ast.ClassDef)):
            n = self._new(st)
            self._link(preds, n)
            if tries:
                for h in tries[-1]:
                    g.add_edge(n, h)
            return {n}
        if isinstance(st, ast.Return):
            n = self._new(st)
            self._link(preds, n)
            g.add_edge(n, EXIT)
            if tries:
                for h in tries[-1]:
                    g.add_edge(n, h)
            return set()
        if isinstance(st, ast.Raise):
            n = self._new(st)
            self._link(preds, n)
            for h in self._exc_targets(tries):
                g.add_edge(n, h)
            return set()
        if isinstance(st, ast.Assert):
            n = self._new(st)
            self._link(preds, n)
            for h in self._exc_targets(tries):
                g.add_edge(n, h)
            return {n}
        if isinstance(st, ast.Break):
            n = self._new(st)
            self._link(preds, n)
            if not loops:
                raise AnalysisError("break outside loop")
            loops[-1]["breaks"].add(n)
            return set()
        if isinstance(st, ast.Continue):
            n = self._new(st)
            self._link(preds, n)
            g.add_edge(n, loops[-1]["head"])
            return set()
        if isinstance(st, ast.If):
            n = self._new(st, "if")
            self._link(preds, n)
            if tries:
                for h in tries[-1]:
                    g.add_edge(n, h)
            b = self._block(st.body, {n}, loops, tries, st, "body")
            if st.orelse:
                e = self._block(st.orelse, {n}, loops, tries, st, "orelse")
            else:
                e = {n}
            return b | e
        if isinstance(st, (ast.While, ast.For, ast.AsyncFor)):
            n = self._new(st, "while" if isinstance(st, ast.While) else "for")
            self._link(preds, n)
            if tries:
                for h in tries[-1]:
                    g.add_edge(n, h)
            info = {"head": n, "breaks": set()}
            b = self._block(st.body, {n}, loops + [info], tries, st, "body")
            for x in b:
                g.add_edge(x, n)
            infinite = (isinstance(st, ast.While) and isinstance(st.test, ast.Constant)
                        and bool(st.test.value))
            normal = set() if infinite else {n}
            if st.orelse:
                normal = self._block(st.orelse, normal, loops, tries, st, "orelse")
            return normal | info["breaks"]
        if isinstance(st, (ast.With, ast.AsyncWith)):
            n = self._new(st, "with")
            self._link(preds, n)
            if tries:
                for h in tries[-1]:
                    g.add_edge(n, h)
            return self._block(st.body, {n}, loops, tries, st, "body")
        if isinstance(st, ast.Try):
            if st.finalbody:
                raise AnalysisError(f"try/finally at line {st.lineno} is not modelled (A.2)")
            n = self._new(st, "try")
            self._link(preds, n)
            hnodes = []
            for h in st.handlers:
                hn = self._new(h, "handler")
                hnodes.append(hn)
            # an exception not matched by any handler propagates outwards
            outer = self._exc_targets(tries)
            b = self._block(st.body, {n}, loops, tries + [hnodes + list(outer)], st, "body")
            if st.orelse:
                b = self._block(st.orelse, b, loops, tries, st, "orelse")
            outs = set(b)
            for h, hn in zip(st.handlers, hnodes):
                self.parent_stmt[id(h)] = st
                self.branch[id(h)] = (st, "handler")
                outs |= self._block(h.body, {hn}, loops, tries, h, "body")
            return outs
        if isinstance(st, ast.Match):
            raise AnalysisError(f"match statement at line {st.lineno} is not modelled")
        raise AnalysisError(f"unmodelled statement {type(st).__name__} at line {st.lineno}")

    # ---------------------------------------------------------------- queries
    def node(self, st):
        return self.node_of[id(st)]

    def dom(self):
        if self._dom is None:
            self._dom = nx.immediate_dominators(self.g, ENTRY)
        return self._dom

    def dominates(self, a, b):
        """a dominates b (every path ENTRY->b passes a)."""
        idom = self.dom()
        if b not in idom:
            return True  # unreachable
        x = b
        while True:
            if x == a:
                return True
            nx_ = idom.get(x)
            if nx_ is None or nx_ == x:
                return False
            x = nx_

    def reachable_avoiding(self, src, dst, avoid, include_src_succ_only=True):
        """Is some ``dst`` node reachable from ``src`` on a path that does not pass
        through any node of ``avoid`` (src itself is not tested)?"""
        avoid = set(avoid)
        dst = set(dst) if not isinstance(dst, (str, int)) else {dst}
        seen = set()
        stack = [s for s in self.g.successors(src)]
        while stack:
            x = stack.pop()
            if x in seen or x in avoid:
                continue
            seen.add(x)
            if x in dst:
                return True
            stack.extend(self.g.successors(x))
        return False

    def every_path_passes(self, src, through, to=(EXIT,)):
        """Every path src -> ``to`` passes a node in ``through``."""
        return not self.reachable_avoiding(src, to, through)

    def reachable(self, src, dst):
        return self.reachable_avoiding(src, dst, ())

    def enclosing(self, st):
        """List of (compound stmt, which) from outermost to innermost."""
        out = []
        cur = st
        while True:
            par, which = self.branch.get(id(cur), (None, None))
            if par is None:
                break
            out.append((par, which))
            cur = par
        return out[::-1]

    def enclosing_loops(self, st):
        return [p for p, w in self.enclosing(st) if isinstance(p, (ast.For, ast.While)) and w == "body"]

    def all_stmts(self):
        return [self.stmt[n] for n in sorted(self.stmt)]


def cfg_of(fn):
    if fn._cfg is None:
        fn._cfg = CFG(fn)
    return fn._cfg
