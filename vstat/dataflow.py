"""Reaching definitions and def-use on the CFG of one function."""
import ast

from .cfg import cfg_of, ENTRY, EXIT, RAISE


class Def:
    """One definition of a local name.

    kind: 'param' | 'assign' | 'unpack' | 'aug' | 'for' | 'with' | 'except'
          | 'def' | 'class' | 'import' | 'del'
    """
    __slots__ = ("name", "node", "kind", "stmt", "value", "path", "idx")

    def __init__(self, name, node, kind, stmt=None, value=None, path=()):
        self.name = name
        self.node = node
        self.kind = kind
        self.stmt = stmt
        self.value = value
        self.path = tuple(path)
        self.idx = None

    def __repr__(self):
        ln = getattr(self.stmt, "lineno", "-")
        return f"<def {self.name} {self.kind}@{ln}{list(self.path) if self.path else ''}>"


def _targets(t, path=()):
    """Yield (Name node, path) for the Names bound by assignment target t."""
    if isinstance(t, ast.Name):
        yield t, path
    elif isinstance(t, (ast.Tuple, ast.List)):
        for i, e in enumerate(t.elts):
            if isinstance(e, ast.Starred):
                yield from _targets(e.value, path + (("star", i),))
            else:
                yield from _targets(e, path + (i,))
    # Subscript / Attribute targets bind no name


class ReachingDefs:
    def __init__(self, fn):
        self.fn = fn
        self.cfg = cfg_of(fn)
        self.defs = []
        self.gen = {}  # node -> list of Def
        self.global_names = set()
        self.nonlocal_names = set()
        self._collect()
        self._solve()

    def _add(self, d):
        d.idx = len(self.defs)
        self.defs.append(d)
        self.gen.setdefault(d.node, []).append(d)

    def _collect(self):
        fn = self.fn
        for p in fn.params:
            self._add(Def(p.lstrip("*"), ENTRY, "param"))
        for n, st in self.cfg.stmt.items():
            if isinstance(st, ast.Assign):
                for t in st.targets:
                    for nm, path in _targets(t):
                        self._add(Def(nm.id, n, "unpack" if path else "assign", st, st.value, path))
            elif isinstance(st, ast.AnnAssign):
                if st.value is not None and isinstance(st.target, ast.Name):
                    self._add(Def(st.target.id, n, "assign", st, st.value))
            elif isinstance(st, ast.AugAssign):
                if isinstance(st.target, ast.Name):
                    self._add(Def(st.target.id, n, "aug", st, st.value))
            elif isinstance(st, (ast.For, ast.AsyncFor)):
                for nm, path in _targets(st.target):
                    self._add(Def(nm.id, n, "for", st, st.iter, path))
            elif isinstance(st, (ast.With, ast.AsyncWith)):
                for it in st.items:
                    if it.optional_vars is not None:
                        for nm, path in _targets(it.optional_vars):
                            self._add(Def(nm.id, n, "with", st, it.context_expr, path))
            elif isinstance(st, ast.ExceptHandler):
                if st.name:
                    self._add(Def(st.name, n, "except", st, st.type))
            elif isinstance(st, (ast.FunctionDef, ast.AsyncFunctionDef)):
                self._add(Def(st.name, n, "def", st))
            elif isinstance(st, ast.ClassDef):
                self._add(Def(st.name, n, "class", st))
            elif isinstance(st, (ast.Import, ast.ImportFrom)):
                for a in st.names:
                    self._add(Def((a.asname or a.name).split(".")[0], n, "import", st))
            elif isinstance(st, ast.Delete):
                for t in st.targets:
                    if isinstance(t, ast.Name):
                        self._add(Def(t.id, n, "del", st))
            elif isinstance(st, ast.Global):
                self.global_names.update(st.names)
            elif isinstance(st, ast.Nonlocal):
                self.nonlocal_names.update(st.names)
            # walrus targets anywhere inside the statement's own expressions
            for sub in self._own_exprs(st):
                for w in ast.walk(sub):
                    if isinstance(w, ast.NamedExpr):
                        self._add(Def(w.target.id, n, "assign", st, w.value))

    @staticmethod
    def _own_exprs(st):
        """Expressions evaluated at the node of st (not those of nested statements)."""
        if isinstance(st, (ast.If, ast.While)):
            return [st.test]
        if isinstance(st, (ast.For, ast.AsyncFor)):
            return [st.iter]
        if isinstance(st, (ast.With, ast.AsyncWith)):
            return [it.context_expr for it in st.items]
        if isinstance(st, (ast.Try, ast.ExceptHandler, ast.FunctionDef, ast.AsyncFunctionDef, ast.ClassDef)):
            return []
        return [st]

    def _solve(self):
        g = self.cfg.g
        nodes = list(g.nodes)
        IN = {n: {} for n in nodes}
        OUT = {n: {} for n in nodes}

        def transfer(n, inn):
            out = inn
            gens = self.gen.get(n)
            if gens:
                out = dict(inn)
                byname = {}
                for d in gens:
                    byname.setdefault(d.name, set()).add(d.idx)
                for nm, s in byname.items():
                    out[nm] = frozenset(s)
            return out

        OUT[ENTRY] = transfer(ENTRY, {})
        work = [n for n in nodes if n != ENTRY]
        inwork = set(work)
        while work:
            n = work.pop(0)
            inwork.discard(n)
            merged = {}
            for p in g.predecessors(n):
                for nm, s in OUT[p].items():
                    if nm in merged:
                        if merged[nm] is not s:
                            merged[nm] = merged[nm] | s
                    else:
                        merged[nm] = s
            IN[n] = merged
            out = transfer(n, merged)
            if out != OUT[n]:
                OUT[n] = out
                for s in g.successors(n):
                    if s not in inwork:
                        work.append(s)
                        inwork.add(s)
        self.IN, self.OUT = IN, OUT

    # ---------------------------------------------------------------- queries
    def reaching(self, name, stmt_or_node, after=False):
        n = stmt_or_node if isinstance(stmt_or_node, (int, str)) else self.cfg.node(stmt_or_node)
        table = self.OUT if after else self.IN
        return [self.defs[i] for i in sorted(table.get(n, {}).get(name, ()))]

    def all_defs(self, name):
        return [d for d in self.defs if d.name == name]

    def at_exit(self, name):
        return self.reaching(name, EXIT)


def rd_of(fn):
    if fn._rd is None:
        fn._rd = ReachingDefs(fn)
    return fn._rd
