"""vstat - static wiring analysis for virocon (stdlib ast + networkx)."""
