"""Seeded breaks (expect='fail') and benign twins (expect='pass') for the rule self-test.

Each entry is one textual edit of one file of virocon; ``props`` lists the properties whose check is run
on the variant, ``rules`` names (per property) a rule that must fire for a break.  The variants compile and
are never executed.
"""
MUTATIONS = []


def M(id, props, file, old, new, expect="fail", rules=None, what=""):
    if isinstance(props, str):
        props = [props]
    if isinstance(rules, (list, tuple)):
        rules = {p: list(rules) for p in props}
    MUTATIONS.append(dict(id=id, props=props, file=file, old=old, new=new, expect=expect, rules=rules or {}, what=what or id))


C, D, J, I, U, PL, PR, DEP, FIT, VT, NS, IX = ("contours.py", "distributions.py", "jointmodels.py", "intervals.py", "utils.py", "plotting.py",
                                              "predefined.py", "dependencies.py", "_fitting.py", "variable_transform.py", "_nsphere.py", "_intersection.py")

# ------------------------------------------------------------------ C01
M("c01-cond-col-prev", "C01", C, "given=coordinates[:, cond_idx]", "given=coordinates[:, i - 1]", rules=["C01.chain"], what="IFORM conditions on column i-1")
M("c01-cond-col-p", "C01", C, "given=coordinates[:, cond_idx]", "given=p[:, cond_idx]", rules=["C01.chain"], what="IFORM conditions on the probability matrix")
M("c01-alpha", "C01", C, "beta = sts.norm.ppf(1 - self.alpha)", "beta = sts.norm.ppf(self.alpha)", rules=["C01.beta"], what="alpha for 1-alpha")
M("c01-isorm-df", "C01", C, "beta = np.sqrt(sts.chi2.ppf(1 - self.alpha, n_dim))", "beta = np.sqrt(sts.chi2.ppf(1 - self.alpha, 2))", rules=["C01.beta"], what="constant df")
M("c01-isorm-nosqrt", "C01", C, "beta = np.sqrt(sts.chi2.ppf(1 - self.alpha, n_dim))", "beta = sts.chi2.ppf(1 - self.alpha, n_dim)", rules=["C01.beta"], what="missing sqrt")
M("c01-isorm-given", "C01", C, "                conditioning_values = data[:, cond_idx]", "                conditioning_values = norm_cdf_per_dimension[cond_idx]", rules=["C01.chain"])
M("c01-endpoint", "C01", C, "            _phi = np.linspace(0, 2 * np.pi, num=n_points, endpoint=False)\n            _x = np.cos(_phi)\n            _y = np.sin(_phi)\n            _circle = np.stack((_x, _y), axis=1)",
  "            _phi = np.linspace(0, 2 * np.pi, num=n_points, endpoint=True)\n            _x = np.cos(_phi)\n            _y = np.sin(_phi)\n            _circle = np.stack((_x, _y), axis=1)", rules=["C01.sphere"])
M("c01-sincos", "C01", C, "_circle = np.stack((_x, _y), axis=1)", "_circle = np.stack((_y, _x), axis=1)", rules=["C01.sphere"])
M("c01-dist-idx", "C01", C, "                    coordinates[:, i] = distributions[i].icdf(\n                        p[:, i], given=coordinates[:, cond_idx]",
  "                    coordinates[:, i] = distributions[cond_idx].icdf(\n                        p[:, i], given=coordinates[:, cond_idx]", rules=["C01.chain"])
M("c01-nsphere-swap", "C01", C, "            sphere = NSphere(dim=n_dim, n_samples=n_points)\n            sphere_points = beta * sphere.unit_sphere_points\n\n        # Get probabilities for coordinates\n",
  "            sphere = NSphere(dim=n_points, n_samples=n_dim)\n            sphere_points = beta * sphere.unit_sphere_points\n\n        # Get probabilities for coordinates\n", rules=["C01.sphere"])
M("c01-renorm", "C01", NS, "            self.unit_sphere_points /= np.linalg.norm(\n                self.unit_sphere_points, axis=1, keepdims=True\n            )", "            pass", rules=["C01.nsphere"])
M("c01-tm-given", "C01", C, "given = coordinates[:, np.arange(n_dim) != i]", "given = p[:, np.arange(n_dim) != i]", rules=["C01.tm"])
M("c01-twin-isf", "C01", C, "beta = sts.norm.ppf(1 - self.alpha)", "beta = sts.norm.isf(self.alpha)", expect="pass")
M("c01-twin-c_", "C01", C, "_circle = np.stack((_x, _y), axis=1)", "_circle = np.c_[_x, _y]", expect="pass")
M("c01-twin-temp", "C01", C, "                    cond_idx = conditional_on[i]\n                    coordinates[:, i] = distributions[i].icdf(\n                        p[:, i], given=coordinates[:, cond_idx]\n                    )",
  "                    dist_i = distributions[i]\n                    g = coordinates[:, conditional_on[i]]\n                    coordinates[:, i] = dist_i.icdf(p[:, i], given=g)", expect="pass")

# ------------------------------------------------------------------ C02
M("c02-level", "C02", C, "HDR, prob_m = self.cumsum_biggest_until(cell_prob, 1 - alpha)", "HDR, prob_m = self.cumsum_biggest_until(cell_prob, alpha)", rules=["C02.level"])
M("c02-lt", "C02", C, "summed_flat_inds = sort_inds[cum_sum <= limit]", "summed_flat_inds = sort_inds[cum_sum < limit]", rules=["C02.select"])
M("c02-last", "C02", C, "last_summed = array[np.unravel_index(summed_flat_inds[-1], shape=array.shape)]", "last_summed = array[np.unravel_index(summed_flat_inds[0], shape=array.shape)]", rules=["C02.select"])
M("c02-cumsum-unsorted", "C02", C, "cum_sum = np.cumsum(sort_vals)", "cum_sum = np.cumsum(flat_array)", rules=["C02.select"])
M("c02-ascending", "C02", C, 'sort_inds = np.argsort(flat_array, kind="mergesort")[::-1]', 'sort_inds = np.argsort(flat_array, kind="mergesort")', rules=["C02.select"])
M("c02-row-col", "C02", C, "                fbar[i, :] = upper - lower", "                fbar[:, i] = upper - lower", rules=["C02.cellpdf"])
M("c02-no-div", "C02", C, "        return fbar_out / dx", "        return fbar_out", rules=["C02.cellpdf"])
M("c02-dx-axis", "C02", C, "        dx = coords[dist_idx][1] - coords[dist_idx][0]", "        dx = coords[0][1] - coords[0][0]", rules=["C02.cellpdf"])
M("c02-half", "C02", C, "                upper = cdf(coords[dist_idx] + 0.5 * dx, given=cond_value)", "                upper = cdf(coords[dist_idx] + dx, given=cond_value)", rules=["C02.cellpdf"])
M("c02-fm-delta", "C02", C, "        for delta in deltas:\n            fm /= delta", "        for delta in deltas[:1]:\n            fm /= delta", rules=["C02.pairing"])
M("c02-warn-removed", "C02", C, '            warnings.warn(\n                "A probability of 1-alpha could not be reached. "\n                "Consider enlarging the area defined by limits or "\n                "setting n_years to a smaller value.",\n                RuntimeWarning,\n                stacklevel=4,\n            )', "            pass", rules=["C02.warn"])
M("c02-joint-skip", "C02", C, "        for dist_idx in range(n_dim):\n            fbar = np.multiply(fbar, self.cell_averaged_pdf(dist_idx, coords))", "        for dist_idx in range(1, n_dim):\n            fbar = np.multiply(fbar, self.cell_averaged_pdf(dist_idx, coords))", rules=["C02.joint"])
M("c02-twin-half", "C02", C, "                lower = cdf(coords[dist_idx] - 0.5 * dx, given=cond_value)", "                lower = cdf(coords[dist_idx] - dx / 2, given=cond_value)", expect="pass")
M("c02-twin-stable", "C02", C, 'kind="mergesort")[::-1]', 'kind="stable")[::-1]', expect="pass")

M("c02-grid-delta0", "C02", C, "            delta = deltas[i]\n            samples = np.arange(min_, max_ + delta, delta)", "            delta = deltas[0]\n            samples = np.arange(min_, max_ + delta, delta)", rules=["C02.grid"])
M("c02-default-limit-dim", "C02", C, "                (0, marginal_icdf(non_exceedance_p, dim, precision_factor=0.05))", "                (0, marginal_icdf(non_exceedance_p, 0, precision_factor=0.05))", rules=["C02.grid"])
M("c02-default-delta-dim", "C02", C, "                deltas[i] = (limits[i][1] - limits[i][0]) * relative_cell_size", "                deltas[i] = (limits[0][1] - limits[0][0]) * relative_cell_size", rules=["C02.grid"])
M("c02-ctor-alpha", "C02", C, "        self.model = model\n        self.alpha = alpha\n        self.limits = limits", "        self.model = model\n        self.alpha = 1 - alpha\n        self.limits = limits", rules=["C02.ctor"])
M("c01-ctor-alpha", "C01", C, "        self.alpha = alpha\n        self.n_points = n_points\n        super().__init__()\n\n    def _compute(\n        self,\n    ):\n        \"\"\"\n        Calculates coordinates using ISORM.", "        self.alpha = 1 - alpha\n        self.n_points = n_points\n        super().__init__()\n\n    def _compute(\n        self,\n    ):\n        \"\"\"\n        Calculates coordinates using ISORM.", rules=["C01.ctor"])
M("c04-ctor-late", "C04", C, "        self.allowed_error = allowed_error\n        super().__init__()\n\n    def _compute(self):\n        model = self.model\n        alpha = self.alpha\n        n = self.n\n        deg_step = self.deg_step\n        sample = self.sample\n        allowed_error = self.allowed_error\n\n        if self.model.n_dim != 2:\n            raise NotImplementedError(\n                \"AndContour", "        super().__init__()\n        self.allowed_error = allowed_error\n\n    def _compute(self):\n        model = self.model\n        alpha = self.alpha\n        n = self.n\n        deg_step = self.deg_step\n        sample = self.sample\n        allowed_error = self.allowed_error\n\n        if self.model.n_dim != 2:\n            raise NotImplementedError(\n                \"AndContour", rules=["C04.ctor"])

# ------------------------------------------------------------------ C03
M("c03-alpha", "C03", C, "        non_exceedance_p = 1 - alpha\n", "        non_exceedance_p = alpha\n", rules=["C03.proj"])
M("c03-sincos", "C03", C, "z = x * np.cos(angles[i]) + y * np.sin(angles[i])", "z = x * np.sin(angles[i]) + y * np.cos(angles[i])", rules=["C03.proj"])
M("c03-nowrap", "C03", C, "        r = np.array(np.concatenate((r, [r[0]]), axis=0))", "        r = np.array(np.concatenate((r, [r[-1]]), axis=0))", rules=["C03.wrap"])
M("c03-n", "C03", C, "        if n is None:\n            n = int(100 / alpha)\n        self.n = n\n        self.deg_step = deg_step\n        self.sample = sample\n        super().__init__()\n\n    def _compute(self):\n        sample = self.sample\n        n = self.n\n        deg_step = self.deg_step\n        alpha = self.alpha\n",
  "        if n is None:\n            n = int(10 / alpha)\n        self.n = n\n        self.deg_step = deg_step\n        self.sample = sample\n        super().__init__()\n\n    def _compute(self):\n        sample = self.sample\n        n = self.n\n        deg_step = self.deg_step\n        alpha = self.alpha\n", rules=["C03.n"])
M("c03-twin-append", "C03", C, "        r = np.array(np.concatenate((r, [r[0]]), axis=0))", "        r = np.append(r, r[0])", expect="pass")
M("c03-twin-reorder", "C03", C, "z = x * np.cos(angles[i]) + y * np.sin(angles[i])", "z = np.sin(angles[i]) * y + np.cos(angles[i]) * x", expect="pass")

# ------------------------------------------------------------------ C04
M("c04-and-or", "C04", C, "                both_greater = np.logical_and(", "                both_greater = np.logical_or(", rules=["C04.pred"])
M("c04-ge", "C04", C, "                    x > current_vector[0], y > current_vector[1]\n                )\n                current_pe = both_greater.sum()", "                    x >= current_vector[0], y > current_vector[1]\n                )\n                current_pe = both_greater.sum()", rules=["C04.pred"])
M("c04-comp", "C04", C, "                or_exceeded = np.logical_or(\n                    x > current_vector[0], y > current_vector[1]", "                or_exceeded = np.logical_or(\n                    x > current_vector[1], y > current_vector[0]", rules=["C04.pred"])
M("c04-silent-break", "C04", C, '                if nr_iterations == max_iterations:\n                    warnings.warn(\n                        "Could not achieve the required precision. Stopping "\n                        "because the maximum number of iterations is reached.",\n                        UserWarning,\n                    )\n                    break\n            coords_x[i]',
  "                if nr_iterations == max_iterations:\n                    break\n            coords_x[i]", rules=["C04.exit"])
M("c04-vector-after-pe", "C04", C, "                nr_iterations = nr_iterations + 1\n                if nr_iterations == max_iterations:\n                    warnings.warn(\n                        \"Could not achieve the required precision. Stopping \"\n                        \"because the maximum number of iterations is reached.\",\n                        UserWarning,\n                    )\n                    break\n            if (current",
  "                nr_iterations = nr_iterations + 1\n                current_vector = unity_vector * rel_dist * max_distance\n                if nr_iterations == max_iterations:\n                    warnings.warn(\n                        \"Could not achieve the required precision. Stopping \"\n                        \"because the maximum number of iterations is reached.\",\n                        UserWarning,\n                    )\n                    break\n            if (current", rules=["C04.sync"])
M("c04-closure", "C04", C, "        coords_x.append(0)\n        coords_y.append(coords_y[-1])\n        coords_x.append(0)\n        coords_y.append(0)", "        coords_x.append(0)\n        coords_y.append(0)\n        coords_x.append(0)\n        coords_y.append(coords_y[-1])", rules=["C04.close"])
M("c04-filter-alter", "C04", C, "                coords_x.append(current_vector[0, 0])\n                coords_y.append(current_vector[1, 0])\n        coords_x.append(0)", "                coords_x.append(min(current_vector[0, 0], x_max_consider))\n                coords_y.append(current_vector[1, 0])\n        coords_x.append(0)", rules=["C04.filter"])
M("c04-tolerance", "C04", C, "            while np.abs((current_pe - alpha)) / alpha > allowed_error:\n                abs_dist = rel_dist * max_distance\n                current_vector = unity_vector * abs_dist\n                both_greater", "            while np.abs((current_pe - alpha)) > allowed_error:\n                abs_dist = rel_dist * max_distance\n                current_vector = unity_vector * abs_dist\n                both_greater", rules=["C04.exit"])
M("c04-and-last", "C04", C, "        coords_x[-1] = 0\n        coords_y[-1] = 0", "        coords_x[-1] = 0\n        coords_y[-1] = coords_y[-2]", rules=["C04.close"])

# ------------------------------------------------------------------ C05 / C08
M("c05-normal-sigma", ["C05", "C08"], D, "        else:\n            scale = sigma\n        return loc, scale  # loc, scale", "        else:\n            scale = self.sigma\n        return loc, scale  # loc, scale", rules={"C05": ["C05.paramflow"], "C08": ["C08.template"]}, what="original defect D1")
M("c05-swap-shapes", "C05", D, "        return delta, beta, 0, alpha  # shape1, shape2, loc, scale", "        return beta, delta, 0, alpha  # shape1, shape2, loc, scale", rules=["C05.slots"])
M("c05-lambda", "C05", D, "            scipy_scale = 1 / lambda_", "            scipy_scale = lambda_", rules=["C05.slots"])
M("c05-exp-mu", "C05", D, "        else:\n            scale = np.exp(mu)\n        if sigma is None:", "        else:\n            scale = mu\n        if sigma is None:", rules=["C05.slots"])
M("c05-icdf-isf", "C05", D, "        return sts.weibull_min.ppf(prob, *scipy_par)", "        return sts.weibull_min.isf(prob, *scipy_par)", rules=["C05.siblings"])
M("c05-pdf-other-dist", "C05", D, "        return sts.lognorm.pdf(x, *scipy_par)\n\n    def draw_sample(self, n, mu=None, sigma=None, *, random_state=None):", "        return sts.norm.pdf(x, *scipy_par)\n\n    def draw_sample(self, n, mu=None, sigma=None, *, random_state=None):", rules=["C05.siblings"])
M("c05-arg-order", "C05", D, "    def icdf(self, prob, alpha=None, beta=None, gamma=None):", "    def icdf(self, prob, beta=None, alpha=None, gamma=None):", rules=["C05.siblings"])
M("c05-polarity", "C05", D, "        if gamma is None:\n            gamma = self.gamma\n        return beta, gamma, alpha  # shape, loc, scale", "        if gamma is not None:\n            gamma = self.gamma\n        return beta, gamma, alpha  # shape, loc, scale", rules=["C05.paramflow"])
M("c05-support", "C05", D, "x_greater_zero = np.where(x > 0, x, np.nan)", "x_greater_zero = np.where(x >= 0, x, np.nan)", rules=["C05.support"])
M("c05-twin-rename", "C05", D, "        if mu is None:\n            loc = self.mu\n        else:\n            loc = mu\n        if sigma is None:\n            scale = self.sigma", "        if mu is None:\n            loc = self.mu\n        else:\n            loc = mu\n        scale = sigma\n        if sigma is None:\n            scale = self.sigma", expect="pass")
M("c05-default-not-none", "C05", D, "    def cdf(self, x, alpha=None, beta=None, gamma=None):", "    def cdf(self, x, alpha=None, beta=None, gamma=0):", rules=["C05.siblings"])
M("c05-parameters-swapped", "C05", D, '        return {"m": self.m, "c": self.c, "lambda_": self.lambda_}', '        return {"m": self.c, "c": self.m, "lambda_": self.lambda_}', rules=["C05.siblings"])
M("c08-key", "C08", D, "param_values[par_name] = self.conditional_parameters[par_name](given)", "param_values[par_name] = self.conditional_parameters[self.param_names[0]](given)", rules=["C08.values"])
M("c08-forward", "C08", D, "return self.distribution.icdf(prob, **self._get_param_values(given))", "return self.distribution.cdf(prob, **self._get_param_values(given))", rules=["C08.forward"])
M("c08-chain-arg", "C08", PR, "2.0445 ** (1 / d_of_x(x))", "2.0445 ** (1 / d_of_x(c))", rules=["C08.chain"])
M("c08-branch-given", "C08", D, "        param_values = {}\n        for par_name in self.param_names:", "        param_values = {}\n        if np.ndim(given) == 0:\n            given = float(given) + 0.0\n        for par_name in self.param_names:", rules=["C08.values"])
M("c08-partial-key", "C08", DEP, "                dep_param_dict = {key: dep_param}", "                dep_param_dict = {list(self.parameters)[-1]: dep_param}", rules=["C08.chain"])

# ------------------------------------------------------------------ C06 / C07
M("c06-given0", "C06", J, "fs[:, i] = self.distributions[i].pdf(x[:, i], given=x[:, cond_idx])", "fs[:, i] = self.distributions[i].pdf(x[:, i], given=x[:, 0])", rules=["C06.chain"])
M("c06-prod", "C06", J, "return np.prod(fs, axis=-1)", "return np.prod(fs[:, 1:], axis=-1)", rules=["C06.chain"])
M("c06-perm", "C06", J, "                x = np.array(args)[np.argsort(arg_order)].reshape((1, n_dim))\n                return self.pdf(x)\n\n            return integral_func\n\n        # every other variable is integrated", "                x = np.array(args)[arg_order].reshape((1, n_dim))\n                return self.pdf(x)\n\n            return integral_func\n\n        # every other variable is integrated", rules=["C06.argorder"])
M("c06-delegate", "C06", J, "            return self.distributions[dim].cdf(x)", "            return self.distributions[dim].pdf(x)", rules=["C06.delegate"])
M("c06-quantile-col", "C06", J, "        x = np.quantile(sample[:, dim], p)", "        x = np.quantile(sample[:, 0], p)", rules=["C06.mc"])
M("c06-chkfinite", "C06", J, "        x = np.asarray_chkfinite(x)\n        if x.ndim != 2 or x.shape[-1] != self.n_dim:", "        x = np.asarray(x)\n        if x.ndim != 2 or x.shape[-1] != self.n_dim:", rules=["C06.finite"])
M("c06-cdf-limits", "C06", J, "            integration_limits = [\n                (lower_integration_limits[j], x[i, j]) for j in range(n_dim)\n            ]\n\n            p[i], error = integrate.nquad(integral_func, integration_limits)\n\n        return p\n\n    @abstractmethod", "            integration_limits = [\n                (lower_integration_limits[j], x[i, 0]) for j in range(n_dim)\n            ]\n\n            p[i], error = integrate.nquad(integral_func, integration_limits)\n\n        return p\n\n    @abstractmethod", rules=["C06.argorder"])
M("c07-cond-col", "C07", J, "                conditioning_values = samples[:, cond_idx]\n                samples[:, i]", "                conditioning_values = samples[:, i - 1]\n                samples[:, i]", rules=["C07.chain"])
M("c07-drop-rs", "C07", J, "                samples[:, i] = dist.draw_sample(n, random_state=random_state)", "                samples[:, i] = dist.draw_sample(n)", rules=["C07.rng"])
M("c07-no-generator", "C07", J, "        if random_state is not None:\n            # if random_state already is a np.random.Generator, default_rng returns it unaltered\n            random_state = np.random.default_rng(random_state)\n\n        samples = np.zeros((n, self.n_dim))", "        samples = np.zeros((n, self.n_dim))", rules=["C07.rng"])
M("c07-fixed-seed", "C07", J, "        rng = np.random.default_rng(random_state)", "        rng = np.random.default_rng(0)", rules=["C07.noseed", "C07.rng"])
M("c07-family-rs", "C07", D, "        return sts.lognorm.rvs(*scipy_par, size=rvs_size, random_state=random_state)\n\n    def _fit_mle(self, sample):\n        p0 = {\"scale\"", "        return sts.lognorm.rvs(*scipy_par, size=rvs_size)\n\n    def _fit_mle(self, sample):\n        p0 = {\"scale\"", rules=["C07.family", "C07.rng"])
M("c07-size", "C07", D, "        if at_least_one_iterable:\n            return (n, par_length)", "        if at_least_one_iterable:\n            return (par_length, n)", rules=["C07.size"])
M("c07-global-seed", "C07", J, "        samples = np.zeros((n, self.n_dim))\n        for i in range(self.n_dim):", "        np.random.seed(0)\n        samples = np.zeros((n, self.n_dim))\n        for i in range(self.n_dim):", rules=["C07.noseed"])

# ------------------------------------------------------------------ C09 / C10 / C13
M("c09-weights-dim", "C09", J, 'weights = fit_descriptions[i]["weights"]', 'weights = fit_descriptions[i - 1]["weights"]', rules=["C09.dims"])
M("c09-slicer-dim", "C09", J, "slicer = self.interval_slicers[conditioning_idx]", "slicer = self.interval_slicers[dist_idx]", rules=["C09.split"])
M("c09-template", ["C09", "C19"], D, "dist = copy.deepcopy(self.distribution)", "dist = self.distribution", rules={"C09": ["C09.intervals"], "C19": ["C19.template"]})
M("c09-y-key", ["C09", "C14"], D, "y = [params[par_name] for params in self.parameters_per_interval]", "y = [list(params.values())[0] for params in self.parameters_per_interval]", rules={"C09": ["C09.intervals"], "C14": ["C14.all"]})
M("c09-rank-masks", ["C09", "C10"], I, "            np.isin(positions, idc, assume_unique=True) for idc in interval_idc", "            np.isin(sorted_idc, idc, assume_unique=True) for idc in interval_idc", rules={"C09": ["C09.masks"], "C10": ["C10.align"]}, what="original defect D6")
M("c10-ops", "C10", I, "                ((lower <= data) & (data < upper))", "                ((lower <= data) & (data <= upper))", rules=["C10.ops"])
M("c10-edge-recompute", "C10", I, "                ((lower < data) & (data <= upper))\n                for lower, upper in zip(interval_edges[:-1], interval_edges[1:])", "                ((lower < data) & (data <= lower + width))\n                for lower, upper in zip(interval_edges[:-1], interval_edges[1:])", rules=["C10.edge"])
M("c10-include-max", "C10", I, "                ((data >= interval_edges[-2]) & (data <= interval_edges[-1]))", "                ((data >= interval_edges[-2]) & (data < interval_edges[-1]))", rules=["C10.ops"])
M("c10-drop-gt", "C10", I, "            if np.sum(slice_) >= self.min_n_points:", "            if np.sum(slice_) > self.min_n_points:", rules=["C10.drop"])
M("c10-drop-mix", "C10", I, "                ok_references.append(int_cent)", "                ok_references.append(interval_references[0])", rules=["C10.drop"])
M("c10-min", "C10", I, "        if len(interval_slices) < self.min_n_intervals:", "        if len(interval_slices) < self.min_n_intervals - 1:", rules=["C10.min"])
M("c10-ref-right", "C10", I, "                interval_references += 0.5 * width", "                interval_references += width", rules=["C10.refs"])
M("c10-ref-number", "C10", I, "                interval_references = interval_starts + interval_width\n", "                interval_references = interval_starts + 0.5 * interval_width\n", rules=["C10.refs"])
M("c10-ppi-last-full", "C10", I, "                interval_idc = np.split(sorted_idc[remainder:], n_full_chunks)\n                interval_idc.insert(0, sorted_idc[:remainder])", "                interval_idc = np.split(sorted_idc[remainder:], n_full_chunks)\n                interval_idc.append(sorted_idc[:remainder])", rules=["C10.ppi"])
M("c10-ppi-mid", "C10", I, "upper_boundary = (np.max(interval) + np.min(next_interval)) / 2", "upper_boundary = np.max(interval)", rules=["C10.ppi"])
M("c10-valueerror", ["C10", "C18"], I, '            elif self.reference.lower() == "left":\n                interval_references -= 0.5 * width\n            else:\n                raise ValueError(', '            elif self.reference.lower() == "left":\n                interval_references -= 0.5 * width\n            elif False:\n                raise ValueError(', rules={"C10": ["C10.refs"], "C18": ["C18.shared"]})
# (c10-twin-half dropped: the edges are no longer derived from the centres)
M("c10-twin-comp-bounds", "C10", I, "        interval_boundaries = list(zip(interval_edges[:-1], interval_edges[1:]))\n\n        if isinstance(self.reference, str):\n            if self.reference.lower() == \"center\":\n                pass  # interval_references are",
  "        interval_boundaries = [(lo, hi) for lo, hi in zip(interval_edges[:-1], interval_edges[1:])]\n\n        if isinstance(self.reference, str):\n            if self.reference.lower() == \"center\":\n                pass  # interval_references are", expect="pass")
M("c13-unnormalised", "C13", D, "        w = w / np.sum(w)\n", "        w = w * 1\n", rules=["C13.norm"], what="original defect D5")
M("c13-unsorted-weights", "C13", D, "                weights = weights[np.lexsort((weights, data))]\n", "                weights = weights * 1\n", rules=["C13.order"], what="original defect D13")
M("c13-positions", "C13", D, "p = (np.arange(1, n + 1) - 0.5) / n", "p = (np.arange(1, n + 1) - 0.5) / (n + 1)", rules=["C13.formula"])
M("c13-intercept", "C13", D, "a_hat = x_star_bar - b_hat * p_star_bar", "a_hat = x_star_bar + b_hat * p_star_bar", rules=["C13.formula"])
M("c13-zero-filter", "C13", D, "        w = w[indices]\n        # The estimators", "        # The estimators", rules=["C13.zeros"])
M("c13-quadratic", "C13", D, "weights = x**2 / np.sum(x**2)", "weights = x**3 / np.sum(x**3)", rules=["C13.weights"])
M("c13-error-space", "C13", D, "wlsq_error = np.sum(w * (x - x_hat) ** 2)", "wlsq_error = np.sum(w * np.abs(x - x_hat))", rules=["C13.delta"])
M("c13-fmin-args", "C13", D, "self._wlsq_error, delta0, disp=False, args=(x, p, weights)", "self._wlsq_error, delta0, disp=False, args=(x, p, np.ones_like(x))", rules=["C13.delta"])
M("c13-twin-reorder", "C13", D, "b_hat_dividend = np.sum(w * p_star * x_star) - p_star_bar * x_star_bar", "b_hat_dividend = np.sum(x_star * w * p_star) - x_star_bar * p_star_bar", expect="pass")
M("c13-twin-beta", "C13", D, "beta_hat = b_hat_divisor / b_hat_dividend  # beta_hat = 1 / b_hat", "beta_hat = 1 / b_hat", expect="pass")

# ------------------------------------------------------------------ C11 / C12
M("c11-vonmises-ctor", "C11", D, "        self.kappa = kappa if f_kappa is None else f_kappa  # shape", "        self.kappa = kappa  # shape", rules=["C11.ctor"], what="original defect D2")
M("c11-gengamma-key", "C11", D, '            fparams["f1"] = self.f_c', '            fparams["fshape2"] = self.f_c', rules=["C11.mle"], what="original defect D3")
M("c11-wrong-slot", "C11", D, '        if self.f_delta is not None:\n            fparams["f0"] = self.f_delta\n        if self.f_beta is not None:\n            fparams["f1"] = self.f_beta', '        if self.f_delta is not None:\n            fparams["f1"] = self.f_delta\n        if self.f_beta is not None:\n            fparams["f0"] = self.f_beta', rules=["C11.mle"])
M("c11-no-exp", "C11", D, '            fparams["fscale"] = math.exp(self.f_mu)', '            fparams["fscale"] = self.f_mu', rules=["C11.mle"])
M("c11-unmap-swap", ["C11", "C12"], D, "        self.delta, self.beta, _, self.alpha = sts.exponweib.fit(", "        self.beta, self.delta, _, self.alpha = sts.exponweib.fit(", rules={"C11": ["C11.unmap"], "C12": ["C12.assign"]})
M("c11-unmap-noinv", ["C11", "C12"], D, "        self.sigma, _, self._scale = sts.lognorm.fit(", "        self.sigma, _, self.mu = sts.lognorm.fit(", rules={"C11": ["C11.unmap"], "C12": ["C12.assign"]})
M("c11-lsq-delta", "C11", D, '                self.delta = fixed["delta"]', '                self.delta = self.delta', rules=["C11.lsq"])
M("c11-cond-fixed", "C11", D, "                    self.fixed_parameters[par_name] = getattr(\n                        distribution, f\"f_{par_name}\"\n                    )", "                    self.fixed_parameters[par_name] = getattr(\n                        distribution, f\"{par_name}\"\n                    )", rules=["C11.cond"])
M("c11-writer", "C11", D, "        scipy_par = self._get_scipy_parameters(alpha, beta, gamma)\n        return sts.weibull_min.cdf(x, *scipy_par)", "        scipy_par = self._get_scipy_parameters(alpha, beta, gamma)\n        self.gamma = scipy_par[1]\n        return sts.weibull_min.cdf(x, *scipy_par)", rules=["C11.writers"])
M("c11-floc", "C11", D, '        fparams = {"floc": 0}\n\n        if self.f_delta is not None:', '        fparams = {}\n\n        if self.f_delta is not None:', rules=["C11.mle"])
M("c11-twin-fa", "C11", D, '            fparams["f0"] = self.f_m', '            fparams["fa"] = self.f_m', expect="pass")
M("c12-dispatch", "C12", D, '        elif method.lower() == "lsq" or method.lower() == "wlsq":', '        elif method.lower() == "lsq":', rules=["C12.dispatch"])
M("c12-dispatch-else", ["C12", "C18"], D, '        else:\n            raise ValueError(\n                f"Unknown fit method', '        elif False:\n            raise ValueError(\n                f"Unknown fit method', rules={"C12": ["C12.dispatch"], "C18": ["C18.shared"]})
M("c12-start-swap", "C12", D, '            sample, p0["delta"], p0["beta"], scale=p0["alpha"], **fparams', '            sample, p0["beta"], p0["delta"], scale=p0["alpha"], **fparams', rules=["C12.call"])
M("c12-data", "C12", D, "        self.beta, self.gamma, self.alpha = sts.weibull_min.fit(\n            sample,", "        self.beta, self.gamma, self.alpha = sts.weibull_min.fit(\n            np.sort(sample)[1:],", rules=["C12.call"])
M("c12-discard", ["C12", "C11"], D, "        self.mu, self.sigma = sts.norm.fit(", "        self.mu, _ = sts.norm.fit(", rules={"C12": ["C12.assign"], "C11": ["C11.unmap"]})
M("c12-twin-in", "C12", D, '        elif method.lower() == "lsq" or method.lower() == "wlsq":', '        elif method.lower() in ("lsq", "wlsq"):', expect="pass")

# ------------------------------------------------------------------ C14 / C15 / C16 / C17
M("c14-bounds-wlsq", "C14", FIT, "            popt, _ = curve_fit(func, x, y, p0, sigma=weights, bounds=bounds)", "            popt, _ = curve_fit(func, x, y, p0, sigma=weights)", rules=["C14.bounds"])
M("c14-upper-inf", "C14", FIT, "upper_bounds.append(upper if upper is not None else np.inf)", "upper_bounds.append(upper if upper is not None else -np.inf)", rules=["C14.bounds"])
M("c14-bounds-order", "C14", FIT, "    return [lower_bounds, upper_bounds]", "    return [upper_bounds, lower_bounds]", rules=["C14.bounds"])
M("c14-no-callback", "C14", DEP, "        for dependent in self.dependents:\n            dependent.callback(self)", "        pass", rules=["C14.protocol"])
M("c14-record-late", "C14", DEP, "        self.x = np.asarray(x)\n        self.y = np.asarray(y)\n        if self._may_fit:  # is the conditioner fitted, so that we can fit now?\n            self._fit(self.x, self.y)", "        if self._may_fit:  # is the conditioner fitted, so that we can fit now?\n            self.x = np.asarray(x)\n            self.y = np.asarray(y)\n            self._fit(self.x, self.y)", rules=["C14.protocol"])
M("c14-no-replay", "C14", DEP, "                self.fit(self.x, self.y)", "                pass", rules=["C14.protocol"])
M("c14-zip-order", "C14", DEP, "        self.parameters = dict(zip(self.parameters.keys(), popt))", "        self.parameters = dict(zip(self.parameters.keys(), popt[::-1]))", rules=["C14.start"])
M("c14-minimize-bounds", "C14", FIT, "        bounds=bounds,\n        # the default ftol", "        # the default ftol", rules=["C14.bounds"])
M("c15-label-struct", "C15", C, "labeled_array, n_modes = ndi.label(HDC, structure=structure)", "labeled_array, n_modes = ndi.label(HDC)", rules=["C15.struct"])
M("c15-dim0", "C15", C, "partial_coordinates.append(cell_center_coordinates[dimension][indice])", "partial_coordinates.append(cell_center_coordinates[0][indice])", rules=["C15.coords"])
M("c15-labels", "C15", C, "for i in range(1, n_modes + 1):", "for i in range(1, n_modes):", rules=["C15.coords"])
M("c15-cross", "C15", C, "structure = np.ones(tuple([3] * n_dim), dtype=bool)", "structure = ndi.generate_binary_structure(n_dim, 1)", rules=["C15.struct"])
M("c15-erosion-border", "C15", C, "HDC = HDR - ndi.binary_erosion(HDR, structure=structure)", "HDC = HDR - ndi.binary_erosion(HDR, structure=structure, border_value=1)", rules=["C15.struct"])
M("c16-jacobian", "C16", PR, "        return 2 * variable_transform.factor * hs / s**3\n\n    linear_2_bounds = [(0, None), (0, None)]\n    limited_growth2_bounds", "        return 2 * variable_transform.factor * hs / s**2\n\n    linear_2_bounds = [(0, None), (0, None)]\n    limited_growth2_bounds", rules=["C16.closed"])
M("c16-inverse", "C16", VT, "    tz = factor_sqrt * np.sqrt(hs / s)", "    tz = factor * np.sqrt(hs / s)", rules=["C16.closed"])
M("c16-jac-arg", "C16", J, "        return self.model.pdf(self.transform(x)) * self.jacobian(x)", "        return self.model.pdf(self.transform(x)) * self.jacobian(self.transform(x))", rules=["C16.wiring"])
M("c16-given-order", "C16", J, "                        x_hat[:, i] = given[j]\n                        j += 1", "                        x_hat[:, i] = given[0]\n                        j += 1", rules=["C16.given"])
M("c16-drop-seed", "C16", C, "p[:, i], i, given, random_state=self.model.random_state", "p[:, i], i, given", rules=["C16.rng"])
M("c16-fit-untransformed", "C16", J, "        return self.model.fit(self.transform(data), *args, **kwargs)", "        return self.model.fit(data, *args, **kwargs)", rules=["C16.wiring"])
M("c16-getter-swap", "C16", PR, '        "transform": _transform,\n        "inverse": _inv_transform,\n        "jacobian": _jacobian,\n    }\n\n    semantics = {\n        "names": ["Significant wave height", "Zero-up-crossing period"],\n        "symbols": ["H_s", "T_z"],\n        "units": ["m", "s"],\n    }\n\n    return dist_descriptions, fit_descriptions, semantics, transformations\n\n\ndef get_Nonzero',
  '        "transform": _inv_transform,\n        "inverse": _transform,\n        "jacobian": _jacobian,\n    }\n\n    semantics = {\n        "names": ["Significant wave height", "Zero-up-crossing period"],\n        "symbols": ["H_s", "T_z"],\n        "units": ["m", "s"],\n    }\n\n    return dist_descriptions, fit_descriptions, semantics, transformations\n\n\ndef get_Nonzero', rules=["C16.wiring"])
M("c17-min", "C17", U, "        frontier_y.append(np.max(y))", "        frontier_y.append(np.min(y))", rules=["C17.result"])
M("c17-close-x", "C17", U, "    y1 = np.append(coords[:, y_idx], coords[0, y_idx])", "    y1 = np.append(coords[:, y_idx], coords[0, x_idx])", rules=["C17.swap"])
M("c17-swap", "C17", U, "    if swap_axis:\n        x_idx = 1\n        y_idx = 0\n    else:\n        x_idx = 0\n        y_idx = 1\n\n    coords = np.asarray(contour.coordinates", "    if swap_axis:\n        x_idx = 0\n        y_idx = 1\n    else:\n        x_idx = 0\n        y_idx = 1\n\n    coords = np.asarray(contour.coordinates", rules=["C17.swap"])
M("c17-inrange", "C17", IX, "(T[0, :] <= 1) & (T[1, :] <= 1)", "(T[0, :] <= 1) & (T[1, :] < 1)", rules=["C17.inrange"])
M("c17-default-num", "C17", U, "            default_lower_limit, default_uppper_limit, endpoint=True, num=10", "            default_lower_limit, default_uppper_limit, endpoint=True, num=5", rules=["C17.default"])
M("c17-probe-span", "C17", U, "    y2 = [np.min(y1) - y_margin, np.max(y1) + y_margin]", "    y2 = [np.min(y1), np.max(y1) * 0.9]", rules=["C17.probe"])
M("c17-probe-margin-sign", "C17", U, "    y_margin = (np.max(y1) - np.min(y1)) * 0.1\n    y2 = [np.min(y1) - y_margin, np.max(y1) + y_margin]", "    y2 = [np.min(y1) - np.max(y1) * 0.1, np.max(y1) + np.max(y1) * 0.1]", rules=["C17.probe"], what="original defect D29")
M("c17-twin-probe-abs", "C17", U, "    y_margin = (np.max(y1) - np.min(y1)) * 0.1\n", "    y_margin = 0.1 * (np.max(y1) - np.min(y1))\n", expect="pass")

# ------------------------------------------------------------------ C18 / C19 / C20
M("c18-2d-late", "C18", C, '        if self.model.n_dim != 2:\n            raise NotImplementedError(\n                "AndContour is currently only implemented for two dimensions."\n            )\n\n        if sample is None:\n            sample = self.model.draw_sample(n)\n            self.sample = sample',
  '        if sample is None:\n            sample = self.model.draw_sample(n)\n            self.sample = sample\n        if self.model.n_dim != 2:\n            raise NotImplementedError(\n                "AndContour is currently only implemented for two dimensions."\n            )\n', rules=["C18.guard"])
M("c18-hierarchy-le", "C18", J, "not 0 <= cond_idx < i:", "not 0 <= cond_idx <= i:", rules=["C18.hierarchy"])
M("c18-hierarchy-removed", "C18", J, '            if "conditional_on" in dist_desc and i > 0:\n                cond_idx = dist_desc["conditional_on"]', '            if "conditional_on" in dist_desc and i > 9:\n                cond_idx = dist_desc["conditional_on"]', rules=["C18.hierarchy"], what="guard disabled")
M("c18-exc-class", "C18", J, '                raise ValueError(\n                    "Mandatory key \'distribution\' missing in "', '                raise KeyError(\n                    "Mandatory key \'distribution\' missing in "', rules=["C18.guard"])
M("c18-both", "C18", D, '                if getattr(distribution, f"f_{par_name}") is not None:\n                    raise ValueError(', '                if getattr(distribution, f"f_{par_name}") is not None and False:\n                    raise ValueError(', rules=["C18.guard"])
M("c18-nan", ["C18", "C02"], C, "        if np.isnan(f).any():\n            raise ValueError(\n                \"Encountered nan", "        if np.isnan(f).all():\n            raise ValueError(\n                \"Encountered nan", rules={"C18": ["C18.guard"], "C02": ["C02.nan"]})
M("c18-ppi-callable", "C18", I, "        if not callable(reference):\n            raise TypeError(", "        if reference is None:\n            raise TypeError(", rules=["C18.guard"], what="original defect D16")
M("c18-data-dim", "C18", J, "fit_descriptions)\n\n        if data.ndim != 2 or data.shape[-1] != self.n_dim:", "fit_descriptions)\n\n        if data.ndim != 2 or data.shape[-1] > self.n_dim:", rules=["C18.guard"])
M("c18-data-ndim", "C18", J, "fit_descriptions)\n\n        if data.ndim != 2 or data.shape[-1] != self.n_dim:", "fit_descriptions)\n\n        if data.shape[-1] != self.n_dim:", rules=["C18.guard"], what="original defect D27")
M("c18-tm-data-ndim", "C18", J, "        data = np.array(data)\n        if data.ndim != 2 or data.shape[-1] != self.n_dim:", "        data = np.array(data)\n        if data.shape[-1] != self.n_dim:", rules=["C18.guard"])
M("c19-ew-pdf-inplace", "C19", D, "        x_greater_zero = np.where(x > 0, x, np.nan)", "        x = np.asarray(x, dtype=float)\n        x[x <= 0] = np.nan\n        x_greater_zero = x", rules=["C19.noargmut"])
M("c19-sample-inplace", "C19", C, "        x, y = np.asarray(sample).T  # a DataFrame or a list of rows is a sample too\n\n        # Calculate non-exceedance probability.", "        x, y = np.asarray(sample).T\n        x -= 0\n\n        # Calculate non-exceedance probability.", rules=["C19.nomodelwrite"])
M("c19-model-cache", "C19", J, "        x = np.asarray_chkfinite(x)\n        if x.ndim != 2 or x.shape[-1] != self.n_dim:", "        x = np.asarray_chkfinite(x)\n        self._last_x = x\n        if x.ndim != 2 or x.shape[-1] != self.n_dim:", rules=["C19.nomodelwrite"])
M("c19-coords-sort", "C19", U, "    coords = np.asarray(contour.coordinates, dtype=float)\n\n    x1 =", "    coords = contour.coordinates\n    coords.sort(axis=0)\n\n    x1 =", rules=["C19.noargmut"])
M("c19-shared-bounds", "C19", PR, '    bounds = [(0, None), (0, None), (None, None)]\n\n    power3 = DependenceFunction(_power3, bounds, latex="$a + b * x^c$")', '    bounds = _SHARED_BOUNDS\n\n    power3 = DependenceFunction(_power3, bounds, latex="$a + b * x^c$")', rules=["C19.getters"])
M("c19-intersection-inplace", "C19", IX, "    x1 = np.asarray(x1, dtype=float)\n    x2 = np.asarray(x2, dtype=float)", "    x1 = np.asarray(x1, dtype=float)\n    x1[0] = x1[0]\n    x2 = np.asarray(x2, dtype=float)", rules=["C19.noargmut"])
M("c19-twin-copy", "C19", J, "        x = np.asarray_chkfinite(x)\n        if x.ndim != 2 or x.shape[-1] != self.n_dim:", "        x = np.asarray_chkfinite(x).copy()\n        x[0, 0] = x[0, 0]\n        if x.ndim != 2 or x.shape[-1] != self.n_dim:", expect="pass")
M("c20-close", "C20", PL, "    y.append(y[0])", "    y.append(x[0])", rules=["C20.contour"])
M("c20-iso-swap", "C20", PL, "    if swap_axis:\n        tmp = X\n        X = Y\n        Y = tmp", "    if swap_axis:\n        tmp = X\n        Y = tmp", rules=["C20.others"])
M("c20-fmt", "C20", C, 'fmt="%1.6f",', 'fmt="%1.5f",', rules=["C20.save"])
M("c20-header-unit", "C20", C, "(f\"{semantics['names'][d]} ({semantics['units'][d]})\" for d in range(n_dim))", "(f\"{semantics['names'][d]} ({semantics['units'][0]})\" for d in range(n_dim))", rules=["C20.save"])
M("c20-truth", "C20", PL, "    if design_conditions is not None and design_conditions is not False:", "    if design_conditions:", rules=["C20.supplied"], what="original defect D14")
M("c20-nrows", "C20", U, 'data = pd.read_csv(file_path, sep=";", skipinitialspace=True)', 'data = pd.read_csv(file_path, sep=";", skipinitialspace=True, nrows=1000)', rules=["C20.read"])
M("c20-sample-axes", "C20", PL, "            sample[:, x_idx],\n            sample[:, y_idx],\n            c=\"k\",\n            marker=\".\",\n            alpha=0.3,\n            rasterized=True,\n        )\n\n    coords = contour.coordinates", "            sample[:, 0],\n            sample[:, 1],\n            c=\"k\",\n            marker=\".\",\n            alpha=0.3,\n            rasterized=True,\n        )\n\n    coords = contour.coordinates", rules=["C20.contour"])
M("c20-ext", "C20", C, "    if not ext:\n        file_path += \".txt\"", "    if ext:\n        file_path += \".txt\"", rules=["C20.save"])
M("c20-dc-swap", "C20", PL, "            design_conditions = calculate_design_conditions(\n                contour, swap_axis=swap_axis\n            )", "            design_conditions = calculate_design_conditions(contour)", rules=["C20.contour"])
M("c20-hist-dist", "C20", PL, "                dist = dist_per_interval[interval_idx]", "                dist = dist_per_interval[0]", rules=["C20.others"])

# ------------------------------------------------------------------ rules that had no seeded break yet
M("c01-result-other", "C01", C, "        self.sphere_points = sphere_points\n        self.coordinates = coordinates", "        self.sphere_points = sphere_points\n        self.coordinates = p", rules=["C01.result"])
M("c03-ctor-step", "C03", C, "        self.n = n\n        self.deg_step = deg_step\n        self.sample = sample\n        super().__init__()\n\n    def _compute(self):\n        sample = self.sample\n        n = self.n\n        deg_step = self.deg_step\n        alpha = self.alpha\n", "        self.n = n\n        self.deg_step = deg_step * 2\n        self.sample = sample\n        super().__init__()\n\n    def _compute(self):\n        sample = self.sample\n        n = self.n\n        deg_step = self.deg_step\n        alpha = self.alpha\n", rules=["C03.ctor"])
M("c04-n", "C04", C, "        if n is None:\n            n = int(100 / alpha)\n        self.n = n\n        self.deg_step = deg_step\n        self.sample = sample\n        self.allowed_error = allowed_error\n        super().__init__()", "        if n is None:\n            n = int(10 / alpha)\n        self.n = n\n        self.deg_step = deg_step\n        self.sample = sample\n        self.allowed_error = allowed_error\n        super().__init__()", rules=["C04.n"])
M("c04-ray-deg", "C04", C, "            unity_vector[0] = np.cos(theta / 180 * np.pi)\n            unity_vector[1] = np.sin(theta / 180 * np.pi)\n            max_distance = np.sqrt(x_marginal**2 + y_marginal**2)\n            rel_dist = 0.2\n            rel_step_size = 0.1\n            current_pe = 0  # pe = probability of exceedance.\n            nr_iterations = 0\n            while np.abs((current_pe - alpha)) / alpha > allowed_error:\n                abs_dist = rel_dist * max_distance\n                current_vector = unity_vector * abs_dist\n                both_greater", "            unity_vector[0] = np.cos(theta)\n            unity_vector[1] = np.sin(theta)\n            max_distance = np.sqrt(x_marginal**2 + y_marginal**2)\n            rel_dist = 0.2\n            rel_step_size = 0.1\n            current_pe = 0  # pe = probability of exceedance.\n            nr_iterations = 0\n            while np.abs((current_pe - alpha)) / alpha > allowed_error:\n                abs_dist = rel_dist * max_distance\n                current_vector = unity_vector * abs_dist\n                both_greater", rules=["C04.ray"])
M("c05-generic-kw", "C05", D, "            args_with_default[idx] = arg\n", "            args_with_default[idx - 1] = arg\n", rules=["C05.generic"])
M("c05-pair", "C05", D, "        if (mu_norm is None) != (sigma_norm is None):\n            raise RuntimeError(", "        if (mu_norm is None) and (sigma_norm is None) and False:\n            raise RuntimeError(", rules=["C05.pair"])
M("c08-keywords", "C08", D, "    def pdf(self, x, kappa=None, mu=None):", "    def pdf(self, x, kappa=None, loc=None):\n        mu = loc", rules=["C08.keywords"])
M("c09-defaults", "C09", J, '        default_fit_desc = {"method": "mle", "weights": None}', '        default_fit_desc = {"method": "lsq", "weights": None}', rules=["C09.defaults"])
M("c10-bounds", "C10", I, "        interval_boundaries = list(zip(interval_edges[:-1], interval_edges[1:]))\n\n        if isinstance(self.reference, str):\n            if self.reference.lower() == \"center\":\n                pass  # interval_references are", "        interval_boundaries = list(zip(interval_edges[:-1], interval_edges[:-1] + width))\n\n        if isinstance(self.reference, str):\n            if self.reference.lower() == \"center\":\n                pass  # interval_references are", rules=["C10.bounds"])
M("c11-generic-fkw", "C11", D, "                setattr(self, key, arg)\n                if arg is not None:\n                    setattr(self, key[2:], arg)", "                setattr(self, key, arg)", rules=["C11.generic"])
M("c15-shape-no-sorter", "C15", C, "                self.coordinates = np.array(\n                    sort_points_to_form_continuous_line(\n                        *coordinates, search_for_optimal_start=True\n                    )\n                ).T", "                self.coordinates = np.array(coordinates)", rules=["C15.shape"])
M("c15-twin-gbs", "C15", C, "structure = np.ones(tuple([3] * n_dim), dtype=bool)", "structure = ndi.generate_binary_structure(n_dim, n_dim)", expect="pass")
# ------------------------------------------------------------------ repaired copies of the recorded findings
M("c14-constraints-dropped", "C14", FIT, "        constraints=constraints,\n        bounds=bounds,", "        # constraints=constraints,\n        bounds=bounds,", rules=["C14.constraints"], what="original defect D9")
M("c14-step-1e-15", "C14", FIT, "options={\"ftol\": 1e-12, \"maxiter\": 1000}", "options={\"ftol\": 1e-12, \"maxiter\": 1000, \"eps\": 1e-15}", rules=["C14.constraints"], what="original defect D9 (finite-difference step)")
M("c17-assert-two-crossings", "C17", U, "        x, y = intersection(x1, y1, [x2, x2], y2)\n", "        x, y = intersection(x1, y1, [x2, x2], y2)\n        assert len(x) <= 2\n        assert len(y) <= 2\n", rules=["C17.all"], what="original defect D15")
M("repair-D10", "C15", U, "    order = list(nx.dfs_preorder_nodes(T, 0))\n", "    order = list(nx.dfs_preorder_nodes(T, 0))\n    if len(order) != len(points):\n        raise RuntimeError(\"points do not form one continuous line\")\n", expect="repaired", rules=["C15.perm"], what="length guard on the order")

# ------------------------------------------------------------------ rules added after the second seed round
M("c10-ppi-by-value", ["C10", "C09"], I, "np.isin(positions, idc, assume_unique=True) for idc in interval_idc", "np.isin(data, data[idc]) for idc in interval_idc",
  rules={"C10": ["C10.ppi"], "C09": ["C09.membership"]}, what="PPI masks by value membership (ties)")
M("c10-twin-ppi-mask-store", "C10", I, "        interval_slices = [\n            np.isin(positions, idc, assume_unique=True) for idc in interval_idc\n        ]",
  "        interval_slices = [np.isin(positions, chunk) for chunk in interval_idc]", expect="pass", what="renamed comprehension variable, default isin")
M("c10-slicer-state", ["C10", "C19"], I, "        else:\n            value_range = (min(data), max(data))", "        else:\n            self.value_range = value_range = (min(data), max(data))",
  rules={"C10": ["C10.stateless"], "C19": ["C19.nomodelwrite"]}, what="slicer remembers the data-derived range")
M("c15-graph-prune", "C15", U, "    G = clf.kneighbors_graph()\n", "    G = clf.kneighbors_graph()\n    G.data[::7] = 0\n    G.eliminate_zeros()\n", rules=["C15.graph"], what="edges removed from the neighbour graph")
M("c15-graph-distance", "C15", U, "    G = clf.kneighbors_graph()\n", '    G = clf.kneighbors_graph(mode="distance")\n', rules=["C15.graph"], what="distance-weighted graph")
M("c15-graph-subset", "C15", U, "    clf = NearestNeighbors(n_neighbors=2).fit(points)", "    clf = NearestNeighbors(n_neighbors=2).fit(points[::2])", rules=["C15.graph"], what="graph over a subset of the points")
M("c15-twin-graph-name", "C15", U, "    G = clf.kneighbors_graph()\n    T = nx.from_scipy_sparse_array(G)", "    neighbour_graph = clf.kneighbors_graph()\n    T = nx.from_scipy_sparse_array(neighbour_graph)", expect="pass")
M("c16-reject-envelope-early", "C16", J, "        x = np.linspace(x_min, x_max, 1000)\n        y = pdf(x)", "        x = np.linspace(x_min, highest_possible_x_max, 1000)\n        y = pdf(x)",
  rules=["C16.reject"], what="envelope grid on another interval than the candidates")
M("c16-reject-factor", "C16", J, "f_max = y.max() * 1.001", "f_max = y.max() * 0.999", rules=["C16.reject"], what="envelope below the grid maximum")
M("c16-reject-le-size", "C16", J, "            y = rng.uniform(f_min, f_max, size=tmp_n)", "            y = rng.uniform(f_min, f_max, size=n)", rules=["C16.reject"], what="ordinate candidates of another size")
M("c16-reject-floor", "C16", J, "        f_min = 0.0\n", "        f_min = y.min()\n", rules=["C16.reject"], what="ordinates do not start at 0")
M("c16-reject-kept", "C16", J, "                partial_samples.append(x[accept_mask])", "                partial_samples.append(y[accept_mask])", rules=["C16.reject"], what="keeps the ordinates")
M("c16-twin-reject-names", "C16", J, "        x = np.linspace(x_min, x_max, 1000)\n        y = pdf(x)\n        f_min = 0.0\n        f_max = y.max() * 1.001",
  "        grid = np.linspace(x_min, x_max, 1000)\n        f_min = 0.0\n        f_max = 1.001 * np.max(pdf(grid))", expect="pass")
M("c11-shared-kwargs", ["C11", "C12"], D, '        fparams = {"floc": 0}\n\n        if self.f_delta is not None:', '        fparams = self._fit_defaults\n\n        if self.f_delta is not None:',
  rules={"C11": ["C11.mle"], "C12": ["C12.call"]}, what="fit keywords collected in an object attribute")
M("c20-memo-reader", ["C20"], U, "def read_ec_benchmark_dataset(file_path=None):", "import functools\n\n\n@functools.lru_cache(maxsize=None)\ndef _parse(file_path):\n    data = pd.read_csv(file_path, sep=\";\", skipinitialspace=True)\n    data.index = pd.to_datetime(data.pop(data.columns[0]), format=\"%Y-%m-%d-%H\")\n    return data\n\n\ndef read_ec_benchmark_dataset(file_path=None):",
  expect="pass", what="an unused memoised helper changes nothing for C20 (C19.globals reports the memo)", rules=None)
M("c05-memo-args", ["C05", "C19"], D, "        args_with_default = list(self.parameters.values())", "        self._last_args = args_with_default = list(self.parameters.values())",
  rules={"C05": ["C05.stateless"], "C19": ["C19.nomodelwrite"]}, what="evaluation helper writes an attribute")
M("c17-mutate-contour", ["C17", "C19"], U, "    coords = np.asarray(contour.coordinates, dtype=float)\n", "    coords = contour.coordinates\n    coords.sort(axis=0)\n    coords = np.asarray(coords, dtype=float)\n", rules={"C17": ["C17.stateless"], "C19": ["C19.noargmut"]}, what="sorts the caller's coordinates in place")

# ------------------------------------------------------------------ C10 totality (defect D17, fixed)
M("c10-ppi-short-data", "C10", I, "        if n_full_chunks == 0:\n            # fewer observations than n_points: one interval that is not full\n            interval_idc = [sorted_idc]\n        elif remainder != 0:", "        if remainder != 0:",
  rules=["C10.ppi"], what="original defect D17: np.split(x, 0) for data shorter than n_points")
M("c10-ppi-all-dropped", "C10", I, "        if len(interval_slices) == 0:\n            # nothing left to calculate boundaries for, slice_ reports it\n            return interval_slices, interval_references, []\n", "",
  rules=["C10.ppi"], what="original defect D17: interval_slices[0] with every interval dropped")
M("c10-ppi-empty-exit-wrong", "C10", I, "            return interval_slices, interval_references, []\n", "            return [np.ones(len(data), dtype=bool)], [None], [(None, None)]\n",
  rules=["C10.min"], what="the nothing-left exit invents an interval")
M("c10-ppi-wrong-guard", "C10", I, "        if n_full_chunks == 0:\n            # fewer", "        if remainder == len(data) + 1:\n            # fewer", rules=["C10.ppi"], what="short-data guard tests something else")
M("c10-twin-ppi-guard-lt", "C10", I, "        if n_full_chunks == 0:\n            # fewer", "        if len(data) < self.n_points:\n            # fewer", expect="pass")
M("c10-twin-ppi-guard-not", "C10", I, "        if n_full_chunks == 0:\n            # fewer", "        if not n_full_chunks:\n            # fewer", expect="pass")
M("c10-twin-ppi-empty-not", "C10", I, "        if len(interval_slices) == 0:\n            # nothing left", "        if not interval_slices:\n            # nothing left", expect="pass")
M("c10-twin-ppi-empty-lt1", "C10", I, "        if len(interval_slices) == 0:\n            # nothing left", "        if len(interval_slices) < 1:\n            # nothing left", expect="pass")
M("c10-twin-ppi-empty-lists", "C10", I, "            return interval_slices, interval_references, []\n", "            return [], [], []\n", expect="pass")

# ------------------------------------------------------------------ a dict changed between lookup and forwarding (round-3 seed C11-r3b)
_DS = "        return self.distribution.draw_sample(\n            n, **param_values, random_state=random_state\n        )"
M("c08-twin-kw-store", ["C08", "C07", "C11"], D, _DS, "        kw = param_values\n        kw[\"random_state\"] = random_state\n        return self.distribution.draw_sample(n, **kw)", expect="pass")
M("c08-kw-loop-rewrite", ["C08", "C07", "C11"], D, _DS, "        kw = param_values\n        for k_ in self.fixed_parameters:\n            kw[k_] = np.full_like(given, kw[k_])\n        return self.distribution.draw_sample(n, **kw, random_state=random_state)",
  rules={"C08": ["C08.forward"], "C07": ["C07.conditional"], "C11": ["C11.evalflow"]}, what="fixed parameters recast to the dtype of given before forwarding")
M("c08-kw-store-override", ["C08", "C07"], D, _DS, "        kw = param_values\n        kw[self.param_names[0]] = 1.0\n        return self.distribution.draw_sample(n, **kw, random_state=random_state)",
  rules={"C08": ["C08.forward"], "C07": ["C07.conditional"]}, what="a parameter overwritten before forwarding")

# ------------------------------------------------------------------ C12.start (round-3 seed C12-r3a)
_SD = '            if par_name == "loc":\n                setattr(self, par_name, 0)\n            else:\n                setattr(self, par_name, 1)\n'
M("c12-start-substring", "C12", D, 'if par_name == "loc":', 'if par_name in ("loc"):', rules=["C12.start"], what="membership in a string is a substring test: shape c starts at 0")
M("c12-start-scale0", "C12", D, 'if par_name == "loc":', 'if par_name in ("loc", "scale"):', rules=["C12.start"], what="scale starts at 0")
M("c12-start-default-beta", "C12", D, "        self, alpha=1, beta=1, gamma=0, f_alpha=None, f_beta=None, f_gamma=None\n", "        self, alpha=1, beta=0, gamma=0, f_alpha=None, f_beta=None, f_gamma=None\n", rules=["C12.start"], what="Weibull shape starts at 0")
M("c12-twin-start-ifexp", "C12", D, _SD, '            setattr(self, par_name, 0 if par_name == "loc" else 1)\n', expect="pass")
M("c12-twin-start-tuple", "C12", D, 'if par_name == "loc":', 'if par_name in ("loc",):', expect="pass")
M("c12-twin-start-neq", "C12", D, _SD, '            if par_name != "loc":\n                setattr(self, par_name, 1)\n            else:\n                setattr(self, par_name, 0)\n', expect="pass")

# ------------------------------------------------------------------ C17.candidates (round-3 seed C17-r3a)
M("c17-cand-strict", "C17", IX, "    C1 = np.less_equal(S1, S2)", "    C1 = np.less(S1, S2)", rules=["C17.candidates"], what="touching bounding boxes lost")
M("c17-cand-drop-y", "C17", IX, "    ii, jj = np.nonzero(C1 & C2 & C3 & C4)", "    ii, jj = np.nonzero(C1 & C2 & C3)", rules=["C17.candidates"])
M("c17-cand-minmax", "C17", IX, "    S1 = np.tile(X1.min(axis=1), (n2, 1)).T", "    S1 = np.tile(X1.max(axis=1), (n2, 1)).T", rules=["C17.candidates"])
M("c17-cand-xy-mix", "C17", IX, "    S5, S6, S7, S8 = _rect_inter_inner(y1, y2)", "    S5, S6, S7, S8 = _rect_inter_inner(y1, x2)", rules=["C17.candidates"])
M("c17-cand-early-exit", "C17", IX, "    ii, jj = np.nonzero(C1 & C2 & C3 & C4)\n    return ii, jj", "    ii, jj = np.nonzero(C1 & C2 & C3 & C4)\n    if not ii.any():\n        return ii[:0], jj[:0]\n    return ii, jj", rules=["C17.candidates"], what="index 0 read as 'no candidate'")
M("c17-twin-cand-order", "C17", IX, "    ii, jj = np.nonzero(C1 & C2 & C3 & C4)", "    ii, jj = np.nonzero((C3 & C4) & (C1 & C2))", expect="pass")
M("c17-twin-cand-logical", "C17", IX, "    ii, jj = np.nonzero(C1 & C2 & C3 & C4)", "    ii, jj = np.nonzero(np.logical_and(np.logical_and(C1, C2), np.logical_and(C3, C4)))", expect="pass")
M("c17-twin-cand-ops", "C17", IX, "    C1 = np.less_equal(S1, S2)\n    C2 = np.greater_equal(S3, S4)", "    C1 = S1 <= S2\n    C2 = S4 <= S3", expect="pass")

# ------------------------------------------------------------------ D18 / D19 (found in round 3, fixed)
M("c11-vonmises-wrapped-mu", "C11", D, "        if self.f_mu is not None:\n            # scipy wraps the location into [-pi, pi], a fixed mu stays as given\n            self.mu = self.f_mu\n", "",
  rules=["C11.unmap"], what="original defect D18: scipy's vonmises.fit wraps a fixed loc, the wrapped value is stored")
M("c11-vonmises-restore-kappa", "C11", D, "            # scipy wraps the location into [-pi, pi], a fixed mu stays as given\n            self.mu = self.f_mu\n", "            self.mu = self.f_kappa\n", rules=["C11.unmap"])
M("c11-vonmises-restore-unguarded-twin", "C11", D, "        if self.f_mu is not None:\n            # scipy wraps the location into [-pi, pi], a fixed mu stays as given\n            self.mu = self.f_mu\n",
  "        self.mu = self.mu if self.f_mu is None else self.f_mu\n", expect="pass")
M("c11-generic-kw-order", "C11", D, "                if kwargs.get(f\"f_{key}\") is None:\n                    setattr(self, key, arg)\n", "                setattr(self, key, arg)\n",
  rules=["C11.generic"], what="original defect D19: (f_c=3, c=2) leaves c == 2")
M("c11-generic-none", "C11", D, "                if arg is not None:\n                    setattr(self, key[2:], arg)\n", "                setattr(self, key[2:], arg)\n",
  rules=["C11.generic"], what="original defect D19: f_c=None sets c to None")
M("c11-generic-twin-notin", "C11", D, "                if kwargs.get(f\"f_{key}\") is None:\n", "                if f\"f_{key}\" not in kwargs or kwargs[f\"f_{key}\"] is None:\n", expect="pass")

# ------------------------------------------------------------------ C02.warn audible (round-3 seed C02-r3b)
M("c02-warn-ignored-base", "C02", C, "        self._compute()\n        try:\n            _ = self.coordinates", "        with warnings.catch_warnings():\n            warnings.simplefilter(\"ignore\", category=RuntimeWarning)\n            self._compute()\n        try:\n            _ = self.coordinates", rules=["C02.warn"])
M("c02-warn-ignored-hdc", "C02", C, "        self._check_grid()\n        super().__init__()", "        self._check_grid()\n        warnings.filterwarnings(\"ignore\")\n        super().__init__()", rules=["C02.warn"])
M("c02-warn-recorded", "C02", C, "        self._compute()\n        try:\n            _ = self.coordinates", "        with warnings.catch_warnings(record=True) as self._warnings:\n            self._compute()\n        try:\n            _ = self.coordinates", rules=["C02.warn"])
M("c02-twin-warn-always", "C02", C, "        self._compute()\n        try:\n            _ = self.coordinates", "        with warnings.catch_warnings():\n            warnings.simplefilter(\"always\", category=RuntimeWarning)\n            self._compute()\n        try:\n            _ = self.coordinates", expect="pass")
M("c02-twin-warn-ignore-other", "C02", C, "        self._check_grid()\n        super().__init__()", "        self._check_grid()\n        warnings.filterwarnings(\"ignore\", category=DeprecationWarning)\n        super().__init__()", expect="pass")
M("c02-twin-warn-ignore-scoped", "C02", C, "        self._check_grid()\n        super().__init__()", "        with warnings.catch_warnings():\n            warnings.simplefilter(\"ignore\")\n            self._check_grid()\n        super().__init__()", expect="pass")

# ------------------------------------------------------------------ C03.draw / C07.fresh (round-3 seed C03-r3b)
M("c03-draw-cached", ["C03", "C07"], J, "        return self.inverse(self.model.draw_sample(n, random_state=random_state))", "        if self._sample is not None and len(self._sample) >= n:\n            return self._sample[:n]\n        return self.inverse(self.model.draw_sample(n, random_state=random_state))",
  rules={"C03": ["C03.draw"], "C07": ["C07.fresh"]}, what="draw_sample serves the remembered sample")

# ------------------------------------------------------------------ C11.writers: who may write a parameter attribute (receiver-aware)
M("c11-writer-foreign", "C11", J, "                samples[:, i] = dist.draw_sample(n, random_state=random_state)", "                dist.alpha = 1.0\n                samples[:, i] = dist.draw_sample(n, random_state=random_state)", rules=["C11.writers"], what="the joint sampler writes a parameter of a distribution")
M("c11-writer-helper", "C11", D, "            dist = copy.deepcopy(self.distribution)\n", "            dist = copy.deepcopy(self.distribution)\n            setattr(dist, self.param_names[0], 1.0)\n", rules=["C11.writers"], what="setattr on a distribution outside its class")

# ------------------------------------------------------------------ round 4 (audit) repairs reverted: D20-D26
M("c14-callback-subset-reversed", ["C14", "C09"], DEP, "if set(self.dependent_parameters.values()).issubset(self._fitted_conditioners):", "if self._fitted_conditioners.issubset(self.dependent_parameters.values()):",
  rules={"C14": ["C14.protocol"], "C09": ["C09.dependence"]}, what="original defect D20")
M("c14-twin-callback-le", "C14", DEP, "if set(self.dependent_parameters.values()).issubset(self._fitted_conditioners):", "if set(self.dependent_parameters.values()) <= self._fitted_conditioners:", expect="pass")
M("c14-twin-callback-superset", "C14", DEP, "if set(self.dependent_parameters.values()).issubset(self._fitted_conditioners):", "if self._fitted_conditioners.issuperset(self.dependent_parameters.values()):", expect="pass")
M("c11-lognormal-mu-roundtrip", "C11", D, "        if self.f_mu is not None:\n            # log(exp(f_mu)) is f_mu only up to an absolute error, a fixed mu stays as given\n            self.mu = self.f_mu\n", "", rules=["C11.unmap"], what="original defect D21")
M("c05-generic-kw-none", "C05", D, "            if arg is not None:\n                args_with_default[idx] = arg\n", "            args_with_default[idx] = arg\n", rules=["C05.generic"], what="original defect D22")
M("c11-generic-writeback", "C11", D, "            setattr(self, par_name, par_value if fixed_value is None else fixed_value)", "            setattr(self, par_name, par_value)", rules=["C11.generic"], what="original defect D23")
M("c10-width-edges-from-centres", "C10", I, "        interval_edges = np.append(interval_starts, interval_starts[-1] + width)", "        interval_edges = np.append(interval_references - 0.5 * width, interval_references[-1] + 0.5 * width)", rules=["C10.refs"], what="original defect D24")
M("c10-width-empty-range", "C10", I, "        if len(interval_starts) == 0:\n            # nothing between the limits, slice_ reports the missing intervals\n            return [], [], []\n", "", rules=["C10.min"], what="original defect D24 (IndexError on an empty range)")
_BC = ("        if np.ndim(given) > 0:\n            # one draw per conditioning value, also if no parameter varies with it\n            param_values = {\n                par_name: np.broadcast_to(value, np.shape(given))\n"
       "                if np.ndim(value) == 0\n                else value\n                for par_name, value in param_values.items()\n            }\n")
M("c08-draw-no-broadcast", ["C08", "C07"], D, _BC, "", rules={"C08": ["C08.forward"], "C07": ["C07.conditional"]}, what="original defect D25")
M("c08-draw-broadcast-wrong-shape", ["C08", "C07"], D, "np.broadcast_to(value, np.shape(given))", "np.broadcast_to(value, np.shape(n))", rules={"C08": ["C08.forward"], "C07": ["C07.conditional"]})
M("c08-draw-broadcast-changes-value", ["C08", "C07"], D, "np.broadcast_to(value, np.shape(given))", "np.broadcast_to(abs(value), np.shape(given))", rules={"C08": ["C08.forward"], "C07": ["C07.conditional"]})
M("c07-vonmises-rvs-loc", ["C07", "C05"], D, "        return loc + sts.vonmises.rvs(shape, size=rvs_size, random_state=random_state)", "        return sts.vonmises.rvs(shape, loc, size=rvs_size, random_state=random_state)",
  rules={"C07": ["C07.family"], "C05": ["C05.siblings"]}, what="original defect D26")
M("c07-twin-vonmises-rvs-order", ["C07", "C05"], D, "        return loc + sts.vonmises.rvs(shape, size=rvs_size, random_state=random_state)", "        return sts.vonmises.rvs(shape, size=rvs_size, random_state=random_state) + loc", expect="pass")

# ------------------------------------------------------------------ round 4 continued: D28, D30, cache
M("c20-layout-index", "C20", PL, "*table[n_intervals - 1], sharex=True", "*table[n_intervals], sharex=True", rules=["C20.others"], what="original defect D28")
M("c20-layout-short", "C20", PL, "        (2, 2),\n        (2, 3),\n", "        (1, 3),\n        (2, 3),\n", rules=["C20.others"], what="a layout with fewer axes than intervals")
M("c06-int-buffer", "C06", J, "        fs = np.empty_like(x, dtype=float)", "        fs = np.empty_like(x)", rules=["C06.buffer"], what="original defect D30")
M("c06-twin-buffer-empty", "C06", J, "        fs = np.empty_like(x, dtype=float)", "        fs = np.empty(x.shape)", expect="pass")
M("c16-int-buffer", "C16", J, "        p = np.empty_like(x, dtype=float)", "        p = np.empty_like(x)", rules=["C16.mc"], what="original defect D30 (conditional_cdf)")
M("c16-cache-kept", "C16", J, "        # the sample kept for empirical_cdf belongs to the model as it was\n        self._sample = None\n", "", rules=["C16.cache"], what="stale sample after re-fit")

# ------------------------------------------------------------------ round 4, last repairs reverted: D32-D36
M("c04-or-object-array", "C04", C, "        coords_x = np.array(coords_x, dtype=float)\n        coords_y = np.array(coords_y, dtype=float)\n", "        coords_x = np.array(coords_x, dtype=object)\n        coords_y = np.array(coords_y, dtype=object)\n", rules=["C04.close"], what="original defect D32")
M("c20-design-not-converted", "C20", PL, "        design_conditions = np.asarray(design_conditions)\n", "", rules=["C20.contour"], what="original defect D33")
M("c06-pdf-columns", "C06", J, "        if x.ndim != 2 or x.shape[-1] != self.n_dim:\n            raise ValueError(\n                \"The dimension of x does not match the dimension of the model. \"", "        if False:\n            raise ValueError(\n                \"The dimension of x does not match the dimension of the model. \"", rules=["C06.chain"], what="original defect D34")
M("c13-log-cancellation", "C13", D, "p_star = np.log10(-np.log1p(-(p ** (1 / delta))))", "p_star = np.log10(-np.log(1 - p ** (1 / delta)))", rules=["C13.formula"], what="original defect D35")
M("c13-twin-log1p-temp", "C13", D, "        p_star = np.log10(-np.log1p(-(p ** (1 / delta))))", "        tail = p ** (1 / delta)\n        p_star = np.log10(-np.log1p(-tail))", expect="pass")
M("c06-raw-negative-dim", "C06", J, "        dim = range(self.n_dim)[dim]  # a negative index counts from the last variable\n        if self.conditional_on[dim] is None:\n            # the distribution is not conditional -> it is the marginal\n            return self.distributions[dim].pdf(x)", "        if self.conditional_on[dim] is None:\n            # the distribution is not conditional -> it is the marginal\n            return self.distributions[dim].pdf(x)", rules=["C06.argorder"], what="original defect D36")
M("c04-twin-or-components", "C04", C, "                coords_x.append(current_vector[0, 0])\n                coords_y.append(current_vector[1, 0])\n", "                coords_x.append(float(current_vector[0, 0]))\n                coords_y.append(float(current_vector[1, 0]))\n", expect="pass")

# ------------------------------------------------------------------ C03 after the repair of D11
M("c03-slice-shift", "C03", C, "        a1, a2, r1, r2 = a[:-1], a[1:], r[:-1], r[1:]", "        a1, a2, r1, r2 = a[:-1], a[1:], r[:-1], r[:-1]", rules=["C03.cramer"])
M("c03-sign", "C03", C, "        y_cont = (-np.cos(a2) * r1 + np.cos(a1) * r2) / denominator", "        y_cont = (np.cos(a2) * r1 + np.cos(a1) * r2) / denominator", rules=["C03.cramer"])
M("c03-step", "C03", C, "        angles = 0.5 * np.pi + rad_step - rad_step * np.arange(n_angles)", "        angles = 0.5 * np.pi + rad_step - 2 * rad_step * np.arange(n_angles)", rules=["C03.step"])
M("c03-grid-arange", "C03", C, "        n_angles = int(round(360 / deg_step))\n        angles = 0.5 * np.pi + rad_step - rad_step * np.arange(n_angles)", "        angles = np.arange(0.5 * np.pi + rad_step, -1.5 * np.pi + rad_step, -1 * rad_step)", rules=["C03.grid"], what="original defect D11 (float-step arange on its boundary)")
M("c03-grid-count", "C03", C, "        n_angles = int(round(360 / deg_step))", "        n_angles = int(round(180 / deg_step))", rules=["C03.grid"], what="half a circle")
M("c03-pairs-skip-first", "C03", C, "        a1, a2, r1, r2 = a[:-1], a[1:], r[:-1], r[1:]", "        a1, a2, r1, r2 = a[1:-1], a[2:], r[1:-1], r[2:]", rules=["C03.wrap"], what="original defect D11 (first pair never intersected)")
M("c03-twin-count-floor", "C03", C, "        n_angles = int(round(360 / deg_step))", "        n_angles = int(np.rint(360 / deg_step))", expect="pass")

# ------------------------------------------------------------------ D12 repaired: the seed must stay threaded
M("c16-seed-not-passed-iform", "C16", C, "                random_state=self.model.random_state,\n            )\n\n        for i in range(1, n_dim):", "            )\n\n        for i in range(1, n_dim):", rules=["C16.rng"], what="original defect D12 (first coordinate unseeded)")
M("c16-seed-dropped-marginal", "C16", J, "        sample = self.draw_sample(n, random_state=random_state)", "        sample = self.draw_sample(n)", rules=["C16.rng"], what="original defect D12 (marginal_icdf draws unseeded)")
M("c16-seed-dropped-tm-draw", "C16", J, "        return self.inverse(self.model.draw_sample(n, random_state=random_state))", "        return self.inverse(self.model.draw_sample(n))", rules=["C16.rng"], what="original defect D12 (TransformedModel.draw_sample)")

# ------------------------------------------------------------------ second audit: nine repairs reverted, with twins
M("c14-slsqp-default-tolerance", "C14", FIT, "        options={\"ftol\": 1e-12, \"maxiter\": 1000},\n", "", rules=["C14.constraints"], what="original defect (second audit C14#1): absolute default ftol 1e-6")
M("c14-slsqp-loose-tolerance", "C14", FIT, "options={\"ftol\": 1e-12, \"maxiter\": 1000}", "options={\"ftol\": 1e-4, \"maxiter\": 1000}", rules=["C14.constraints"])
M("c14-twin-slsqp-tolerance-dict", "C14", FIT, "        options={\"ftol\": 1e-12, \"maxiter\": 1000},\n", "        options=dict(ftol=1e-13, maxiter=2000),\n", expect="pass")
M("c14-start-not-clipped", "C14", FIT, "        p0 = np.clip(p0, bounds[0], bounds[1])\n", "", rules=["C14.bounds"], what="original defect (second audit C14#2): start value outside the bounds")
M("c14-twin-start-clip-temps", "C14", FIT, "        p0 = np.clip(p0, bounds[0], bounds[1])\n", "        lower_b, upper_b = bounds\n        p0 = np.clip(p0, lower_b, upper_b)\n", expect="pass")
M("c16-sample-size-last-round", "C16", J, "        if n_counter < n:\n            warnings.warn(", "        if i == max_iter - 1:\n            warnings.warn(", rules=["C16.reject"], what="original defect (second audit C07#2): more than n rows returned")
M("c16-twin-sample-size-ge", "C16", J, "        if n_counter < n:\n            warnings.warn(", "        if not n_counter >= n:\n            warnings.warn(", expect="pass")
M("c18-tm-fit-any-dimension", "C18", J, "        data = np.array(data)\n        if data.ndim != 2 or data.shape[-1] != self.n_dim:\n            raise ValueError(\n                \"The dimension of data does not match the \"\n                \"dimension of the model. \"\n                f\"The model has {self.n_dim} dimensions, \"\n                f\"but the data has shape {data.shape}.\"\n            )\n        return self.model.fit(self.transform(data), *args, **kwargs)",
  "        return self.model.fit(self.transform(data), *args, **kwargs)", rules=["C18.guard"], what="original defect (second audit C18#2)")
M("c18-tm-pdf-nan", ["C18", "C06"], J, "        x = np.asarray_chkfinite(x)\n        return self.model.pdf(self.transform(x)) * self.jacobian(x)", "        return self.model.pdf(self.transform(x)) * self.jacobian(x)", rules={"C18": ["C18.shared"], "C06": ["C06.finite"]}, what="original defect (second audit C18#1)")
M("c18-parameters-without-conditional", "C18", J, "            if \"parameters\" in dist_desc and dist_desc.get(\"conditional_on\") is None:\n                raise ValueError(\n                    \"The dist_description key 'parameters' is only allowed for \"\n                    \"conditional distributions, but 'conditional_on' is \"\n                    f\"missing for dimension {i}.\"\n                )\n", "", rules=["C18.guard"], what="original defect (second audit C18#3)")
M("c18-twin-parameters-guard-nested", "C18", J, "            if \"parameters\" in dist_desc and dist_desc.get(\"conditional_on\") is None:\n                raise ValueError(", "            if \"parameters\" in dist_desc:\n              if dist_desc.get(\"conditional_on\", None) is None:\n                raise ValueError(", expect="pass")
M("c08-list-given-unconverted", "C08", D, "        if np.ndim(given) > 0:\n            # dependence functions do arithmetic on it (float: x ** -2 of integers raises)\n            given = np.asarray(given, dtype=float)\n", "", rules=["C08.values"], what="original defect (second audit C08#1)")
M("c08-list-given-wrong-test", "C08", D, "        if np.ndim(given) > 0:\n            # dependence functions", "        if np.ndim(given) > 1:\n            # dependence functions", rules=["C08.values"])
M("c08-twin-given-always-converted", "C08", D, "        if np.ndim(given) > 0:\n            # dependence functions do arithmetic on it (float: x ** -2 of integers raises)\n            given = np.asarray(given, dtype=float)\n", "        given = np.asarray(given, dtype=float)\n", expect="pass")
M("c08-twin-given-isscalar", "C08", D, "        if np.ndim(given) > 0:\n            # dependence functions", "        if not np.isscalar(given):\n            # dependence functions", expect="pass")
M("c17-on-line-edge-ignored", ["C17", "C20"], U, "        y = np.append(y, y1[x1 == x2])\n", "", rules={"C17": ["C17.result"], "C20": ["C20.design"]}, what="original defect (second audit C17#1)")
M("c17-on-line-tested-late", "C17", U, "        y = np.append(y, y1[x1 == x2])\n\n        if len(y) == 0:\n            continue\n", "        if len(y) == 0:\n            continue\n        y = np.append(y, y1[x1 == x2])\n", rules=["C17.result"], what="vertices joined only after the abscissa was already skipped")
M("c17-twin-on-line-concatenate", "C17", U, "        y = np.append(y, y1[x1 == x2])\n", "        on_line = y1[x1 == x2]\n        y = np.concatenate([y, on_line])\n", expect="pass")
M("c10-starts-from-arange-values", ["C10", "C09"], I, "        n_intervals = len(np.arange(data_min, data_max + width, width))\n        interval_starts = data_min + width * np.arange(n_intervals)\n", "        interval_starts = np.arange(data_min, data_max + width, width)\n", rules={"C10": ["C10.refs"], "C09": ["C09.membership"]}, what="original defect (second audit C10#1)")
M("c10-twin-starts-size", "C10", I, "        n_intervals = len(np.arange(data_min, data_max + width, width))\n        interval_starts = data_min + width * np.arange(n_intervals)\n", "        n_intervals = np.arange(data_min, data_max + width, width).size\n        interval_starts = np.arange(n_intervals) * width + data_min\n", expect="pass")
M("c14-declared-late-ignored", "C14", DEP, "                if dep_param._fitted:\n                    # fitted before this function was declared, no callback will come\n                    self._fitted_conditioners.add(dep_param)\n                else:\n                    self._may_fit = False\n", "                self._may_fit = False\n", rules=["C14.protocol"], what="original defect (second audit C14#3)")
M("c14-fitted-flag-never-set", "C14", DEP, "        self.parameters = dict(zip(self.parameters.keys(), popt))\n        self._fitted = True\n", "        self.parameters = dict(zip(self.parameters.keys(), popt))\n", rules=["C14.protocol"])
M("c14-fitted-flag-not-recorded", "C14", DEP, "                if dep_param._fitted:\n                    # fitted before this function was declared, no callback will come\n                    self._fitted_conditioners.add(dep_param)\n                else:\n                    self._may_fit = False\n", "                if not dep_param._fitted:\n                    self._may_fit = False\n", rules=["C14.protocol"], what="with two conditioners the callback's subset test never holds")
M("c14-twin-fitted-flag-getattr", "C14", DEP, "                if dep_param._fitted:\n", "                if getattr(dep_param, \"_fitted\", False):\n", expect="pass")
M("c14-twin-fitted-flag-inverted", "C14", DEP, "                if dep_param._fitted:\n                    # fitted before this function was declared, no callback will come\n                    self._fitted_conditioners.add(dep_param)\n                else:\n                    self._may_fit = False\n", "                if not dep_param._fitted:\n                    self._may_fit = False\n                else:\n                    self._fitted_conditioners.add(dep_param)\n", expect="pass")

# ------------------------------------------------------------------ third audit (second audit of the other twelve properties)
M("c04-and-stores-arrays", "C04", C, "            coords_x[i] = current_vector[0, 0]\n            coords_y[i] = current_vector[1, 0]", "            coords_x[i] = current_vector[0]\n            coords_y[i] = current_vector[1]", rules=["C04.close"], what="original defect (third audit C04): deprecated array-to-scalar conversion")
M("c04-twin-and-float", "C04", C, "            coords_x[i] = current_vector[0, 0]\n            coords_y[i] = current_vector[1, 0]", "            coords_x[i] = float(current_vector[0, 0])\n            coords_y[i] = float(current_vector[1, 0])", expect="pass")
M("c05-normfit-log-cancellation", "C05", D, "        return np.sqrt(np.log1p(sigma_norm**2 / mu_norm**2))", "        return np.sqrt(np.log(1 + (sigma_norm**2 / mu_norm**2)))", rules=["C05.stable"], what="original defect (third audit C05#2)")
M("c05-normfit-wrong-ratio", "C05", D, "        return np.sqrt(np.log1p(sigma_norm**2 / mu_norm**2))", "        return np.sqrt(np.log1p(sigma_norm / mu_norm**2))", rules=["C05.slots"])
M("c05-twin-normfit-log1p-temp", "C05", D, "        return np.sqrt(np.log1p(sigma_norm**2 / mu_norm**2))", "        ratio = sigma_norm**2 / mu_norm**2\n        return np.sqrt(np.log1p(ratio))", expect="pass")
M("c14-xy-recorded-raw", "C14", DEP, "        self.x = np.asarray(x)\n        self.y = np.asarray(y)\n", "        self.x = x\n        self.y = y\n", rules=["C14.protocol"], what="original defect (third audit C09#1, second audit C14#4): list estimates reach weights(x, y) / func(x, *p)")
M("c14-xy-raw-to-fit", "C14", DEP, "            self._fit(self.x, self.y)", "            self._fit(x, y)", rules=["C14.protocol"])
M("c14-twin-xy-float", "C14", DEP, "        self.x = np.asarray(x)\n        self.y = np.asarray(y)\n", "        self.x = np.asarray(x, dtype=float)\n        self.y = np.asarray(y, dtype=float)\n", expect="pass")
M("c14-twin-xy-converted-first", "C14", DEP, "        self.x = np.asarray(x)\n        self.y = np.asarray(y)\n", "        x = np.asarray(x)\n        y = np.asarray(y)\n        self.x = x\n        self.y = y\n", expect="pass")
M("c09-method-none-forwarded", "C09", D, "            if method is None:\n                # the distribution's own default method\n                dist.fit(interval_data, weights=weights)\n            else:\n                dist.fit(interval_data, method, weights)\n", "            dist.fit(interval_data, method, weights)\n", rules=["C09.nonedefault"], what="original defect (ConditionalDistribution.fit default method crashes)")
M("c09-method-none-weights-dropped", "C09", D, "                dist.fit(interval_data, weights=weights)\n", "                dist.fit(interval_data)\n", rules=["C09.intervals"])
M("c09-twin-method-none-inverted", "C09", D, "            if method is None:\n                # the distribution's own default method\n                dist.fit(interval_data, weights=weights)\n            else:\n                dist.fit(interval_data, method, weights)\n", "            if method is not None:\n                dist.fit(interval_data, method, weights)\n            else:\n                dist.fit(interval_data, weights=weights)\n", expect="pass")
M("c09-fill-in-place", "C09", J, "                    filled_descriptions.append({\"weights\": None, **fit_descriptions[i]})\n", "                    if \"weights\" not in fit_descriptions[i]:\n                        fit_descriptions[i][\"weights\"] = None\n                    filled_descriptions.append(fit_descriptions[i])\n", rules=["C09.defaults"], what="the caller's dict is changed")
M("c09-fill-weights-wins", "C09", J, "                    filled_descriptions.append({\"weights\": None, **fit_descriptions[i]})\n", "                    filled_descriptions.append({**fit_descriptions[i], \"weights\": None})\n", rules=["C09.defaults"], what="the caller's weights are overwritten by None")
M("c09-twin-fill-get", "C09", J, "                    filled_descriptions.append({\"weights\": None, **fit_descriptions[i]})\n", "                    filled_descriptions.append({**fit_descriptions[i], \"weights\": fit_descriptions[i].get(\"weights\")})\n", expect="pass")
M("c16-sample-unseeded", ["C16", "C19"], J, "            self._sample = self.draw_sample(int(1e6), random_state=self.random_state)\n", "            self._sample = self.draw_sample(int(1e6))\n", rules={"C16": ["C16.rng"], "C19": ["C19.seed"]}, what="original defect (third audit C19#1)")
M("c20-label-template", "C20", PL, "lambda match: \"{\" + var_symbol + \"}\", dep_func_label", "\"{\" + var_symbol + \"}\", dep_func_label", rules=["C20.others"], what="original defect (third audit C20#1)")
M("c20-label-escape", "C20", PL, "lambda match: \"{\" + var_symbol + \"}\", dep_func_label", "re.escape(\"{\" + var_symbol + \"}\"), dep_func_label", rules=["C20.others"], what="re.escape is for patterns")
M("c20-header-lines", "C20", C, "    header = \" \".join(header.splitlines())  # one header line, whatever the names\n", "", rules=["C20.save"], what="original defect (third audit C20#2)")
M("c20-twin-header-flat-inline", "C20", C, "    header = \" \".join(header.splitlines())  # one header line, whatever the names\n\n    np.savetxt(\n        file_path,\n        contour.coordinates,\n        fmt=\"%1.6f\",\n        delimiter=\";\",\n        header=header,", "\n    np.savetxt(\n        file_path,\n        contour.coordinates,\n        fmt=\"%1.6f\",\n        delimiter=\";\",\n        header=\" \".join(header.splitlines()),", expect="pass")
M("c15-sorter-raw-index", "C15", U, "    x = np.asarray(x)\n    y = np.asarray(y)\n    points = np.c_[x, y]\n", "    points = np.c_[x, y]\n", rules=["C15.perm"], what="original defect (third audit C15#1)")
M("c15-twin-sorter-array", "C15", U, "    x = np.asarray(x)\n    y = np.asarray(y)\n    points = np.c_[x, y]\n", "    x, y = np.array(x), np.array(y)\n    points = np.c_[x, y]\n", expect="pass")
M("c13-integer-data", "C13", D, "        data = np.asarray_chkfinite(data, dtype=float)\n        x = np.sort(data)", "        data = np.asarray_chkfinite(data)\n        x = np.sort(data)", rules=["C13.formula"], what="original defect (third audit C13#2)")
M("c13-twin-float64", "C13", D, "        data = np.asarray_chkfinite(data, dtype=float)\n        x = np.sort(data)", "        data = np.asarray_chkfinite(data, dtype=np.float64)\n        x = np.sort(data)", expect="pass")
M("c19-fill-callers-list", ["C19", "C09"], J, "                    filled_descriptions.append(default_fit_desc)\n", "                    filled_descriptions.append(default_fit_desc)\n                    fit_descriptions[i] = default_fit_desc\n", rules={"C19": ["C19.args"], "C09": ["C09.defaults"]}, what="the caller's list of descriptions is written to")
M("c19-sorter-sorts-caller", "C19", U, "    x = np.asarray(x)\n    y = np.asarray(y)\n    points = np.c_[x, y]\n", "    x.sort()\n    x = np.asarray(x)\n    y = np.asarray(y)\n    points = np.c_[x, y]\n", rules=["C19.args"])
M("c06-ranges-fixed-infinite", "C06", J, "        limits = [\n            self._get_integration_range(integral_order, position, dim)\n            for position in range(n_dim - 1)\n        ]\n", "        limits = [(0, np.inf)] * (n_dim - 1)\n", rules=["C06.ranges"], what="original defect (third audit C06#1): fixed infinite integration range")
M("c06-ranges-wrong-position", "C06", J, "        outer = list(integral_order[position + 1 :]) + [dim]\n", "        outer = list(integral_order[position:]) + [dim]\n", rules=["C06.ranges"], what="the conditioning value is read one argument too early")
M("c06-ranges-wrong-dist", "C06", J, "        idx = integral_order[position]\n        outer = list(", "        idx = position\n        outer = list(", rules=["C06.ranges"], what="quantiles of another variable")
M("c06-ranges-unconditional-quantiles", "C06", J, "                given = np.full(2, args[outer.index(cond_idx)], dtype=float)\n                lower, upper = dist.icdf(probabilities, given=given)\n", "                given = np.full(2, args[0], dtype=float)\n                lower, upper = dist.icdf(probabilities, given=given)\n", rules=["C06.ranges"])
M("c06-ranges-narrow", "C06", J, "        probabilities = np.array([1e-12, 1 - 1e-12])\n", "        probabilities = np.array([1e-3, 1 - 1e-3])\n", rules=["C06.ranges"], what="0.2 % of the mass is left out")
M("c06-ranges-cdf-order", "C06", J, "            self._get_integration_range(integral_order[:-1], position, dim)\n", "            self._get_integration_range(integral_order, position + 1, dim)\n", rules=["C06.ranges"])
M("c06-twin-ranges-temps", "C06", J, "                given = np.full(2, args[outer.index(cond_idx)], dtype=float)\n                lower, upper = dist.icdf(probabilities, given=given)\n", "                value = args[outer.index(cond_idx)]\n                quantiles = dist.icdf(probabilities, given=np.full(2, value, dtype=float))\n                lower, upper = quantiles\n", expect="pass")
M("c06-twin-ranges-1e-10", "C06", J, "        probabilities = np.array([1e-12, 1 - 1e-12])\n", "        probabilities = np.array([1e-10, 1 - 1e-10])\n", expect="pass")
M("c05-ew-pdf-raw-compare", "C05", D, "        x = np.asarray(x)  # array_like: a list cannot be compared with 0\n", "", rules=["C05.support"], what="original defect (audits C05#3, C06-second#2)")
M("c05-twin-ew-pdf-float", "C05", D, "        x = np.asarray(x)  # array_like: a list cannot be compared with 0\n", "        x = np.asarray(x, dtype=float)\n", expect="pass")
M("c16-cdf-requested-n", "C16", J, "                p[i] = (sample <= x_val).sum() / len(sample)\n", "                p[i] = (sample <= x_val).sum() / n\n", rules=["C16.mc"], what="original defect (third audit C16#1)")
M("c16-twin-cdf-mean", "C16", J, "                # the sampler may return fewer than n values\n                p[i] = (sample <= x_val).sum() / len(sample)\n", "                p[i] = np.mean(sample <= x_val)\n", expect="pass")
M("c16-no-sample-zero-cdf", "C16", J, "                p[i] = np.nan  # no sample, no estimate\n", "                p[i] = 0\n", rules=["C16.mc"], what="original defect (third audit C16#2)")
M("c16-no-sample-zero-icdf", "C16", J, "                x[i] = np.nan  # no sample, no estimate\n", "                x[i] = 0\n", rules=["C16.mc"], what="original defect (third audit C16#2)")
M("c16-memo-ignores-model", "C16", J, "        if self._sample is None or self._sample_model != model_state:\n", "        if self._sample is None:\n", rules=["C16.cache"], what="original defect (third audit C16#3)")
M("c16-memo-key-not-stored", "C16", J, "            self._sample_model = model_state\n", "", rules=["C16.cache"], what="the key is compared but never updated: a new sample on every call ... and never for the right model")
M("c16-twin-memo-str", "C16", J, "        model_state = repr(self.model)\n", "        model_state = str(self.model)\n", expect="pass")
M("c16-inverse-cancellation", "C16", VT, "    hs = 4 * d**2 * s / (root + factor)\n", "    hs = (root - factor) / (4 * s)\n", rules=["C16.closed"], what="original defect (third audit C16#4)")
M("c05-twin-generic-early-exit", "C05", D, "        args_with_default = list(self.parameters.values())\n", "        args_with_default = list(self.parameters.values())\n        if not args and not kwargs:\n            return args_with_default\n", expect="pass")
M("c05-generic-early-exit-truthy", "C05", D, "        args_with_default = list(self.parameters.values())\n", "        args_with_default = list(self.parameters.values())\n        if not (any(args) or kwargs):\n            return args_with_default\n", rules=["C05.generic"], what="seed C05-r4b: a positional override 0 is skipped")
M("c07-seed-zero-truthy", ["C07", "C05"], J, "        if random_state is not None:\n            # if random_state already is a np.random.Generator", "        if random_state:\n            # if random_state already is a np.random.Generator", rules={"C07": ["C07.seedzero"], "C05": ["C05.optional"]}, what="seed C07-r4b: seed 0 treated as no seed")
M("c11-fixed-zero-truthy", ["C11", "C05"], D, "        if self.f_mu is not None:\n            fparams[\"fscale\"] = math.exp(self.f_mu)", "        if self.f_mu:\n            fparams[\"fscale\"] = math.exp(self.f_mu)", rules={"C11": ["C11.fixedzero"], "C05": ["C05.optional"]}, what="seed C12-r4a: a mu fixed at 0 is fitted freely")
M("c14-weights-as-sigma", ["C14", "C09"], FIT, "    if weights is not None:\n        # curve_fit takes standard deviations: a weight w_i on the squared residual is sigma_i = w_i ** -0.5\n        weights = 1 / np.sqrt(np.asarray(weights, dtype=float))\n\n", "", rules={"C14": ["C14.bounds"], "C09": ["C09.dependence"]}, what="original defect: weights passed as sigma (inverted and squared)")
M("c14-weights-inverse-only", "C14", FIT, "        weights = 1 / np.sqrt(np.asarray(weights, dtype=float))\n", "        weights = 1 / np.asarray(weights, dtype=float)\n", rules=["C14.bounds"], what="sigma = 1 / w: the weights are squared")
M("c14-twin-weights-power", "C14", FIT, "        weights = 1 / np.sqrt(np.asarray(weights, dtype=float))\n", "        weights = np.asarray(weights, dtype=float) ** -0.5\n", expect="pass")

# ------------------------------------------------------------------ third audit of eight properties: repairs reverted, with twins
M("c08-coefficients-by-position", ["C08", "C14"], DEP, "            return self.func(x, **self.parameters)\n", "            return self.func(x, *self.parameters.values())\n", rules={"C08": ["C08.chain"], "C14": ["C14.eval"]}, what="original defect: conditioner must be last")
M("c08-twin-coefficients-keys", "C08", DEP, "            return self.func(x, **dict(zip(self.parameters, args)), **kwargs)\n", "            return self.func(x, **dict(zip(self.parameters.keys(), args)), **kwargs)\n", expect="pass")
M("c08-given-integer", "C08", D, "            given = np.asarray(given, dtype=float)\n", "            given = np.asarray(given)\n", rules=["C08.values"], what="original defect: integer conditioning values")
M("c17-coordinates-own-dtype", "C17", U, "    coords = np.asarray(contour.coordinates, dtype=float)\n", "    coords = contour.coordinates\n", rules=["C17.float"], what="original defect: unsigned coordinates wrap around")
M("c17-series-own-dtype", "C17", IX, "    x1 = np.asarray(x1, dtype=float)\n", "    x1 = np.asarray(x1)\n", rules=["C17.float"])
M("c10-empty-data-width", "C10", I, "    def _slice(self, data):\n        if len(data) == 0:\n            # nothing to slice, slice_ reports the missing intervals\n            return [], [], []\n        if self.value_range is None:\n", "    def _slice(self, data):\n        if self.value_range is None:\n", rules=["C10.min"], what="original defect: ValueError for empty data")
M("c10-twin-empty-data-size", "C10", I, "    def _slice(self, data):\n        if len(data) == 0:\n            # nothing to slice, slice_ reports the missing intervals\n            return [], [], []\n        if self.value_range is None:\n", "    def _slice(self, data):\n        if not len(data) > 0:\n            return [], [], []\n        if self.value_range is None:\n", expect="pass")
M("c18-parameters-none-conditioner", "C18", J, "            if \"parameters\" in dist_desc and dist_desc.get(\"conditional_on\") is None:\n", "            if \"parameters\" in dist_desc and \"conditional_on\" not in dist_desc:\n", rules=["C18.guard"], what="original defect: 'conditional_on': None with parameters accepted")
M("c18-marginal-cdf-nan", ["C18", "C06"], J, "        x = np.asarray_chkfinite(x)\n        dim = range(self.n_dim)[dim]  # a negative index counts from the last variable\n        if self.conditional_on[dim] is None:\n            # the distribution is not conditional -> it is the marginal\n            return self.distributions[dim].cdf(x)", "        dim = range(self.n_dim)[dim]  # a negative index counts from the last variable\n        if self.conditional_on[dim] is None:\n            # the distribution is not conditional -> it is the marginal\n            return self.distributions[dim].cdf(x)", rules={"C18": ["C18.shared"], "C06": ["C06.finite"]}, what="original defect: marginal_cdf([nan]) = 0")
M("c06-pdf-3d-points", "C06", J, "        if x.ndim != 2 or x.shape[-1] != self.n_dim:\n            raise ValueError(\n                \"The dimension of x does not match the dimension of the model. \"", "        if x.shape[-1] != self.n_dim:\n            raise ValueError(\n                \"The dimension of x does not match the dimension of the model. \"", rules=["C06.chain"], what="original defect: a 3-D array of points multiplies uninitialised memory")
