"""Whole-package behaviour-preserving transformations used as global benign twins:
   * ``unparse``        - every module re-emitted by ast.unparse (layout, comments and quoting change),
   * ``rename_locals``  - every local variable that is never a parameter / global / imported name gets a new name.
The transformed trees must pass every check exactly like the original tree."""
import ast
import builtins
import os
import shutil
import subprocess
import sys
import tempfile
import warnings

HERE = os.path.dirname(os.path.dirname(os.path.abspath(__file__)))


def _locals_and_forbidden(tree):
    loc, forb = set(), set(dir(builtins))
    for n in ast.walk(tree):
        if isinstance(n, (ast.FunctionDef, ast.AsyncFunctionDef, ast.Lambda)):
            a = n.args
            for x in a.posonlyargs + a.args + a.kwonlyargs + ([a.vararg] if a.vararg else []) + ([a.kwarg] if a.kwarg else []):
                forb.add(x.arg)
            if not isinstance(n, ast.Lambda):
                forb.add(n.name)
                for m in ast.walk(n):
                    if isinstance(m, ast.Name) and isinstance(m.ctx, ast.Store):
                        loc.add(m.id)
                    elif isinstance(m, ast.ExceptHandler) and m.name:
                        forb.add(m.name)
                    elif isinstance(m, (ast.Global, ast.Nonlocal)):
                        forb.update(m.names)
        elif isinstance(n, ast.ClassDef):
            forb.add(n.name)
            for st in n.body:
                if isinstance(st, ast.Assign):
                    for t in st.targets:
                        if isinstance(t, ast.Name):
                            forb.add(t.id)
                elif isinstance(st, ast.AnnAssign) and isinstance(st.target, ast.Name):
                    forb.add(st.target.id)
        elif isinstance(n, (ast.Import, ast.ImportFrom)):
            for al in n.names:
                forb.add((al.asname or al.name).split(".")[0])
    for st in tree.body:
        if isinstance(st, ast.Assign):
            for t in st.targets:
                for m in ast.walk(t):
                    if isinstance(m, ast.Name):
                        forb.add(m.id)
    forb.add("_")
    return loc, forb


class _Ren(ast.NodeTransformer):
    def __init__(self, names):
        self.names = names

    def visit_Name(self, node):
        if node.id in self.names:
            node.id = node.id + "_rn"
        return node


def make(kind, src_root="/repo"):
    d = tempfile.mkdtemp(prefix="vstat_twin_")
    shutil.copytree(os.path.join(src_root, "virocon"), os.path.join(d, "virocon"), ignore=shutil.ignore_patterns("__pycache__"))
    for fn in sorted(os.listdir(os.path.join(d, "virocon"))):
        if not fn.endswith(".py"):
            continue
        p = os.path.join(d, "virocon", fn)
        with open(p, encoding="utf-8") as fh:
            src = fh.read()
        with warnings.catch_warnings():
            warnings.simplefilter("ignore")
            tree = ast.parse(src)
        if kind == "rename_locals":
            loc, forb = _locals_and_forbidden(tree)
            tree = _Ren(loc - forb).visit(tree)
            ast.fix_missing_locations(tree)
        out = ast.unparse(tree)
        with warnings.catch_warnings():
            warnings.simplefilter("ignore")
            compile(out, p, "exec")
        with open(p, "w", encoding="utf-8") as fh:
            fh.write(out + "\n")
    return d


def main():
    props = sys.argv[1:] or [f"C{i:02d}" for i in range(1, 21)]
    bad = 0
    for kind in ("unparse", "rename_locals"):
        d = make(kind)
        try:
            for p in props:
                r = subprocess.run([os.path.join(HERE, "check"), p, "--root", d, "--no-write"], capture_output=True, text=True)
                if r.returncode != 0:
                    bad += 1
                    print(f"ALARM {kind} {p}: exit {r.returncode}")
                    for l in r.stdout.splitlines():
                        if "FAIL" in l and l.strip().startswith("FAIL") or "ANALYSIS-ERROR" in l:
                            print("   ", l.strip()[:300])
        finally:
            shutil.rmtree(d, ignore_errors=True)
    print(f"global twins: {bad} alarms")
    return 1 if bad else 0


if __name__ == "__main__":
    sys.exit(main())
