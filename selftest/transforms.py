"""Whole-package behaviour-preserving transformations used as global benign twins:
   * ``unparse``        - every module re-emitted by ast.unparse (layout, comments and quoting change),
   * ``rename_locals``  - every local variable that is never a parameter / global / imported name gets a new name.
The transformed trees must pass every check exactly like the original tree."""
import ast
import builtins
import os
import shutil
import subprocess
import sys
import tempfile
import warnings

HERE = os.path.dirname(os.path.dirname(os.path.abspath(__file__)))


def _locals_and_forbidden(tree):
    loc, forb = set(), set(dir(builtins))
    for n in ast.walk(tree):
        if isinstance(n, (ast.FunctionDef, ast.AsyncFunctionDef, ast.Lambda)):
            a = n.args
            for x in a.posonlyargs + a.args + a.kwonlyargs + ([a.vararg] if a.vararg else []) + ([a.kwarg] if a.kwarg else []):
                forb.add(x.arg)
            if not isinstance(n, ast.Lambda):
                forb.add(n.name)
                for m in ast.walk(n):
                    if isinstance(m, ast.Name) and isinstance(m.ctx, ast.Store):
                        loc.add(m.id)
                    elif isinstance(m, ast.ExceptHandler) and m.name:
                        forb.add(m.name)
                    elif isinstance(m, (ast.Global, ast.Nonlocal)):
                        forb.update(m.names)
        elif isinstance(n, ast.ClassDef):
            forb.add(n.name)
            for st in n.body:
                if isinstance(st, ast.Assign):
                    for t in st.targets:
                        if isinstance(t, ast.Name):
                            forb.add(t.id)
                elif isinstance(st, ast.AnnAssign) and isinstance(st.target, ast.Name):
                    forb.add(st.target.id)
        elif isinstance(n, (ast.Import, ast.ImportFrom)):
            for al in n.names:
                forb.add((al.asname or al.name).split(".")[0])
    for st in tree.body:
        if isinstance(st, ast.Assign):
            for t in st.targets:
                for m in ast.walk(t):
                    if isinstance(m, ast.Name):
                        forb.add(m.id)
    forb.add("_")
    return loc, forb


class _Ren(ast.NodeTransformer):
    def __init__(self, names):
        self.names = names

    def visit_Name(self, node):
        if node.id in self.names:
            node.id = node.id + "_rn"
        return node


class _SwapBranches(ast.NodeTransformer):
    """if c: A else: B  ->  if not c: B else: A"""

    def visit_If(self, node):
        self.generic_visit(node)
        if node.orelse:
            test = node.test.operand if isinstance(node.test, ast.UnaryOp) and isinstance(node.test.op, ast.Not) else ast.UnaryOp(op=ast.Not(), operand=node.test)
            return ast.If(test=test, body=node.orelse, orelse=node.body)
        return node


class _IfExpToIf(ast.NodeTransformer):
    """x = a if c else b  ->  if c: x = a else: x = b   (statement-level single-target assignments)"""

    def visit_Assign(self, node):
        if isinstance(node.value, ast.IfExp) and len(node.targets) == 1 and isinstance(node.targets[0], (ast.Name, ast.Attribute)):
            v = node.value
            return ast.If(test=v.test, body=[ast.Assign(targets=node.targets, value=v.body)], orelse=[ast.Assign(targets=node.targets, value=v.orelse)])
        return node


class _IfToIfExp(ast.NodeTransformer):
    """if c: x = a else: x = b  ->  x = a if c else b"""

    def visit_If(self, node):
        self.generic_visit(node)
        if len(node.body) == 1 and len(node.orelse) == 1 and all(isinstance(s, ast.Assign) and len(s.targets) == 1 for s in node.body + node.orelse):
            a, b = node.body[0], node.orelse[0]
            if isinstance(a.targets[0], (ast.Name, ast.Attribute)) and ast.dump(a.targets[0]) == ast.dump(b.targets[0]):
                return ast.Assign(targets=a.targets, value=ast.IfExp(test=node.test, body=a.value, orelse=b.value))
        return node


_FLIP = {ast.Lt: ast.Gt, ast.Gt: ast.Lt, ast.LtE: ast.GtE, ast.GtE: ast.LtE, ast.Eq: ast.Eq, ast.NotEq: ast.NotEq}


def _simple(e):
    return isinstance(e, (ast.Name, ast.Constant)) or (isinstance(e, ast.Attribute) and _simple(e.value))


class _FlipCompare(ast.NodeTransformer):
    """a < b  ->  b > a  when both sides are names / constants / attribute chains (no evaluation-order effect)"""

    def visit_Compare(self, node):
        self.generic_visit(node)
        if len(node.ops) == 1 and type(node.ops[0]) in _FLIP and _simple(node.left) and _simple(node.comparators[0]):
            return ast.Compare(left=node.comparators[0], ops=[_FLIP[type(node.ops[0])]()], comparators=[node.left])
        return node


class _HoistReturn(ast.NodeTransformer):
    """return expr  ->  _result = expr; return _result   (not for bare names / constants)"""

    def _block(self, stmts):
        out = []
        for st in stmts:
            if isinstance(st, ast.Return) and st.value is not None and not isinstance(st.value, (ast.Name, ast.Constant)):
                out.append(ast.Assign(targets=[ast.Name(id="_result", ctx=ast.Store())], value=st.value))
                out.append(ast.Return(value=ast.Name(id="_result", ctx=ast.Load())))
            else:
                out.append(st)
        return out

    def generic_visit(self, node):
        super().generic_visit(node)
        for f in ("body", "orelse", "finalbody"):
            v = getattr(node, f, None)
            if isinstance(v, list) and v and isinstance(v[0], ast.stmt):
                setattr(node, f, self._block(v))
        return node


def _exits(stmts):
    return bool(stmts) and isinstance(stmts[-1], (ast.Return, ast.Raise, ast.Continue, ast.Break))


class _DropElseAfterExit(ast.NodeTransformer):
    """if c: ...; return/raise/continue/break  else: B   ->   if c: ...exit ; B"""

    def _block(self, stmts):
        out = []
        for st in stmts:
            if isinstance(st, ast.If) and st.orelse and _exits(st.body):
                out.append(ast.If(test=st.test, body=st.body, orelse=[]))
                out.extend(st.orelse)
            else:
                out.append(st)
        return out

    def generic_visit(self, node):
        super().generic_visit(node)
        for f in ("body", "orelse", "finalbody"):
            v = getattr(node, f, None)
            if isinstance(v, list) and v and isinstance(v[0], ast.stmt):
                setattr(node, f, self._block(v))
        return node


class _AddElseAfterExit(ast.NodeTransformer):
    """if c: ...exit ; REST   ->   if c: ...exit  else: REST"""

    def _block(self, stmts):
        for k, st in enumerate(stmts):
            if isinstance(st, ast.If) and not st.orelse and _exits(st.body) and k + 1 < len(stmts):
                rest = self._block(stmts[k + 1:])
                return stmts[:k] + [ast.If(test=st.test, body=st.body, orelse=rest)]
        return stmts

    def generic_visit(self, node):
        super().generic_visit(node)
        for f in ("body", "orelse", "finalbody"):
            v = getattr(node, f, None)
            if isinstance(v, list) and v and isinstance(v[0], ast.stmt):
                setattr(node, f, self._block(v))
        return node


class _EarlyContinue(ast.NodeTransformer):
    """for ...: PRE; if c: BODY     ->   for ...: PRE; if not c: continue; BODY   (the if is the loop's last statement, no else)"""

    def visit_For(self, node):
        self.generic_visit(node)
        if node.body and isinstance(node.body[-1], ast.If) and not node.body[-1].orelse and not node.orelse:
            last = node.body[-1]
            test = last.test.operand if isinstance(last.test, ast.UnaryOp) and isinstance(last.test.op, ast.Not) else ast.UnaryOp(op=ast.Not(), operand=last.test)
            node.body = node.body[:-1] + [ast.If(test=test, body=[ast.Continue()], orelse=[])] + last.body
        return node


class _HoistArgs(ast.NodeTransformer):
    """x = f(g(a), ...)  ->  _arg0 = g(a); x = f(_arg0, ...)   (first positional argument, when it is itself a call;
    statement-level assignments only, so evaluation order is kept)"""

    def __init__(self):
        self.n = 0

    def _block(self, stmts):
        out = []
        for st in stmts:
            v = st.value if isinstance(st, (ast.Assign, ast.Return)) else None
            if isinstance(v, ast.Call) and v.args and isinstance(v.args[0], ast.Call) and not isinstance(v.func, ast.Call) \
                    and not any(isinstance(n, (ast.Lambda, ast.ListComp, ast.GeneratorExp, ast.DictComp, ast.SetComp, ast.NamedExpr)) for n in ast.walk(v)) \
                    and isinstance(v.func, (ast.Name, ast.Attribute)) and (isinstance(v.func, ast.Name) or isinstance(v.func.value, ast.Name)):
                self.n += 1
                nm = f"_arg{self.n}"
                out.append(ast.Assign(targets=[ast.Name(id=nm, ctx=ast.Store())], value=v.args[0]))
                v.args[0] = ast.Name(id=nm, ctx=ast.Load())
            out.append(st)
        return out

    def generic_visit(self, node):
        super().generic_visit(node)
        for f in ("body", "orelse", "finalbody"):
            v = getattr(node, f, None)
            if isinstance(v, list) and v and isinstance(v[0], ast.stmt):
                setattr(node, f, self._block(v))
        return node


class _TupleAssign(ast.NodeTransformer):
    """a = X; b = Y  ->  a, b = X, Y   (two consecutive assignments to plain names, Y not mentioning a, X and Y without calls)"""

    def _block(self, stmts):
        out, k = [], 0
        while k < len(stmts):
            a = stmts[k]
            b = stmts[k + 1] if k + 1 < len(stmts) else None
            def simple(s):
                return isinstance(s, ast.Assign) and len(s.targets) == 1 and isinstance(s.targets[0], ast.Name) \
                    and not any(isinstance(n, (ast.Call, ast.Lambda, ast.ListComp, ast.Yield, ast.Await)) for n in ast.walk(s.value))
            if b is not None and simple(a) and simple(b) and a.targets[0].id != b.targets[0].id \
                    and not any(isinstance(n, ast.Name) and n.id == a.targets[0].id for n in ast.walk(b.value)):
                out.append(ast.Assign(targets=[ast.Tuple(elts=[a.targets[0], b.targets[0]], ctx=ast.Store())], value=ast.Tuple(elts=[a.value, b.value], ctx=ast.Load())))
                k += 2
            else:
                out.append(a)
                k += 1
        return out

    def generic_visit(self, node):
        super().generic_visit(node)
        for f in ("body", "orelse", "finalbody"):
            v = getattr(node, f, None)
            if isinstance(v, list) and v and isinstance(v[0], ast.stmt):
                setattr(node, f, self._block(v))
        return node


class _CompToLoop(ast.NodeTransformer):
    """name = [elt for t in it if c]   ->   name = []; for t in it: if c: name.append(elt)   (statement-level, one generator)"""

    def _block(self, stmts):
        out = []
        for st in stmts:
            if isinstance(st, ast.Assign) and len(st.targets) == 1 and isinstance(st.targets[0], ast.Name) and isinstance(st.value, ast.ListComp) \
                    and len(st.value.generators) == 1 and not st.value.generators[0].is_async \
                    and not any(isinstance(n, ast.Name) and n.id == st.targets[0].id for n in ast.walk(st.value)):
                g = st.value.generators[0]
                nm = st.targets[0].id
                app = ast.Expr(value=ast.Call(func=ast.Attribute(value=ast.Name(id=nm, ctx=ast.Load()), attr="append", ctx=ast.Load()), args=[st.value.elt], keywords=[]))
                body = [app]
                for c in reversed(g.ifs):
                    body = [ast.If(test=c, body=body, orelse=[])]
                out.append(ast.Assign(targets=[ast.Name(id=nm, ctx=ast.Store())], value=ast.List(elts=[], ctx=ast.Load())))
                out.append(ast.For(target=g.target, iter=g.iter, body=body, orelse=[]))
            else:
                out.append(st)
        return out

    def generic_visit(self, node):
        super().generic_visit(node)
        for f in ("body", "orelse", "finalbody"):
            v = getattr(node, f, None)
            if isinstance(v, list) and v and isinstance(v[0], ast.stmt):
                setattr(node, f, self._block(v))
        return node


class _InlineSingleUse(ast.NodeTransformer):
    """t = <expr without calls>; <next statement using t once>   ->   next statement with the expression in place
    (t assigned once and read once in the whole function)"""

    def visit_FunctionDef(self, fn):
        self.generic_visit(fn)
        loads, stores = {}, {}
        for n in ast.walk(fn):
            if isinstance(n, ast.Name):
                d = loads if isinstance(n.ctx, ast.Load) else stores
                d[n.id] = d.get(n.id, 0) + 1
        params = {a.arg for a in fn.args.args + fn.args.kwonlyargs + fn.args.posonlyargs}

        def block(stmts):
            out, k = [], 0
            while k < len(stmts):
                a = stmts[k]
                nxt = stmts[k + 1] if k + 1 < len(stmts) else None
                if nxt is not None and isinstance(a, ast.Assign) and len(a.targets) == 1 and isinstance(a.targets[0], ast.Name) \
                        and a.targets[0].id not in params and loads.get(a.targets[0].id) == 1 and stores.get(a.targets[0].id) == 1 \
                        and not any(isinstance(n, (ast.Call, ast.Lambda, ast.ListComp, ast.GeneratorExp, ast.DictComp, ast.SetComp, ast.Yield, ast.Await, ast.NamedExpr)) for n in ast.walk(a.value)) \
                        and isinstance(nxt, (ast.Assign, ast.Return, ast.Expr, ast.AugAssign)):
                    uses = [n for n in ast.walk(nxt) if isinstance(n, ast.Name) and n.id == a.targets[0].id and isinstance(n.ctx, ast.Load)]
                    inside_scope = any(isinstance(n, (ast.Lambda, ast.ListComp, ast.GeneratorExp, ast.DictComp, ast.SetComp)) for n in ast.walk(nxt))
                    if len(uses) == 1 and not inside_scope:
                        class R(ast.NodeTransformer):
                            def visit_Name(s_, n):
                                return a.value if n is uses[0] else n
                        out.append(R().visit(nxt))
                        k += 2
                        continue
                out.append(a)
                k += 1
            return out

        for holder in ast.walk(fn):
            for f in ("body", "orelse", "finalbody"):
                v = getattr(holder, f, None)
                if isinstance(v, list) and v and isinstance(v[0], ast.stmt):
                    setattr(holder, f, block(v))
        return fn


class _SwapIfExp(ast.NodeTransformer):
    """a if c else b  ->  b if not c else a"""

    def visit_IfExp(self, node):
        self.generic_visit(node)
        test = node.test.operand if isinstance(node.test, ast.UnaryOp) and isinstance(node.test.op, ast.Not) else ast.UnaryOp(op=ast.Not(), operand=node.test)
        return ast.IfExp(test=test, body=node.orelse, orelse=node.body)


class _NestAnd(ast.NodeTransformer):
    """if a and b: BODY  (no else)  ->  if a: if b: BODY"""

    def visit_If(self, node):
        self.generic_visit(node)
        if not node.orelse and isinstance(node.test, ast.BoolOp) and isinstance(node.test.op, ast.And) and len(node.test.values) == 2:
            a, b = node.test.values
            return ast.If(test=a, body=[ast.If(test=b, body=node.body, orelse=[])], orelse=[])
        return node


class _DictCall(ast.NodeTransformer):
    """{"a": x, "b": y}  ->  dict(a=x, b=y)   (identifier string keys only)"""

    def visit_Dict(self, node):
        self.generic_visit(node)
        if node.keys and all(isinstance(k, ast.Constant) and isinstance(k.value, str) and k.value.isidentifier() and k.value not in ("None", "True", "False") for k in node.keys):
            import keyword
            if not any(keyword.iskeyword(k.value) for k in node.keys):
                return ast.Call(func=ast.Name(id="dict", ctx=ast.Load()), args=[], keywords=[ast.keyword(arg=k.value, value=v) for k, v in zip(node.keys, node.values)])
        return node


class _SwapAdjacentAssigns(ast.NodeTransformer):
    """a = X; b = Y  ->  b = Y; a = X   (plain names, no calls / subscripts of names being assigned, neither reads the other)"""

    def _block(self, stmts):
        out, k = [], 0
        def pure(s):
            return isinstance(s, ast.Assign) and len(s.targets) == 1 and isinstance(s.targets[0], ast.Name) \
                and not any(isinstance(n, (ast.Call, ast.Lambda, ast.ListComp, ast.GeneratorExp, ast.DictComp, ast.SetComp, ast.Yield, ast.Await, ast.NamedExpr)) for n in ast.walk(s.value))
        while k < len(stmts):
            a = stmts[k]
            b = stmts[k + 1] if k + 1 < len(stmts) else None
            if b is not None and pure(a) and pure(b) and a.targets[0].id != b.targets[0].id \
                    and not any(isinstance(n, ast.Name) and n.id == a.targets[0].id for n in ast.walk(b.value)) \
                    and not any(isinstance(n, ast.Name) and n.id == b.targets[0].id for n in ast.walk(a.value)):
                out += [b, a]
                k += 2
            else:
                out.append(a)
                k += 1
        return out

    def generic_visit(self, node):
        super().generic_visit(node)
        for f in ("body", "orelse", "finalbody"):
            v = getattr(node, f, None)
            if isinstance(v, list) and v and isinstance(v[0], ast.stmt):
                setattr(node, f, self._block(v))
        return node


KINDS = {"swap_ifexp": _SwapIfExp, "nest_and": _NestAnd, "dict_call": _DictCall, "swap_adjacent_assigns": _SwapAdjacentAssigns, "comp_to_loop": _CompToLoop, "inline_single_use": _InlineSingleUse, "drop_else_after_exit": _DropElseAfterExit, "add_else_after_exit": _AddElseAfterExit, "early_continue": _EarlyContinue,
         "hoist_args": _HoistArgs, "tuple_assign": _TupleAssign, "swap_branches": _SwapBranches, "ifexp_to_if": _IfExpToIf, "if_to_ifexp": _IfToIfExp, "flip_compare": _FlipCompare, "hoist_return": _HoistReturn}


def make(kind, src_root="/repo"):
    d = tempfile.mkdtemp(prefix="vstat_twin_")
    shutil.copytree(os.path.join(src_root, "virocon"), os.path.join(d, "virocon"), ignore=shutil.ignore_patterns("__pycache__"))
    for fn in sorted(os.listdir(os.path.join(d, "virocon"))):
        if not fn.endswith(".py"):
            continue
        p = os.path.join(d, "virocon", fn)
        with open(p, encoding="utf-8") as fh:
            src = fh.read()
        with warnings.catch_warnings():
            warnings.simplefilter("ignore")
            tree = ast.parse(src)
        if kind == "rename_locals":
            loc, forb = _locals_and_forbidden(tree)
            tree = _Ren(loc - forb).visit(tree)
            ast.fix_missing_locations(tree)
        elif kind in KINDS:
            tree = KINDS[kind]().visit(tree)
            ast.fix_missing_locations(tree)
        out = ast.unparse(tree)
        with warnings.catch_warnings():
            warnings.simplefilter("ignore")
            compile(out, p, "exec")
        with open(p, "w", encoding="utf-8") as fh:
            fh.write(out + "\n")
    return d


def main():
    from concurrent.futures import ThreadPoolExecutor
    args = sys.argv[1:]
    kinds = [k for k in args if not k.startswith("C")] or ["unparse", "rename_locals"] + sorted(KINDS)
    props = [p for p in args if p.startswith("C")] or [f"C{i:02d}" for i in range(1, 21)]
    base = {}

    def run(root, p):
        return subprocess.run([os.path.join(HERE, "check"), p, "--root", root, "--no-write"], capture_output=True, text=True)

    with ThreadPoolExecutor(max_workers=12) as ex:
        for p, r in zip(props, ex.map(lambda p: run("/repo", p), props)):
            base[p] = r.returncode
        dirs = {k: make(k) for k in kinds}
        bad = 0
        try:
            jobs = [(k, p) for k in kinds for p in props]
            for (k, p), r in zip(jobs, ex.map(lambda kp: run(dirs[kp[0]], kp[1]), jobs)):
                if r.returncode != base[p]:
                    bad += 1
                    print(f"ALARM {k} {p}: exit {r.returncode} (unchanged tree: {base[p]})")
                    for l in r.stdout.splitlines():
                        if "FAIL" in l and l.strip().startswith("FAIL") or "ANALYSIS-ERROR" in l:
                            print("   ", l.strip()[:300])
        finally:
            for d in dirs.values():
                shutil.rmtree(d, ignore_errors=True)
    print(f"global twins: {len(kinds)} transformations x {len(props)} checks, {bad} alarms")
    return 1 if bad else 0


if __name__ == "__main__":
    sys.exit(main())
