"""Positive controls for the effect analysis: every function here must be reported."""
import numpy as np

SHARED = []


def scale_in_place(x):
    x *= 2
    return x


def store_through_view(data):
    v = np.asarray(data)[1:]
    v[0] = 0
    return v


def sort_argument(points):
    points.sort()
    return points


def through_callee(sample):
    return scale_in_place(np.atleast_1d(sample))


def write_global():
    SHARED.append(1)


def rebind_global():
    global SHARED
    SHARED = [1]


class Model:
    def __init__(self):
        self.scale = 1.0
        self.cache = {}

    def pdf(self, x):
        self.scale = 2.0
        return x * self.scale

    def cdf(self, x):
        self.cache["last"] = x
        return x


def pure(x):
    y = np.array(x)
    y *= 2
    y[0] = 1
    return y
