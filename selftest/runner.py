"""Rule self-test: seeded breaks must fire (naming the expected rule), benign twins must stay silent.

Every variant is a scratch copy of /repo/virocon under a fresh temporary directory (outside /repo and /verif),
edited textually, compiled (never executed) and analysed by a separate ``check --root`` process.
"""
import os
import shutil
import subprocess
import sys
import tempfile
import warnings
from concurrent.futures import ThreadPoolExecutor

HERE = os.path.dirname(os.path.dirname(os.path.abspath(__file__)))
REPO = "/repo"


def _run_one(m, prop):
    d = tempfile.mkdtemp(prefix="vstat_selftest_")
    try:
        shutil.copytree(os.path.join(REPO, "virocon"), os.path.join(d, "virocon"), ignore=shutil.ignore_patterns("__pycache__"))
        if m.get("patch"):
            r = subprocess.run(["git", "apply", m["patch"]], cwd=d, capture_output=True, text=True)
            if r.returncode != 0:
                return {"id": m["id"], "status": "skipped", "why": f"patch does not apply (source changed): {r.stderr.strip()[:120]}"}
        else:
            p = os.path.join(d, "virocon", m["file"])
            with open(p, encoding="utf-8") as fh:
                src = fh.read()
            if src.count(m["old"]) != 1:
                return {"id": m["id"], "status": "skipped", "why": f"pattern occurs {src.count(m['old'])} times in {m['file']} (source changed)"}
            new = src.replace(m["old"], m["new"])
            with warnings.catch_warnings():
                warnings.simplefilter("ignore")
                try:
                    compile(new, p, "exec")
                except SyntaxError as e:
                    return {"id": m["id"], "status": "skipped", "why": f"variant does not compile: {e}"}
            with open(p, "w", encoding="utf-8") as fh:
                fh.write(new)
        r = subprocess.run([os.path.join(HERE, "check"), prop, "--root", d, "--no-write", "--tier", "quick"], capture_output=True, text=True, timeout=300)
        fails = [l.strip() for l in r.stdout.splitlines() if l.strip().startswith("FAIL ")]
        fails += ["FAIL " + l.split()[2] + " (known finding)" for l in r.stdout.splitlines() if l.startswith("KNOWN-FINDING:") and len(l.split()) > 2]
        fired = sorted({l.split()[1] for l in fails})
        return {"id": m["id"], "status": "ran", "exit": r.returncode, "fired": fired, "first": fails[0][:200] if fails else "",
                "err": r.stdout[-300:] if r.returncode == 2 else ""}
    finally:
        shutil.rmtree(d, ignore_errors=True)


def seeded_variants():
    """Independently written breaking changes kept under /verif/seeded/<id>/ (patch.diff, meta.json, verif.json)."""
    import json
    out = []
    base = os.path.join(HERE, "seeded")
    for name in sorted(os.listdir(base)) if os.path.isdir(base) else []:
        vj = os.path.join(base, name, "verif.json")
        pf = os.path.join(base, name, "patch.diff")
        if os.path.exists(vj) and os.path.exists(pf):
            with open(vj) as fh:
                v = json.load(fh)
            if v.get("expect") == "pass":
                # an independently written behaviour-preserving refactoring: no check may change its verdict
                out.append(dict(id=f"twin:{name}", props=list(v["props"]), file="(patch)", patch=pf, expect="pass", rules={}, what=v.get("summary", name)))
            else:
                out.append(dict(id=f"seed:{name}", props=sorted(v["detected_by"]), file="(patch)", patch=pf, expect="fail",
                                rules=v["detected_by"], what=v.get("summary", name)))
    return out


def all_variants():
    from .mutations import MUTATIONS
    return list(MUTATIONS) + seeded_variants()


def run_for_property(prop, rep, seed=0, jobs=16):
    MUTATIONS = all_variants()
    muts = [m for m in MUTATIONS if prop in m["props"]]
    if not muts:
        rep.extra["selftest"] = {"variants": 0}
        return
    with ThreadPoolExecutor(max_workers=jobs) as ex:
        results = list(ex.map(lambda m: _run_one(m, prop), muts))
    n_ok = n_skip = 0
    bad = []
    for m, r in zip(muts, results):
        if r["status"] == "skipped":
            n_skip += 1
            continue
        expect_rules = set(m.get("rules", {}).get(prop, []))
        if m["expect"] == "fail":
            ok = r["exit"] == 1 and (not expect_rules or expect_rules & set(r["fired"]))
            if ok:
                n_ok += 1
                rep.ok(f"{prop}.selftest", f"break:{m['id']}", m["file"], f"seeded break detected by {sorted(expect_rules & set(r['fired'])) or r['fired']}")
            else:
                bad.append(f"seeded break {m['id']} ({m['what']}) not detected as expected: exit {r['exit']}, fired {r['fired']} {r['err'][:120]}")
        elif m["expect"] == "repaired":
            # the intended repair of a recorded finding: the rule must be silent (no FAIL of that rule, exit 0)
            ok = r["exit"] == 0 and not (set(m.get("rules", {}).get(prop, [])) & set(r["fired"]))
            if ok:
                n_ok += 1
                rep.ok(f"{prop}.selftest", f"repair:{m['id']}", m["file"], "the intended repair of the recorded finding silences the rule")
            else:
                bad.append(f"repaired copy {m['id']} ({m['what']}) still fires: exit {r['exit']}, fired {r['fired']}")
        else:
            # a benign twin may only trip known findings (exit 0)
            ok = r["exit"] == 0
            if ok:
                n_ok += 1
                rep.ok(f"{prop}.selftest", f"twin:{m['id']}", m["file"], "behaviour-preserving rewrite accepted")
            else:
                bad.append(f"benign twin {m['id']} ({m['what']}) raised an alarm: exit {r['exit']}, {r['first']} {r['err'][:120]}")
    # whole-package benign twins: layout change (ast.unparse) and renaming of every local variable
    from . import transforms
    twins = {}
    base = subprocess.run([os.path.join(HERE, "check"), prop, "--root", REPO, "--no-write", "--tier", "quick"], capture_output=True, text=True, timeout=300)
    kinds = ["unparse", "rename_locals"] + sorted(transforms.KINDS)

    def one(kind):
        d = transforms.make(kind, REPO)
        try:
            return subprocess.run([os.path.join(HERE, "check"), prop, "--root", d, "--no-write", "--tier", "quick"], capture_output=True, text=True, timeout=300)
        finally:
            shutil.rmtree(d, ignore_errors=True)

    with ThreadPoolExecutor(max_workers=min(jobs, 8)) as ex:
        twin_results = list(ex.map(one, kinds))
    for kind, r in zip(kinds, twin_results):
        twins[kind] = r.returncode
        if r.returncode == base.returncode:
            n_ok += 1
            rep.ok(f"{prop}.selftest", f"twin:package-{kind}", "virocon/*.py", "whole-package behaviour-preserving transformation gives the same verdict")
        else:
            fl = [l.strip()[:200] for l in r.stdout.splitlines() if l.strip().startswith("FAIL") or "ANALYSIS-ERROR" in l]
            bad.append(f"whole-package benign transformation '{kind}' changes the verdict: exit {r.returncode} vs {base.returncode}: {fl[:2]}")
    rep.extra["selftest"] = {"variants": len(muts) + len(kinds), "passed": n_ok, "skipped": n_skip, "package_twins": twins,
                             "skipped_ids": [r["id"] for r in results if r["status"] == "skipped"]}
    for b in bad:
        rep.error("self-test: " + b)


def main():
    """python -m selftest.runner [PROP ...] : run the whole table and print a summary."""
    MUTATIONS = all_variants()
    props = sys.argv[1:] or sorted({p for m in MUTATIONS for p in m["props"]})
    total = bad = 0
    for prop in props:
        muts = [m for m in MUTATIONS if prop in m["props"]]
        with ThreadPoolExecutor(max_workers=16) as ex:
            results = list(ex.map(lambda m: _run_one(m, prop), muts))
        for m, r in zip(muts, results):
            total += 1
            exp = set(m.get("rules", {}).get(prop, []))
            if r["status"] == "skipped":
                print(f"SKIP {prop} {m['id']}: {r['why']}")
                bad += 1
            elif m["expect"] == "fail" and not (r["exit"] == 1 and (not exp or exp & set(r["fired"]))):
                print(f"MISS {prop} {m['id']}: exit {r['exit']} fired {r['fired']} expected {sorted(exp)} {r['err'][:200]}")
                bad += 1
            elif m["expect"] == "repaired" and (r["exit"] != 0 or exp & set(r["fired"])):
                print(f"STILL-FIRES {prop} {m['id']}: exit {r['exit']} fired {r['fired']}")
                bad += 1
            elif m["expect"] == "pass" and r["exit"] != 0:
                print(f"ALARM {prop} {m['id']}: exit {r['exit']} {r['first']} {r['err'][:200]}")
                bad += 1
    print(f"{total} variants, {bad} problems")
    return 1 if bad else 0


if __name__ == "__main__":
    sys.path.insert(0, HERE)
    sys.exit(main())
